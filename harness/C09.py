"""C09 — remote exceptions arrive as the same class with the same data, and safely.

For every generated case the real code path is driven on one thread, without sockets:
  sender   : Connection._dispatch_request (handler raises the exception) -> _box_exc -> vinegar.dump -> brine -> bytes
  requester: Connection._dispatch(bytes) -> _unbox_exc -> vinegar.load -> callback -> AsyncResult.value raises
and (1) the property's own statement is evaluated on what the requester catches (oracle), (2) the extracted model
(model/Vinegar.v) is run on the same inputs and compared (correspondence): the record put on the wire, the effects
of the loader (imports, __new__/__init__ canaries) and the rebuilt object."""
import builtins, importlib, os, random, shutil, struct, sys, tempfile, traceback, types
from harness import common as C

META = {
    "level": "proof",
    "level_text": "Theorems over all exception records and all payloads (props/C09.v): class/args/attribute fidelity of every built-in class under every "
                  "setting of the sender and receiver switches, exact gating of custom classes (incl. classes a loaded module serves through a module-level "
                  "__getattr__, PEP 562), for EVERY payload and every switch setting: an import happens only through the guarded __import__ or inside a module "
                  "hook consulted by the class lookup, never a constructor, at most one __new__, only builtins classes when instantiate_custom is off; "
                  "'no import unless import_custom is on' is proved for trees whose lookup consults module hooks only when importing is allowed (generated fact "
                  "load_lookup_mode; c09_no_import_without_switch) and REFUTED with a witness for a tree that uses getattr (c09_no_import_without_switch_refuted); "
                  "under the default switches nothing is imported whatever the lookup form; the attribute list of theorem 1 is what dump() sends: on a tree whose "
                  "dump does not leave callables out it includes the repr text of public METHODS (add_note), which shadows them on the rebuilt object -- "
                  "c09_methods_not_shadowed holds under the generated fact dump_skips_callables, c09_methods_not_shadowed_refuted otherwise; every loader failure "
                  "(before or after the object exists: TypeError/ValueError/UnicodeError/AttributeError, never EOFError) reaches the request under the delivering "
                  "_dispatch; c09_tie asserts the repairs the tree carries (delivering dispatch, guarded module hooks, guarded fast path, _send_exc fallback form, "
                  "REMOTE_LINE constants); the StopIteration fast path in both directions, non-disclosure of traceback/version; the loader's "
                  "import guard and class-resolution ladder, the dump normalisation facts and the _box_exc/_unbox_exc plumbing are regenerated from the "
                  "source on every run and tied by reflexivity; the extracted model is compared with the real code on every built-in class of the running "
                  "interpreter, custom classes (imported / importable / unknown / served lazily by a hooked module) and hostile payloads. Proof is the right level: the property quantifies "
                  "over all classes, argument tuples, switch settings and arbitrary payloads.",
    "level_note": "Trusted: Coq kernel, pygen, extraction + driver, harness. CPython's own behaviour is environment: dir()/getattr/repr on the sender, "
                  "the builtins namespace / sys.modules / import machinery, BaseException.__new__, setattr on exception objects (the model returns the "
                  "setattr instructions, the harness executes them on a fresh object of the same base class). Outside: text of tracebacks, classes whose "
                  "__new__ needs arguments (reported by the oracle when built in), frozenset iteration order inside hostile records (unmodelled); "
                  "the model takes repr() of every object as a total text and dumpable() as terminating: exceptions whose arguments/attributes have a raising "
                  "repr or are nested beyond the recursion limit are outside the theorems (serve_exc is total) and covered by the harness only (the _send_exc "
                  "fallback must answer with the failure's class); failures of CPython's setattr on the new object are outside the model's Fail. "
                  "Code of already imported modules that runs on attribute access is modelled only as the PEP 562 module hook (its imports and the class it "
                  "returns); importlib LazyLoader modules, module subclasses with properties, sys.modules entries that are not modules and hooks raising "
                  "something other than AttributeError are outside.",
    "technique": "Coq proof over an executable model (interpreted resolution ladder) + regenerated facts tied by reflexivity + differential correspondence "
                 "of the extracted model + implementation-level oracle with audit hook / sys.modules delta / __new__ and __init__ canaries",
    "gen": ["consts", "vinegar"],
    "shapes": ["vinegar.*"],
    "models": ["vinegar"],
    "model_files": ["Vinegar"],
    "assumptions": [
        "CPython: dir(), getattr, repr, BaseException.__new__/args/setattr semantics, import machinery (audit event 'import' on every real import attempt)",
        "brine round trip of the record is C04 (c09_wire reuses its theorem); values here stay below its size limits",
        "the StopIteration fast path carries no traceback/version by design (theorem 4); classes whose __new__ requires arguments are outside the model's "
        "positive theorem (hypothesis new_ok) but inside the oracle",
        "a module-level __getattr__ of an already imported module is described to the model by the harness (which names it serves, what it imports, "
        "what it returns); the fixture module c09mod_hook stands for real ones such as concurrent.futures",
    ],
}

from rpyc.core import brine, consts, vinegar
from rpyc.core.protocol import Connection
from rpyc.core.async_ import AsyncResult
from rpyc.core.service import VoidService
from rpyc import version as rpyc_version

VERSION = rpyc_version.version_string
MAJOR = str(rpyc_version.version[0])
DENIED_TB, DENIED_VER = "<traceback denied>", "<version denied>"
HID = 9009
MISSING = object()

# ------------------------------------------------------------------ values <-> sx (same encoding as model/Brine.v pv_of_sx)


def fbits(x):
    return struct.pack(">d", x)


def to_sx(o):
    t = type(o)
    if o is None: return [0]
    if o is NotImplemented: return [1]
    if o is Ellipsis: return [2]
    if t is bool: return [3, o]
    if t is int: return [4, o]
    if t is float: return [5, fbits(o)]
    if t is complex: return [6, fbits(o.real) + fbits(o.imag)]
    if t is bytes: return [7, o]
    if t is str: return [8, [ord(c) for c in o]]
    if t is tuple: return [9, [to_sx(x) for x in o]]
    if t is frozenset: return [10, [to_sx(x) for x in tuple(o)]]
    if t is slice: return [11, to_sx(o.start), to_sx(o.stop), to_sx(o.step)]
    return [12, 1]


def from_sx(x):
    k = x[0]
    if k == 0: return None
    if k == 1: return NotImplemented
    if k == 2: return Ellipsis
    if k == 3: return bool(x[1])
    if k == 4: return x[1]
    if k == 5: return struct.unpack(">d", x[1])[0]
    if k == 6: return complex(*struct.unpack(">dd", x[1]))
    if k == 7: return x[1]
    if k == 8: return "".join(map(chr, x[1]))
    if k == 9: return tuple(from_sx(y) for y in x[1])
    if k == 10: return frozenset(from_sx(y) for y in x[1])
    if k == 11: return slice(from_sx(x[1]), from_sx(x[2]), from_sx(x[3]))
    return object()


def plain_sx(x):
    k = x[0]
    if k in (9, 10): return all(plain_sx(y) for y in x[1])
    if k == 11: return plain_sx(x[1]) and plain_sx(x[2]) and plain_sx(x[3])
    return k != 12


def canon(o):
    t = type(o)
    if o is None: return ("none",)
    if o is NotImplemented: return ("notimpl",)
    if o is Ellipsis: return ("ellipsis",)
    if t is bool: return ("bool", o)
    if t is int: return ("int", hex(o))
    if t is float: return ("float", fbits(o).hex())
    if t is complex: return ("complex", fbits(o.real).hex(), fbits(o.imag).hex())
    if t is bytes: return ("bytes", o.hex())
    if t is str: return ("str", tuple(map(ord, o)))
    if t is tuple: return ("tuple", tuple(canon(x) for x in o))
    if t is frozenset: return ("fset", tuple(sorted((canon(x) for x in o), key=repr)))
    if t is slice: return ("slice", canon(o.start), canon(o.stop), canon(o.step))
    return ("other", t.__name__)


def cps(s):
    return [ord(c) for c in s]


def uncps(l):
    return "".join(map(chr, l))


def short(o, n=200):
    try:
        s = repr(o)
    except Exception as e:
        s = "<repr failed: %s>" % type(e).__name__
    return s if len(s) <= n else s[:n] + "...(%d chars)" % len(s)


def norm_py(a):
    """the property's normalisation, computed independently of rpyc: immutable plain values stay, others become their repr"""
    return a if plain_sx(to_sx(a)) else repr(a)


# ------------------------------------------------------------------ instrumentation

_audit = {"on": False, "imports": [], "other": []}


def _hook(ev, args):
    if not _audit["on"]:
        return
    if ev == "import":
        _audit["imports"].append(args[0])
    elif ev in ("exec", "compile", "os.system", "subprocess.Popen", "pickle.find_class", "ctypes.dlopen"):
        _audit["other"].append(ev)


sys.addaudithook(_hook)

MOD_SRC = '''
import sys
_reg = sys.modules.get("_c09_registry")
if _reg is not None:
    _reg.IMPORTS.append(__name__)
def _note(kind, name):
    r = sys.modules.get("_c09_registry")
    if r is not None:
        r.CALLS.append((kind, name))
class Foo(Exception):
    def __new__(cls, *a, **k):
        _note("new", "Foo")
        return super().__new__(cls, *a, **k)
    def __init__(self, *a, **k):
        _note("init", "Foo")
        super().__init__(*a)
class NeedsArgs(Exception):
    def __init__(self, a, b):
        _note("init", "NeedsArgs")
        super().__init__(a, b)
        self.total = (a, b)
class Sub(ValueError):
    level = "class-level"
    def __init__(self, *a):
        _note("init", "Sub")
        super().__init__(*a)
class Base(BaseException):
    def __new__(cls, *a, **k):
        _note("new", "Base")
        return super().__new__(cls, *a, **k)
NotExc = int
class Plain(object):
    def __init__(self, *a):
        _note("init", "Plain")
def helper(*a):
    _note("call", "helper")
VE = ValueError
'''
MOD_NS = {"Foo": "exc", "NeedsArgs": "exc", "Sub": "exc", "Base": "exc", "NotExc": "other", "Plain": "other", "helper": "other",
          "VE": "builtin:ValueError", "sys": "other"}
LOADED, LAZY, LAZY2, NOSUCH, HOOK = "c09mod_loaded", "c09mod_lazy", "c09mod_lazy2", "c09mod_nosuch", "c09mod_hook"
CUSTOM_MODS = [LOADED, LAZY, LAZY2, NOSUCH]
# an already imported module with a module-level __getattr__ (PEP 562) that imports on demand, like concurrent.futures
HOOK_SRC = '''
class HookExc(Exception):
    pass
plain_value = 5
def __getattr__(name):
    if name == "LazyExc":
        import c09mod_lazy2
        return c09mod_lazy2.Foo
    if name == "LazyOther":
        import c09mod_lazy
        return c09mod_lazy.helper
    if name == "LazyNone":
        import c09mod_lazy
        raise AttributeError(name)
    raise AttributeError(name)
'''
# name -> (modules the hook imports, (module, class) of the exception class it returns or None)
HOOK_LAZY = {"LazyExc": ([LAZY2], (LAZY2, "Foo")), "LazyOther": ([LAZY], None), "LazyNone": ([LAZY], None)}


class Fixture:
    """temp dir on sys.path with the custom-exception modules, a registry module for canaries, fake-channel connections"""

    def __init__(self):
        self.dir = tempfile.mkdtemp(prefix="c09-")
        for m in (LOADED, LAZY, LAZY2):
            with open(os.path.join(self.dir, m + ".py"), "w") as f:
                f.write(MOD_SRC)
        with open(os.path.join(self.dir, HOOK + ".py"), "w") as f:
            f.write(HOOK_SRC)
        self.reg = types.ModuleType("_c09_registry")
        self.reg.IMPORTS, self.reg.CALLS = [], []
        sys.modules["_c09_registry"] = self.reg
        sys.path.insert(0, self.dir)
        importlib.invalidate_caches()
        self.loaded = importlib.import_module(LOADED)
        self.hook = importlib.import_module(HOOK)
        self.conns = {}
        self.builtin_ns = self._builtin_ns()

    def close(self):
        for c in self.conns.values():
            try:
                c.close()
            except Exception:
                pass
        for m in [LOADED, LAZY, LAZY2, HOOK, "_c09_registry"]:
            sys.modules.pop(m, None)
        if self.dir in sys.path:
            sys.path.remove(self.dir)
        shutil.rmtree(self.dir, ignore_errors=True)

    def unload_lazy(self):
        for m in (LAZY, LAZY2):
            sys.modules.pop(m, None)

    def conn(self, **cfg):
        key = tuple(sorted(cfg.items()))
        if key not in self.conns:
            self.conns[key] = Connection(VoidService(), FakeChannel(), config=dict(cfg))
        return self.conns[key]

    @staticmethod
    def _builtin_ns():
        out = []
        for n in dir(builtins):
            out.append([cps(n), kind_sx(getattr(builtins, n))])
        return out


class FakeChannel:
    closed = False

    def __init__(self):
        self.sent = []

    def send(self, data):
        self.sent.append(data)

    def close(self):
        pass

    def fileno(self):
        return -1

    def poll(self, timeout):
        return False

    def recv(self):
        raise EOFError("fake channel")


def clsid_sx(cls):
    if getattr(builtins, cls.__name__, None) is cls:
        return [0, cps(cls.__name__)]
    return [1, cps(cls.__module__), cps(cls.__name__)]


def new_ok(cls):
    try:
        cls.__new__(cls)
        return True
    except TypeError:
        return False


_kind_cache = {}


def kind_sx(v):
    if isinstance(v, type) and issubclass(v, BaseException):
        if v.__module__ == "builtins":
            if v not in _kind_cache:
                _kind_cache[v] = [1, clsid_sx(v), new_ok(v)]
            return _kind_cache[v]
        return [1, clsid_sx(v), True]      # harness classes: __new__ without arguments works (canaries stay quiet here)
    return [0]


def module_ns_sx(mod, extra_names):
    """the module's namespace (its __dict__: reading it must not run a module-level __getattr__), plus, for the fixture's
    hooked module, what its __getattr__ serves"""
    names = set(extra_names) | set(MOD_NS) | {"error", "path", "exit", "modules", "HookExc", "plain_value"}
    out = []
    d = getattr(mod, "__dict__", {})
    for n in sorted(names):
        v = d.get(n, MISSING) if isinstance(n, str) else MISSING
        if v is not MISSING:
            out.append([cps(n), kind_sx(v)])
    if getattr(mod, "__name__", None) == HOOK:
        for n, (imps, found) in sorted(HOOK_LAZY.items()):
            e = [2, [cps(m) for m in imps]]
            if found is not None:
                e += [[1, cps(found[0]), cps(found[1])], True]
            out.append([cps(n), e])
    return out


def has_module_hook(modname):
    m = sys.modules.get(modname) if isinstance(modname, str) else None
    return m is not None and "__getattr__" in getattr(m, "__dict__", {})


def lazy_ns_sx(modname):
    out = []
    for n, k in sorted(MOD_NS.items()):
        if k == "exc":
            out.append([cps(n), [1, [1, cps(modname), cps(n)], True]])
        elif k.startswith("builtin:"):
            out.append([cps(n), [1, [0, cps(k[8:])], True]])
        else:
            out.append([cps(n), [0]])
    return out


def env_sx(fx, modname, clsname):
    """the receiver's environment as the model sees it: builtins namespace, the sys.modules entry the payload names,
    what would become importable"""
    mods, imp = [], []
    if isinstance(modname, str) and modname != "builtins":
        if modname in sys.modules:
            mods.append([cps(modname), module_ns_sx(sys.modules[modname], [clsname] if isinstance(clsname, str) else [])])
        elif modname in (LAZY, LAZY2):
            imp.append([cps(modname), lazy_ns_sx(modname)])
    return [fx.builtin_ns, mods, imp, cps(MAJOR)]


# ------------------------------------------------------------------ case generation

class MyInt(int):
    pass


class MyStr(str):
    pass


IMM = [0, 1, -1, 7, 2 ** 40, -(2 ** 70), 1.5, -0.0, float("inf"), None, True, False, "", "x", "h\xe9llo", "日本", "a" * 300, "\ud800z",
       b"", b"\x00\xff", (), (1, "a"), ((1,), (2, (3, None))), frozenset(), frozenset([1, 2]), 1 + 2j, Ellipsis, NotImplemented,
       slice(1, 2, None), (b"k", 2.5, ("deep", ((), (0,)))), "quote'\"\\", "nul\x00byte", 10 ** 30]
MUT = [lambda: [1, 2], lambda: {"a": 1}, lambda: {1, 2}, lambda: bytearray(b"ab"), lambda: object(), lambda: (1, [2]), lambda: ([],),
       lambda: ValueError("inner"), lambda: len, lambda: int, lambda: MyInt(5), lambda: MyStr("s"), lambda: range(3),
       lambda: (1, (2, {3: 4})), lambda: frozenset([(1, MyInt(2))]), lambda: slice(0, [1], None), lambda: [[]], lambda: memoryview(b"m")]

OSERR_ARGS = [(2, "No such file"), (13, "denied", "/tmp/x"), (17, "exists", "a", None, "b"), (11, "again"), (32, "pipe"), (104, "reset"), (9999, "odd")]
SPECIAL = {
    "BlockingIOError": [(11, "would block", 5)],
    "UnicodeDecodeError": [("utf-8", b"\xff\xfe", 0, 1, "invalid start byte"), ("ascii", b"", 0, 0, "")],
    "UnicodeEncodeError": [("ascii", "h\xe9", 1, 2, "ordinal not in range"), ("latin-1", "€", 0, 1, "x")],
    "UnicodeTranslateError": [("h\xe9", 1, 2, "why")],
    "SyntaxError": [("bad", ("f.py", 3, 7, "x = (\n")), ("bad", ("f.py", 3, 7, "x = (\n", 3, 9)), ("msg",)],
    "IndentationError": [("bad", ("f.py", 3, 7, "x = (\n")), ("msg",)],
    "TabError": [("bad", ("f.py", 3, 7, "\tx")), ("msg",)],
    "StopIteration": [("x",), (None,), ((1, 2),), ([1],), (0,), ("a", "b")],
    "StopAsyncIteration": [("x",)],
    "SystemExit": [(0,), ("bye",), (None,), (3, 4)],
    "KeyError": [("k",), (("a", 1),), ([1],)],
}
GROUPS = {"ExceptionGroup": [("grp", [ValueError(1), TypeError("t")]), ("g2", [KeyError("k")])],
          "BaseExceptionGroup": [("grp", [KeyboardInterrupt()]), ("g", [ValueError(2)])]}
KWARGS = {"ImportError": [dict(name="mod", path="/p/mod.py"), dict(name="m")], "ModuleNotFoundError": [dict(name="mod")],
          "AttributeError": [dict(name="attr", obj=(1, 2)), dict(name="a", obj=[1])], "NameError": [dict(name="nm")]}


def builtin_exception_names():
    return sorted(n for n in dir(builtins) if isinstance(getattr(builtins, n), type) and issubclass(getattr(builtins, n), BaseException))


def gen_args(r, variant):
    """argument tuples: immutable / mutable / nested / mixed"""
    if variant == "none":
        return ()
    if variant == "imm":
        return tuple(r.choice(IMM) for _ in range(r.choice([1, 1, 2, 3, 5])))
    if variant == "mut":
        return tuple(r.choice(MUT)() for _ in range(r.choice([1, 2, 3])))
    if variant == "nested":
        return (tuple(r.choice(IMM) for _ in range(r.choice([0, 2, 4]))), (r.choice(IMM), (r.choice(IMM), r.choice(MUT)())))
    return tuple(r.choice(IMM) if r.random() < 0.6 else r.choice(MUT)() for _ in range(r.choice([2, 3, 4, 6])))


def build_exception(r, cls, variant):
    """an instance of cls (possibly a Python-chosen subclass, e.g. OSError(2,..) -> FileNotFoundError), plus extra attributes"""
    name = cls.__name__
    e = None
    kw = {}
    if variant == "special":
        if name in GROUPS:
            a = r.choice(GROUPS[name])
        elif issubclass(cls, OSError) and name != "BlockingIOError":
            a = r.choice(OSERR_ARGS)
        elif name in SPECIAL:
            a = r.choice(SPECIAL[name])
        else:
            a = gen_args(r, "mixed")
        if name in KWARGS:
            kw = r.choice(KWARGS[name])
            a = ("msg",)
    else:
        a = gen_args(r, variant)
    for attempt in (a, (SPECIAL.get(name) or GROUPS.get(name) or [()])[0], ()):
        try:
            e = cls(*attempt, **kw)
            break
        except Exception:
            kw = {}
            continue
    if e is None:
        return None
    k = r.random()
    try:
        if k < 0.35:
            e.detail = r.choice(IMM)
        if 0.2 < k < 0.5:
            e.blob = r.choice(MUT)()
        if 0.4 < k < 0.6:
            e._private = r.choice(IMM)
        if 0.55 < k < 0.7 and hasattr(e, "add_note"):
            e.add_note("note " + str(r.randint(0, 9)))
        if 0.65 < k < 0.75:
            e.code_like = (r.choice(IMM), r.choice(IMM))
    except Exception:
        pass
    return e


def gen_value(r, depth):
    k = r.random()
    if depth <= 0:
        k *= 0.7
    if k < 0.08: return r.choice([None, True, False, Ellipsis, NotImplemented])
    if k < 0.25: return r.choice([0, 1, 2, -1, 5, 255, 2 ** 33, r.randint(-300, 300)])
    if k < 0.32: return r.choice([1.0, 0.0, 2.5, float("inf"), 1e300])
    if k < 0.36: return r.choice([1 + 0j, complex(1, -0.0), 2j])
    if k < 0.46: return r.choice([b"", b"ab", b"abcd", b"\x00", r.randbytes(r.choice([2, 4, 7]))])
    if k < 0.62: return r.choice(["", "ab", "abcd", "builtins", "ValueError", "os", "x" * r.choice([2, 4]), "\ud800", "a\x00", "_remote_version", "5.0.1", DENIED_VER])
    if k < 0.70: return r.choice(IMM)
    c = r.random()
    n = r.choice([0, 1, 2, 2, 3, 4, 4, 5])
    if c < 0.8: return tuple(gen_value(r, depth - 1) for _ in range(n))
    if c < 0.9:
        try:
            return frozenset(gen_value(r, depth - 1) for _ in range(n))
        except TypeError:
            return ()
    return slice(gen_value(r, 0), gen_value(r, 0), gen_value(r, 0))


HOSTILE_MODS = ["builtins", "os", "sys", "posix", "subprocess", "harness.C09", LOADED, LAZY, LAZY2, NOSUCH, HOOK, HOOK, "", "builtins.x", "os.path", "rpyc.core.vinegar",
                "c09mod_loaded.Foo", "exceptions", "a\x00b", "s\ud800", "__main__", "_c09_registry", 5, None, b"os", ("os",), 1.0, True]
HOSTILE_CLS = ["LazyExc", "LazyOther", "LazyNone", "HookExc", "plain_value", "ValueError", "OSError", "IOError", "EnvironmentError", "SystemExit", "KeyboardInterrupt", "StopIteration", "ExceptionGroup", "BaseExceptionGroup",
               "UnicodeDecodeError", "BlockingIOError", "SyntaxError", "int", "len", "eval", "exec", "exit", "open", "__import__", "object", "type", "nosuch",
               "error", "system", "Popen", "path", "modules", "Foo", "NeedsArgs", "Sub", "Base", "NotExc", "Plain", "helper", "VE", "GenericException", "load",
               "", "a.b", "Value\x00Error", "\udc00", "__class__", 5, None, b"ValueError", ("ValueError",), 2.5, "BaseException", "Exception", "Warning"]
HOSTILE_ATTR_NAMES = ["x", "detail", "args", "_remote_version", "_remote_tb", "__class__", "__dict__", "__traceback__", "__cause__", "__context__",
                      "__suppress_context__", "__notes__", "errno", "strerror", "filename", "characters_written", "object", "start", "end", "encoding",
                      "reason", "value", "code", "msg", "lineno", "text", "name", "obj", "path", "message", "exceptions", "add_note", "with_traceback",
                      "__init__", "__new__", "__setattr__", "__reduce__", "__str__", "", "a b", "é", 5, None, b"x", ("x",)]
HOSTILE_VERS = ["5.0.1", "5", "5.", "4.0.1", "", ".", "50.1", DENIED_VER, "<version denied> ", "6.0", 5, 5.0, None, b"4.0", b"", ("5", "0"), True, "\ud800.1"]
HOSTILE_TB = ["tb", "", "Traceback (most recent call last):\n  boom\n", 7, None, b"tb", ("tb",), 1.5]


SAFE_ATTR_NAMES = ["x", "detail", "errno", "strerror", "filename", "value", "code", "msg", "name", "path", "reason", "note", "é", "a b"]
BENIGN_VERS = ["5.0.1", "5.0.1", "5", "5.9", DENIED_VER, "4.0.1", "6.0"]


TWISTS = ["mod"] * 4 + ["cls"] * 4 + ["attrname"] * 4 + ["ver"] * 3 + ["none"] * 3 + ["tb", "key", "args", "attritem", "attrs", "arity"]


def gen_hostile(r):
    """record-shaped payloads that are valid except for one or two hostile twists (module / class name, field type or arity,
    special attribute names, odd version or traceback values); some arbitrary values"""
    k = r.random()
    if k < 0.08:
        return gen_value(r, 3)
    if k < 0.13:
        return r.choice([1, True, 1.0, 1 + 0j, complex(1, -0.0), 2, 0, 1.5, "abc", "", "abcd", b"abcd", None, (), (1, 2, 3), (1, 2, 3, 4), (1, 2, 3, 4, 5),
                         ("ab", (), (), "tb"), (b"ab", (), (), "tb"), frozenset([1, 2, 3, 4]), slice(1, 2, 3), ((), (), (), ()), ("", "", "", "")])
    twists = set(r.choice(TWISTS) for _ in range(r.choice([1, 1, 1, 2, 2, 3])))
    mod = r.choice(HOSTILE_MODS) if "mod" in twists else r.choice(["builtins", "builtins", "builtins", LOADED, LAZY, "os", "harness.C09", NOSUCH])
    cn = r.choice(HOSTILE_CLS) if "cls" in twists else r.choice(["ValueError", "OSError", "KeyError", "Foo", "Sub", "error", "IOError", "UnicodeDecodeError", "StopIteration"])
    key = (mod, cn)
    if "key" in twists:
        key = r.choice([(mod, cn, 1), (mod,), "ab", b"ab", "a", 5, None, frozenset(["a", "b"]), slice("m", "c"), (), (cn, mod)])
    args = tuple(r.choice(IMM) for _ in range(r.choice([0, 1, 2, 3])))
    if "args" in twists:
        args = r.choice(["xyz", b"xy", "", b"", frozenset([1]), frozenset([1, 2]), 5, None, 1.5, True, slice(1, 2), Ellipsis, NotImplemented])
    attrs = []
    for _ in range(r.choice([0, 1, 2, 3])):
        attrs.append((r.choice(SAFE_ATTR_NAMES), r.choice(IMM)))
    if "attrname" in twists:
        for _ in range(r.choice([1, 1, 2])):
            nm = r.choice(HOSTILE_ATTR_NAMES)
            attrs.insert(r.randint(0, len(attrs)), (nm, r.choice(IMM + [None, 1, "s", b"b", 5, (1, 2), 0, True])))
    if "attritem" in twists:
        attrs.insert(r.randint(0, len(attrs)), r.choice([("n",), ("n", 1, 2), "ab", "a", b"ab", 5, None, "abc", frozenset(["p", "q"]), (), ((), ())]))
    if r.random() < 0.8:
        attrs.append(("_remote_version", r.choice(HOSTILE_VERS) if "ver" in twists else r.choice(BENIGN_VERS)))
    attrs = tuple(attrs)
    if "attrs" in twists:
        attrs = r.choice(["", "ab", b"", b"ab", ("ab", "cd"), (b"ab",), frozenset(), 5, None, 2.5, True, Ellipsis, slice(None)])
    tb = r.choice(HOSTILE_TB) if "tb" in twists else r.choice(["tb", "Traceback (most recent call last):\n  boom\n"])
    rec = [key, args, attrs, tb]
    if "arity" in twists:
        rec = r.choice([rec[:3], rec + [1], [tuple(rec)], rec[:1], []])
    return tuple(rec)


# ------------------------------------------------------------------ driving the real code

def sender_cfg(sf):
    return dict(include_local_traceback=bool(sf[0]), include_local_version=bool(sf[1]),
                propagate_SystemExit_locally=bool(sf[2]), propagate_KeyboardInterrupt_locally=bool(sf[3]))


def receiver_cfg(rf):
    return dict(import_custom_exceptions=bool(rf[0]), instantiate_custom_exceptions=bool(rf[1]), instantiate_oldstyle_exceptions=bool(rf[2]))


def serve_exception(fx, exc, sf):
    """run the sender half; returns ('routed', None, None) | ('sent', wire_bytes, tbtext) | ('sender-error', exc, None)"""
    conn = fx.conn(**sender_cfg(sf))
    ch = conn._channel
    del ch.sent[:]

    def raiser(_self):
        raise exc
    conn._HANDLERS[HID] = raiser
    try:
        conn._dispatch_request(77, (HID, (consts.LABEL_TUPLE, ())))
    except BaseException as e:           # re-raised locally
        if e is exc:
            return "routed", None, None
        return "sender-error", e, None
    if len(ch.sent) != 1:
        return "sender-error", RuntimeError("%d frames sent" % len(ch.sent)), None
    try:
        tbtext = "".join(traceback.format_exception(type(exc), exc, conn._last_traceback))
    except Exception as e:      # the harness's own formatting of an exception it generated (too deep / raising repr) must not escape
        tbtext = "<traceback text not computable by the harness: %s>" % type(e).__name__
    return "sent", ch.sent.pop(), tbtext


def receive(fx, wire, rf):
    """run the requester half on wire bytes; returns observation dict.
    obs["raised"]: the failure of vinegar.load (through _unbox_exc), whether _dispatch lets it escape (obs["escaped"]) or delivers it
    to the request as its exception (obs["delivered_failure"]); obs["obj"]/obs["caught"]: the rebuilt object when load succeeded"""
    conn = fx.conn(**receiver_cfg(rf))
    res = AsyncResult(conn)
    conn._request_callbacks[77] = res
    load_fail = []
    orig = conn._unbox_exc

    def spy(raw):
        try:
            return orig(raw)
        except BaseException as e:
            load_fail.append(e)
            raise
    conn._unbox_exc = spy
    before = set(sys.modules)
    del fx.reg.CALLS[:], fx.reg.IMPORTS[:]
    _audit["imports"], _audit["other"] = [], []
    _audit["on"] = True
    escaped = None
    try:
        try:
            conn._dispatch(wire)
        except BaseException as e:
            escaped = e
    finally:
        _audit["on"] = False
        del conn._unbox_exc
    left_registered = conn._request_callbacks.pop(77, None) is not None
    obs = {"imports": [m for m in _audit["imports"]], "audit_other": list(_audit["other"]),
           "new_modules": sorted(set(sys.modules) - before), "calls": list(fx.reg.CALLS), "module_bodies_run": list(fx.reg.IMPORTS),
           "raised": load_fail[0] if load_fail else escaped, "escaped": escaped, "left_registered": left_registered,
           "delivered_failure": False, "obj": MISSING, "caught": None}
    if escaped is None and res._is_ready:
        if load_fail:
            obs["delivered_failure"] = bool(res._is_exc) and res._obj is load_fail[0]
            obs["delivered_obj"] = res._obj
        else:
            obs["obj"] = res._obj
            obs["is_exc"] = res._is_exc
            try:
                res.value
            except BaseException as e:       # what the requester's code actually sees
                obs["caught"] = e
    return obs


def check_delivery(ctx, case, descr, obs):
    """Connection._dispatch on an exception message whose payload cannot be rebuilt: on a tree with _dispatch_response the failure
    is the request's exception and nothing escapes (EOFError excepted); on a tree that unboxes inline it escapes _dispatch"""
    if obs["raised"] is None:
        return
    e = obs["raised"]
    ctx.model_traces += 1
    if isinstance(e, EOFError):
        return
    # a non-EOF failure of the loader must never escape _dispatch, whatever the tree says about itself
    if obs["escaped"] is not None or not obs["delivered_failure"] or obs["left_registered"]:
        ctx.violation("rebuild-failure-not-delivered-to-request", case,
                      observed={"escaped": short(obs["escaped"]), "delivered": short(obs.get("delivered_obj", None)), "callback_left": obs["left_registered"]},
                      expected="the request's callback receives %s as its exception; nothing escapes _dispatch" % type(e).__name__,
                      what="a response that cannot be rebuilt must fail the request it answers [" + descr + "]")
    D = gen_facts().get("dispatch_delivers_rebuild_failure", "false") == "true"
    if D != (obs["escaped"] is None):
        ctx.tie_broken("correspondence:dispatch-delivery", "%s: generated fact delivers=%s; impl escaped=%s delivered=%s"
                       % (descr, D, short(obs["escaped"]), obs["delivered_failure"]))


def base_of(obj):
    """the class a rebuilt exception stands for: vinegar wraps it in a one-level subclass"""
    t = type(obj)
    if t in vinegar._exception_classes_cache.values():
        return t.__mro__[1]
    return t


# ------------------------------------------------------------------ oracle (the property's statement on the implementation)

def data_attrs(e):
    out = {}
    for n in dir(e):
        if n.startswith("_") or n in ("args", "with_traceback"):
            continue
        try:
            v = getattr(e, n)
        except AttributeError:
            continue
        if callable(v):
            continue
        out[n] = v
    return out


def oracle_genuine(ctx, case, exc, expect, sf, rf, obs, tbtext, descr):
    """exc: the instance raised on the peer; expect: ("cls", class object) | ("ident", (module, name)) the real class the
    requester must see, or ("generic", "mod.cls") when a stand-in named after the original is expected"""
    def bad(sig, what, observed, expected):
        ctx.violation(sig, case, observed=observed, expected=expected, what=what + " [" + descr + "]")
    cname = type(exc).__name__
    grp = "builtin" if case["kind"] == "builtin" else "custom"
    needs_args = grp == "builtin" and not new_ok(type(exc))
    if obs["raised"] is not None:
        e = obs["raised"]
        if needs_args and isinstance(e, TypeError):
            bad("builtin-not-rebuilt:__new__-needs-arguments", "the requester's serve() raises TypeError instead of delivering the built-in exception "
                "(vinegar.load calls cls.__new__(cls) without arguments)", "%s: %s" % (type(e).__name__, e), cname)
        else:
            bad("%s-load-raises:%s" % (grp, C.exc_enum(e)), "vinegar.load raised instead of delivering the remote exception", "%s: %s" % (type(e).__name__, e), cname)
        return
    if needs_args and isinstance(obs["caught"], vinegar.GenericException):
        bad("builtin-not-rebuilt:__new__-needs-arguments", "a built-in exception class whose __new__ requires arguments arrives as a generic stand-in, not as the class",
            type(obs["caught"]).__name__, cname)
        return
    got = obs["caught"]
    if got is None:
        bad(grp + "-nothing-raised", "requester got no exception", short(obs["obj"]), cname)
        return
    want_args = tuple(norm_py(a) for a in exc.args)
    # --- class
    if expect[0] == "cls":
        b = base_of(got)
        if not (b is expect[1] and isinstance(got, expect[1])):
            bad("%s-class-mismatch" % grp, "requester caught a different class", "%s.%s" % (b.__module__, b.__name__), "%s.%s" % (expect[1].__module__, expect[1].__name__))
            return
    elif expect[0] == "ident":
        b = base_of(got)
        if (b.__module__, b.__name__) != tuple(expect[1]) or issubclass(b, vinegar.GenericException):
            bad("%s-class-mismatch" % grp, "requester caught a different class", "%s.%s" % (b.__module__, b.__name__), "%s.%s" % tuple(expect[1]))
            return
    else:
        if not (isinstance(got, vinegar.GenericException) and type(got).__name__ == expect[1]):
            bad("custom-not-generic", "the configuration does not allow the real class: expected a generic stand-in named after the original",
                "%s.%s" % (base_of(got).__module__, base_of(got).__name__), expect[1])
            return
    # --- args
    if canon(got.args) != canon(want_args):
        if type(exc) is StopIteration and got.args == () and exc.args != ():
            bad("stopiteration-args-lost", "StopIteration raised with arguments arrives with args == () (fast path)", short(got.args), short(want_args))
        else:
            bad("%s-args-mismatch" % grp, "arguments differ from the normalised originals", short(got.args), short(want_args))
        return
    fast = type(exc) is StopIteration and not hasattr(got, "_remote_tb") and got.args == ()
    # --- immutable public data attributes
    if not fast:
        for n, v in sorted(data_attrs(exc).items()):
            if not plain_sx(to_sx(v)):
                continue
            g = getattr(got, n, MISSING)
            if g is MISSING or canon(g) != canon(v):
                bad("%s-attr-mismatch" % grp, "immutable public data attribute %r differs" % n, short(g) if g is not MISSING else "<missing>", short(v))
                return
        # --- "ordinary except-clauses work": methods stay methods, nothing but the original's public names appears, str() works
        if isinstance(got, BaseException):
            for n in sorted(dir(exc)):
                if n.startswith("_"):
                    continue
                try:
                    v = getattr(exc, n)
                except AttributeError:
                    continue
                if callable(v) and callable(getattr(type(got), n, None)) and not callable(getattr(got, n, None)):
                    bad("method-replaced-by-text", "public method %r of the original is no longer callable on the rebuilt exception (its repr was sent as a data "
                        "attribute and set on the instance)" % n, __import__("re").sub(r"0x[0-9a-f]+", "0x..", short(getattr(got, n, None), 80)), "a callable")
                    break
            extra = sorted(k for k in vars(got) if not k.startswith("_") and k not in dir(exc))
            if extra:
                bad("new-public-attribute", "the rebuilt exception has public attributes the original does not have", extra, [])
                return
            rtb0 = getattr(got, "_remote_tb", None)
            if isinstance(rtb0, str):
                b0 = base_of(got)
                try:
                    head = b0.__str__(got)
                except Exception:
                    head = "<Unprintable exception>"
                want = head + "\n\n========= Remote Traceback (%d) =========\n" % (rtb0.count("\n\n========= Remote Traceback ") + 1) + rtb0
                try:
                    text = str(got)
                except Exception as ex:
                    text = "<str() raised %s: %s>" % (type(ex).__name__, ex)
                if text != want:
                    bad("str-of-rebuilt-exception", "str() of the rebuilt exception is not the class's own text followed by the remote traceback banner and text",
                        short(text, 160), short(want, 160))
                    return
        # --- disclosure
        rtb = getattr(got, "_remote_tb", MISSING)
        rver = getattr(got, "_remote_version", MISSING)
        if sf[0]:
            if not (isinstance(rtb, str) and rtb == tbtext):
                bad("traceback-not-delivered", "sender allows the traceback but the requester did not get its text", short(rtb), short(tbtext))
                return
        else:
            if rtb != DENIED_TB:
                bad("traceback-disclosed", "sender denies the traceback but something else than the denied marker arrived", short(rtb), DENIED_TB)
                return
        if (rver == VERSION) != bool(sf[1]) or (not sf[1] and rver != DENIED_VER):
            bad("version-disclosure-mismatch", "version text must arrive iff the sender allows it", short(rver), VERSION if sf[1] else DENIED_VER)
            return
        if not sf[0] or not sf[1]:
            leak = [k for k, v in vars(got).items() if isinstance(v, str) and ((not sf[0] and "Traceback (most recent call last)" in v) or
                                                                              (not sf[1] and v == VERSION and k == "_remote_version"))]
            if leak:
                bad("denied-text-leaked", "a denied text reached the requester in attribute %s" % leak[0], leak, "nothing")
                return


def oracle_effects(ctx, case, rf, obs, allowed_import, allowed_new, descr, hooked=False, alt=None):
    """safety clause: imports only when allowed, never a constructor, __new__ only of allowed classes.
    alt = (imports, news): a second acceptable outcome (a module hook consulted with both switches on).
    returns False when the failure is the module-hook import (the same root cause would also trip the class oracle)"""
    def bad(sig, what, observed, expected):
        ctx.violation(sig, case, observed=observed, expected=expected, what=what + " [" + descr + "]")
    imps = [m for m in obs["imports"]]
    news = [c[1] for c in obs["calls"] if c[0] == "new"]
    if alt is not None and imps == alt[0] and news == alt[1]:
        allowed_import, allowed_new = alt
    if imps != allowed_import or (obs["new_modules"] and not allowed_import) or (obs["module_bodies_run"] and not allowed_import):
        seen = {"audit": imps, "sys.modules+": obs["new_modules"], "bodies": obs["module_bodies_run"]}
        if not rf[0] and hooked and not allowed_import:
            bad("import-without-switch:module-getattr-hook", "import_custom_exceptions is off, yet reading the class out of an already imported module ran "
                "its module-level __getattr__ (PEP 562), which imported modules", seen, [])
            return False
        bad("unexpected-import" if not rf[0] else "import-mismatch", "the receiver imported (or tried to import) modules it must not", seen, allowed_import)
    if obs["audit_other"] and not (allowed_import and set(obs["audit_other"]) <= {"compile", "exec"}):
        bad("dangerous-audit-event:" + obs["audit_other"][0], "exec/compile/process event while loading an exception", obs["audit_other"], [])
    inits = [c for c in obs["calls"] if c[0] in ("init", "call")]
    if inits:
        bad("constructor-run", "a constructor / callable of a module was run while rebuilding the exception", obs["calls"], [])
    if news != allowed_new:
        bad("unexpected-__new__", "custom __new__ calls differ from what the configuration allows", news, allowed_new)
    return True


# ------------------------------------------------------------------ correspondence with the model

def exc_sx(exc, typ):
    d = []
    for n in dir(exc):
        try:
            v = getattr(exc, n)
        except AttributeError:
            d.append([cps(n), 0])
            continue
        d.append([cps(n), 1, obj_sx(v)])
    return [clsid_sx(typ), [obj_sx(a) for a in exc.args], d]


def obj_sx(v):
    sx = to_sx(v)
    return [sx, [] if plain_sx(sx) else cps(repr(v)), callable(v)]


def py_of_rcls(fx, rc):
    """model class -> (python base class | None, generic name | None)"""
    if rc[0] == 0:
        cid = rc[1]
        if cid[0] == 0:
            return getattr(builtins, uncps(cid[1])), None
        mn = uncps(cid[1])
        mod = sys.modules.get(mn) or (importlib.import_module(mn) if mn in (LAZY, LAZY2) else None)
        return getattr(mod, uncps(cid[2]), None), None
    return vinegar.GenericException, "%s.%s" % (from_sx(rc[1]), from_sx(rc[2]))


def interpret(fx, trace):
    """execute the model's instructions on a fresh CPython object of the same base class.
    returns ('raise', enum) | ('exc', base, generic_name, args, attrs_dict)"""
    _, rc, args_sx, sets, status = trace
    base, gname = py_of_rcls(fx, rc)
    shadow_cls = type("Shadow", (base,), {})
    obj = shadow_cls.__new__(shadow_cls)
    try:
        obj.args = from_sx(args_sx)
        for n, v in sets:
            try:
                setattr(obj, from_sx(n), from_sx(v))
            except AttributeError:
                pass
    except Exception as e:
        return ("raise", C.exc_enum(e))
    if status[0] == b"fail":
        return ("raise", status[1].decode())
    tb = from_sx(status[1])
    if status[2]:
        rv = getattr(obj, "_remote_version", DENIED_VER)
        tb = tb + '\nWARNING: Remote is on RPyC {} and local is on RPyC {}.\n\n'.format(rv, VERSION)
    obj._remote_tb = tb
    return ("exc", base, gname, obj.args, dict(vars(obj)), obj)


def effects_py(eff):
    imports = [uncps(e[1]) for e in eff if e[0] == 0]
    news = [e[1] for e in eff if e[0] == 1]
    inits = [e[1] for e in eff if e[0] == 2]
    return imports, news, inits


def compare_load(ctx, fx, descr, mres, obs, set_names):
    eff, res = mres
    tag = res[0].decode()
    if tag == "unmodelled":
        ctx.count("load:unmodelled")
        return
    ctx.model_traces += 1
    imports, news, inits = effects_py(eff)
    if imports != obs["imports"]:
        ctx.tie_broken("correspondence:load-imports", "%s: model %r impl %r" % (descr, imports, obs["imports"]))
    if inits:
        ctx.tie_broken("correspondence:load-init", "%s: model logs a constructor call" % descr)
    # canaries: __new__ of harness classes
    m_new = []
    for rc in news:
        if rc[0] == 0 and rc[1][0] == 1 and uncps(rc[1][1]) in CUSTOM_MODS and uncps(rc[1][2]) in ("Foo", "Base"):
            m_new.append(uncps(rc[1][2]))
    i_new = [c[1] for c in obs["calls"] if c[0] == "new"]
    if m_new != i_new or [c for c in obs["calls"] if c[0] != "new"]:
        ctx.tie_broken("correspondence:load-canaries", "%s: model new %r impl calls %r" % (descr, m_new, obs["calls"]))
    impl_raise = C.exc_enum(obs["raised"]) if obs["raised"] is not None else None
    if tag == "exc":
        if impl_raise != res[1].decode():
            ctx.tie_broken("correspondence:load-outcome", "%s: model raises %s impl %s" % (descr, res[1].decode(), impl_raise or short(obs["obj"])))
        return
    if tag != "ok":
        ctx.tie_broken("correspondence:load-outcome", "%s: model %s" % (descr, tag))
        return
    r = res[1]
    kind = r[0].decode()
    obj = obs["obj"]
    if kind == "stop":
        if obj is not StopIteration:
            ctx.tie_broken("correspondence:load-outcome", "%s: model StopIteration class, impl %s" % (descr, impl_raise or short(obj)))
        return
    if kind == "str":
        if not (type(obj) is str and obj == uncps(r[1])):
            ctx.tie_broken("correspondence:load-outcome", "%s: model str, impl %s" % (descr, impl_raise or short(obj)))
        return
    exp = interpret(fx, r)
    if exp[0] == "raise":
        if impl_raise != exp[1]:
            ctx.tie_broken("correspondence:load-outcome", "%s: model/CPython raises %s impl %s" % (descr, exp[1], impl_raise or short(obj)))
        return
    if impl_raise is not None or not isinstance(obj, BaseException):
        ctx.tie_broken("correspondence:load-outcome", "%s: model builds %s, impl %s" % (descr, exp[1].__name__, impl_raise or short(obj)))
        return
    _, base, gname, xargs, xdict, shadow = exp
    b = base_of(obj)
    same = b is base or (b.__module__ in (LAZY, LAZY2) and (b.__module__, b.__name__) == (base.__module__, base.__name__))
    if not same and not (gname is not None and issubclass(b, vinegar.GenericException) and b.__name__ == gname):
        ctx.tie_broken("correspondence:load-class", "%s: model %s/%s impl %s.%s" % (descr, base.__name__, gname, b.__module__, b.__name__))
        return
    if gname is not None and type(obj).__name__ != gname:
        ctx.tie_broken("correspondence:load-class", "%s: generic name model %r impl %r" % (descr, gname, type(obj).__name__))
    if canon(obj.args) != canon(xargs):
        ctx.tie_broken("correspondence:load-args", "%s: model %s impl %s" % (descr, short(xargs), short(obj.args)))
    di = {k: canon(v) for k, v in vars(obj).items()}
    dm = {k: canon(v) for k, v in xdict.items()}
    if di != dm:
        diff = sorted(k for k in set(di) | set(dm) if di.get(k) != dm.get(k))
        ctx.tie_broken("correspondence:load-attrs", "%s: differing attributes %r model %s impl %s" % (descr, diff[:4], short([xdict.get(k) for k in diff[:4]]),
                                                                                                 short([vars(obj).get(k) for k in diff[:4]])))
    for n in set_names:
        if isinstance(n, str) and not n.startswith("__"):
            a, bb = getattr(obj, n, MISSING), getattr(shadow, n, MISSING)
            if (a is MISSING) != (bb is MISSING) or (a is not MISSING and canon(a) != canon(bb)):
                ctx.tie_broken("correspondence:load-attrs", "%s: attribute %r model %s impl %s" % (descr, n, short(bb), short(a)))


_facts = {}


def gen_facts():
    """the generated facts of the tree under test, straight from the translator (the file coq/gen/Gen_vinegar.v may be
    regenerated by a concurrent run against another tree between our build step and this point)"""
    if not _facts:
        try:
            from tools.pygen import vinegar as TV
            for it in TV.translate(C.REPO):
                if it.kind == "typed":
                    _facts[it.name] = it.coq_term
        except Exception:
            pass
        _facts.setdefault("load_lookup_mode", "LkGetattr")
        _facts.setdefault("fast_path_noargs_only", "false")
        _facts.setdefault("dump_skips_callables", "false")
    return _facts


def gen_mode():
    """the lookup mode of the current tree (0 getattr, 1 __dict__ unless import_custom, 2 __dict__)"""
    return {"LkGetattr": 0, "LkDictUnlessImport": 1, "LkDict": 2}.get(gen_facts()["load_lookup_mode"], 0)


def gen_param():
    return gen_facts()["fast_path_noargs_only"] == "true"


def make_builtin_case(case):
    r = random.Random(case["seed"])
    cls = getattr(builtins, case["cls"])
    exc = build_exception(r, cls, case["variant"])
    return exc


class BadRepr(object):
    """an argument / attribute value whose repr raises: vinegar.dump cannot normalise it, _send_exc must report that failure instead"""

    def __repr__(self):
        raise RuntimeError("no repr")


def deep_tuple(n):
    t = ()
    for _ in range(n):
        t = (t,)
    return t


FALLBACK_HOW = {"arg-repr-raises": RuntimeError, "attr-repr-raises": RuntimeError, "arg-too-deep": RecursionError}


def run_fallback_case(ctx, fx, case):
    """SCOPE: the property's normalisation needs repr() of a non-immutable item to be total and brine.dumpable() to terminate; for an
    exception outside that, the serving side must still answer the request with ONE exception frame, carrying the failure it met
    (Connection._send_exc fallback) -- the requester then catches that failure's class"""
    cls, how, sf, rf = getattr(builtins, case["cls"]), case["how"], case["sf"], case["rf"]
    try:
        if how == "arg-repr-raises":
            exc = cls("x", BadRepr())
        elif how == "attr-repr-raises":
            exc = cls("x")
            exc.blob = BadRepr()
        else:
            exc = cls(deep_tuple(3000))
    except Exception:
        ctx.count("skipped:unconstructible")
        return
    descr = "fallback %s(%s) sf=%s rf=%s" % (cls.__name__, how, sf, rf)
    ctx.count("fallback:" + how)
    ctx.case(("f", cls.__name__, how, tuple(sf), tuple(rf)), nontrivial=True, sample={"raise": descr})
    want = FALLBACK_HOW[how]
    st, wire, _ = serve_exception(fx, exc, sf)
    if st != "sent":
        ctx.violation("dump-failure-fallback-fails:" + (C.exc_enum(wire) if isinstance(wire, BaseException) else str(st)), case,
                      observed="%s %s" % (st, short(wire, 160)), expected="one MSG_EXCEPTION frame carrying the %s met while dumping" % want.__name__,
                      what="an exception whose payload cannot be dumped must still be answered (with the dump failure) [" + descr + "]")
        return
    obs = receive(fx, wire, rf)
    got = obs["caught"]
    if obs["raised"] is not None or got is None or base_of(got) is not want:
        ctx.violation("dump-failure-not-reported", case, observed=short(obs["raised"] if obs["raised"] is not None else got, 160),
                      expected="requester catches " + want.__name__, what="the failure met while dumping the exception did not arrive as itself [" + descr + "]")
    oracle_effects(ctx, case, rf, obs, [], [], descr)


def twin(modname, clsname, base=Exception):
    """a sender-side class with the given identity (the peer has its own copy of the module)"""
    return type(clsname, (base,), {"__module__": modname})


def make_custom_case(fx, case):
    r = random.Random(case["seed"])
    mod, cn = case["mod"], case["cls"]
    if mod == LOADED and cn in ("Foo", "NeedsArgs", "Sub", "Base") and case.get("real", True):
        cls = getattr(fx.loaded, cn)
    else:
        cls = twin(mod, cn, BaseException if cn == "Base" else Exception)
    a = (3, 4) if cn == "NeedsArgs" else gen_args(r, case["variant"])
    try:
        exc = cls(*a)
    except Exception:
        exc = cls()
    k = r.random()
    if k < 0.5:
        exc.detail = r.choice(IMM)
    if 0.3 < k < 0.7:
        exc.blob = r.choice(MUT)()
    return exc


def run_cases(ctx, fx, cases, model):
    """cases: list of dicts (JSON-serialisable). phases: sender half for all, model 'serve' batch, requester half, model 'load' batch."""
    P = gen_param()
    SKIPC = gen_facts()["dump_skips_callables"] == "true"
    MODE = gen_mode()
    stage = []
    for case in cases:
        fx.unload_lazy()
        kind = case["kind"]
        if kind == "fallback":
            run_fallback_case(ctx, fx, case)
            continue
        if kind == "hostile":
            payload = from_sx(C.sx_loads(case["payload_sx"]))
            try:
                wire = brine.dump((consts.MSG_EXCEPTION, 77, payload))
            except Exception as e:
                ctx.count("skipped:hostile-unencodable:" + type(e).__name__)
                ctx.coverage_extra.setdefault("unencodable", []).append(short(payload, 100))
                continue
            stage.append((case, None, None, None, wire, None))
            continue
        exc = make_builtin_case(case) if kind == "builtin" else make_custom_case(fx, case)
        if exc is None:
            ctx.count("skipped:unconstructible")
            continue
        sf = case["sf"]
        sx_in = ["serve", [P, SKIPC], list(sf), cps(VERSION), None, exc_sx(exc, type(exc))]
        st, wire, tbtext = serve_exception(fx, exc, sf)
        if st == "sender-error":
            # the serving side failed to report the exception at all: that is the property's first clause failing, not a skipped case
            ctx.count("sender-error:" + type(wire).__name__)
            ctx.case(("sender-error", type(exc).__name__, canon(exc.args), tuple(sf)), nontrivial=True)
            ctx.violation("sender-failed-to-report:" + C.exc_enum(wire), case, observed="%s: %s" % (type(wire).__name__, short(wire, 160)),
                          expected="one MSG_EXCEPTION frame carrying " + short(exc, 80),
                          what="_dispatch_request raised / sent nothing instead of reporting the exception raised by the handler [%s %s sf=%s]" % (kind, short(exc, 100), sf))
            continue
        sx_in[4] = cps(tbtext or "")
        stage.append((case, exc, sx_in, st, wire, tbtext))
    serve_out = model.batch([s[2] for s in stage if s[2] is not None]) if model else None
    si = 0
    loads, todo = [], []
    for case, exc, sx_in, st, wire, tbtext in stage:
        fx.unload_lazy()
        kind = case["kind"]
        rf = case["rf"]
        if kind == "hostile":
            payload2 = brine.load(wire)[2]
            descr = "hostile %s rf=%s" % (short(payload2, 120), rf)
        else:
            sf = case["sf"]
            descr = "%s %s sf=%s rf=%s" % (kind, short(exc, 100), sf, rf)
            m = serve_out[si] if serve_out is not None else None
            si += 1
            routed_expected = (type(exc) is SystemExit and sf[2]) or (type(exc) is KeyboardInterrupt and sf[3])
            if (st == "routed") != bool(routed_expected):
                ctx.violation("local-routing-mismatch", case, observed=st, expected="routed" if routed_expected else "sent",
                              what="only SystemExit/KeyboardInterrupt under their propagate switches are re-raised locally [" + descr + "]")
            if m is not None:
                ctx.model_traces += 1
                if (m[0] == b"routed") != (st == "routed"):
                    ctx.tie_broken("correspondence:routing", "%s: model %s impl %s" % (descr, m[0], st))
            if st == "routed":
                ctx.case(("routed", type(exc).__name__, tuple(sf)), nontrivial=True)
                ctx.count("routed-locally")
                continue
            msg, seq, payload2 = brine.load(wire)
            if msg != consts.MSG_EXCEPTION or seq != 77:
                ctx.violation("not-sent-as-exception", case, observed=(msg, seq), expected=(consts.MSG_EXCEPTION, 77), what="the failure was not reported as MSG_EXCEPTION [" + descr + "]")
            if m is not None and m[0] == b"sent":
                if canon(from_sx(m[1])) != canon(payload2):
                    ctx.tie_broken("correspondence:dump", "%s: model %s impl %s" % (descr, short(from_sx(m[1]), 300), short(payload2, 300)))
        # requester half
        key = payload2[0] if type(payload2) is tuple and len(payload2) == 4 else None
        modname, clsname = (None, None)
        if type(key) is tuple and len(key) == 2:
            modname, clsname = key
        elif type(key) is str and len(key) == 2:
            modname, clsname = key[0], key[1]
        env = env_sx(fx, modname, clsname)
        was_loaded = isinstance(modname, str) and modname in sys.modules
        obs = receive(fx, wire, rf)
        check_delivery(ctx, case, descr, obs)
        loads.append(["load", MODE, list(rf), env, to_sx(payload2)])
        todo.append((case, exc, descr, obs, tbtext, payload2, modname, clsname, was_loaded))
        fx.unload_lazy()
    load_out = model.batch(loads) if model and loads else None
    for i, (case, exc, descr, obs, tbtext, payload2, modname, clsname, was_loaded) in enumerate(todo):
        kind, rf = case["kind"], case["rf"]
        str_mod = isinstance(modname, str)
        allowed_import = [modname] if (rf[0] and str_mod and not was_loaded) else []
        if kind == "builtin":
            ctx.count("builtin:" + case["variant"])
            nontriv = bool(exc.args) or bool(data_attrs(exc))
            ctx.case(("b", type(exc).__name__, canon(exc.args), tuple(sorted(data_attrs(exc))), tuple(case["sf"]), tuple(rf)),
                     nontrivial=nontriv, sample={"raise": short(exc, 80), "sender": case["sf"], "receiver": rf, "caught": short(obs["caught"], 80)})
            oracle_genuine(ctx, case, exc, ("cls", type(exc)), case["sf"], rf, obs, tbtext, descr)
            oracle_effects(ctx, case, rf, obs, [], [], descr)
        elif kind == "custom":
            ctx.count("custom:%s:%s" % ({LOADED: "imported", LAZY: "importable", LAZY2: "importable", NOSUCH: "unknown", HOOK: "hooked"}.get(modname, "other"), clsname))
            ctx.case(("c", modname, clsname, canon(exc.args), tuple(case["sf"]), tuple(rf)), nontrivial=True,
                     sample={"raise": short(exc, 80), "module": modname, "receiver": rf, "caught": short(type(obs["caught"]), 80)})
            present = was_loaded or (rf[0] and modname in (LAZY, LAZY2))
            alt = None
            if modname in (LOADED, LAZY, LAZY2):
                k = MOD_NS.get(clsname, "")
                ident = (modname, clsname) if k == "exc" else (("builtins", k[8:]) if k.startswith("builtin:") else None)
            else:
                v = getattr(sys.modules.get(modname), "__dict__", {}).get(clsname)
                ident = (v.__module__, v.__name__) if isinstance(v, type) and issubclass(v, BaseException) else None
            real = bool(rf[1] and present and ident is not None)
            if modname == HOOK and clsname in HOOK_LAZY and rf[0] and rf[1]:
                # served by the module's __getattr__: with BOTH switches on the hook may be consulted (its imports happen and the class
                # it returns may be used) -- or not; with either switch off the property demands a stand-in and no import
                himps, hfound = HOOK_LAZY[clsname]
                alt = (himps, ["Foo"] if hfound else [])
                if hfound and obs["imports"] == himps:
                    real, ident = True, hfound
            if real and modname == LOADED and ident[0] == LOADED:
                expect = ("cls", getattr(fx.loaded, clsname))
            elif real:
                expect = ("ident", ident)
            else:
                expect = ("generic", "%s.%s" % (modname, clsname))
            allowed_new = [clsname] if (real and clsname in ("Foo", "Base") and modname in CUSTOM_MODS) else []
            ok_eff = oracle_effects(ctx, case, rf, obs, allowed_import, allowed_new, descr, hooked=has_module_hook(modname), alt=alt)
            if modname != "builtins" and ok_eff:   # a class that calls itself builtins.X is indistinguishable from X on the wire: correspondence only
                oracle_genuine(ctx, case, exc, expect, case["sf"], rf, obs, tbtext, descr)
            fx.unload_lazy()
        else:
            o = obs["obj"]
            ctx.count("hostile:" + ("raise:" + C.exc_enum(obs["raised"]) if obs["raised"] is not None else
                                    "ok:" + ("StopIteration" if o is StopIteration else "text" if type(o) is str else
                                             "generic" if isinstance(o, vinegar.GenericException) else "real-class")))
            ctx.case(("h", canon(payload2), tuple(rf)), nontrivial=type(payload2) in (tuple, frozenset, str, bytes) and len(payload2) > 0,
                     sample={"payload": short(payload2, 100), "receiver": rf, "outcome": short(obs["raised"] if obs["raised"] is not None else obs["obj"], 80)})
            # safety clause: under the default switches nothing is imported, no constructor runs, only built-in or generic classes are instantiated
            allowed_new = []
            if rf[1] and str_mod and modname in CUSTOM_MODS and clsname in ("Foo", "Base") and (was_loaded or (rf[0] and modname in (LAZY, LAZY2))):
                allowed_new = [clsname]
            alt = None
            if modname == HOOK and isinstance(clsname, str) and clsname in HOOK_LAZY and rf[0] and rf[1]:
                alt = (HOOK_LAZY[clsname][0], ["Foo"] if HOOK_LAZY[clsname][1] else [])
            oracle_effects(ctx, case, rf, obs, allowed_import, allowed_new, descr, hooked=has_module_hook(modname), alt=alt)
            obj = obs["obj"]
            if obs["raised"] is None:
                ok = obj is StopIteration or type(obj) is str
                if isinstance(obj, BaseException):
                    b = base_of(obj)
                    ok = (b.__module__ == "builtins" and getattr(builtins, b.__name__, None) is b) or issubclass(b, vinegar.GenericException)
                    if rf[1]:
                        ok = True
                if not ok:
                    ctx.violation("hostile-payload-built-foreign-object", case, observed=short(obj), expected="StopIteration, text, a built-in exception or a generic stand-in",
                                  what="a crafted payload made the receiver build something else [" + descr + "]")
        if load_out is not None:
            set_names = []
            if type(payload2) is tuple and len(payload2) == 4 and type(payload2[2]) is tuple:
                set_names = [it[0] for it in payload2[2] if type(it) is tuple and len(it) == 2]
            compare_load(ctx, fx, descr, load_out[i], obs, set_names)


# ------------------------------------------------------------------ entry points

SF_ALL = [(a, b, c, d) for a in (1, 0) for b in (1, 0) for c, d in ((0, 1), (1, 0), (0, 0), (1, 1))]
RF_ALL = [(a, b, c) for a in (0, 1) for b in (0, 1) for c in (0, 1)]
VARIANTS = ["none", "imm", "mut", "nested", "mixed", "special"]


def generate(ctx):
    r = ctx.rng
    cases = []
    per_cls = 12 if ctx.quick else 160
    for name in builtin_exception_names():
        for j in range(per_cls):
            variant = VARIANTS[j % len(VARIANTS)] if j < 2 * len(VARIANTS) else r.choice(VARIANTS)
            sf = SF_ALL[(j * 5 + len(name)) % len(SF_ALL)] if j < 8 else r.choice(SF_ALL)
            if name not in ("SystemExit", "KeyboardInterrupt") and r.random() < 0.7:
                sf = (sf[0], sf[1], 0, 1)
            rf = RF_ALL[(j + len(name)) % len(RF_ALL)] if j < 8 else r.choice(RF_ALL)
            cases.append({"kind": "builtin", "cls": name, "variant": variant, "seed": r.getrandbits(48), "sf": list(sf), "rf": list(rf)})
    # the known-interesting points, always present
    for name, variant in (("StopIteration", "special"), ("StopIteration", "none"), ("ExceptionGroup", "special"), ("OSError", "special"), ("IOError", "special"),
                          ("SystemExit", "special"), ("KeyboardInterrupt", "none"), ("UnicodeDecodeError", "special")):
        for sf in ((1, 1, 0, 1), (0, 0, 0, 0), (1, 0, 1, 1)):
            cases.append({"kind": "builtin", "cls": name, "variant": variant, "seed": r.getrandbits(48), "sf": list(sf), "rf": [0, 0, 0]})
    # exceptions the sender cannot normalise (repr raises / nesting too deep): the _send_exc fallback
    names = builtin_exception_names()
    for how in sorted(FALLBACK_HOW):
        for name in ["KeyError", "ValueError", "OSError", "StopIteration"] + [r.choice(names) for _ in range(4 if ctx.quick else 40)]:
            sf = r.choice(SF_ALL)
            cases.append({"kind": "fallback", "cls": name, "how": how, "sf": [sf[0], sf[1], 0, 0], "rf": list(r.choice(RF_ALL))})
    n_custom = 6 if ctx.quick else 60
    for mod in (LOADED, LAZY, LAZY2, NOSUCH, "harness.C09", "builtins", HOOK):
        # "ValueError"/"OSError" outside builtins: a custom class that merely shares its name with a built-in one
        names = ["Foo", "NeedsArgs", "Sub", "Base", "NotExc", "Plain", "helper", "VE", "Missing", "ValueError", "OSError"]
        if mod == "builtins":
            names = ["ValueError", "int", "Nope"]
        elif mod == HOOK:      # a module whose __getattr__ imports on demand: names it serves lazily, a real attribute, an absent one
            names = ["LazyExc", "LazyOther", "LazyNone", "HookExc", "plain_value", "Missing"]
        for cn in names:
            if mod == "harness.C09" and cn not in ("Foo", "Missing", "MyInt", "ValueError"):
                continue
            for j in range(n_custom):
                rf = RF_ALL[(j * 3 + len(cn)) % len(RF_ALL)] if j < 8 else r.choice(RF_ALL)
                sf = r.choice(SF_ALL[:8])
                cases.append({"kind": "custom", "mod": mod, "cls": cn, "variant": r.choice(VARIANTS[:5]), "seed": r.getrandbits(48),
                              "sf": [sf[0], sf[1], 0, 1], "rf": list(rf), "real": r.random() < 0.7})
    n_host = 900 if ctx.quick else 20000
    for j in range(n_host):
        p = gen_hostile(r)
        k = r.random()
        rf = (0, 0, 0) if k < 0.6 else ((0, 1, 0) if k < 0.8 else r.choice(RF_ALL))
        # never let a hostile module name reach a real import of something outside the fixture
        if rf[0]:
            key = p[0] if type(p) is tuple and len(p) > 0 else None
            mn = key[0] if type(key) in (tuple, str) and len(key) > 0 else None
            # ("" is rejected by __import__ before any search: the model logs an attempt, CPython raises no audit event)
            if not (isinstance(mn, str) and (mn in sys.modules or mn in CUSTOM_MODS)):
                rf = (0, rf[1], rf[2])
        try:
            sxs = C.sx_dumps(to_sx(p))
        except Exception:
            continue
        cases.append({"kind": "hostile", "payload_sx": sxs, "rf": list(rf)})
    return cases


class Foo(Exception):
    """a custom exception that lives in an already imported module (this one)"""
    pass


def run(ctx):
    model = C.Model("vinegar")
    model = model if model.available() else None
    ctx.coverage_extra["rule"] = (
        "built-in: every exception class of the running interpreter's builtins (aliases included) x argument variants (none / immutable / mutable / nested / "
        "mixed / class-specific constructors incl. OSError errno mapping, Unicode*Error, SyntaxError, ExceptionGroup, keyword-only attributes) x extra instance "
        "attributes x the sender switches (traceback, version, the two propagate switches) x the receiver switches; custom: classes of an imported module, of two "
        "importable-but-not-imported modules in a temp dir, of an unknown module, non-exception attributes, re-exported built-ins, with __new__/__init__ canaries; "
        "hostile: record-shaped payloads with hostile module/class names, argument/attribute/traceback fields of wrong type or arity, special attribute names, "
        "odd version values, plus arbitrary values; non-trivial = has arguments or data attributes (genuine) / non-empty container or text (hostile); "
        "distinct by class + normalised args + attribute names + switches")
    fx = Fixture()
    try:
        cases = generate(ctx)
        B = 600
        for i in range(0, len(cases), B):
            run_cases(ctx, fx, cases[i:i + B], model)
    finally:
        fx.close()


def replay(ctx, rep):
    case = rep.get("case")
    if not case:
        return
    model = C.Model("vinegar")
    model = model if model.available() else None
    fx = Fixture()
    try:
        run_cases(ctx, fx, [case], model)
    finally:
        fx.close()
