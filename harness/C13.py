"""C13 — threads sharing a connection never cross, duplicate or lose replies (and C14's lateness measurement).
Real Connection.serve / _dispatch / _seq_request_callback / AsyncResult.wait / __call__ / _async_request and the
BgServingThread loop run on real threads under a deterministic scheduler with virtual Lock / Condition / poll / clock;
the peer is a scripted thread answering in a chosen order.  Every run's abstract event trace is replayed in model/Serve.v."""
import sys, itertools
from harness import common as C
from harness.vsched import VSched, VLock, VCond, VTime, Deadlock

META = {
    "level": "proof",
    "level_text": "props/C13.v: inductive invariants over a transition system with any number of client and background-serving threads, any scheduler, any answer order "
                  "and nondeterministic timeouts: a single reader of the stream, every frame dispatched at most once, callbacks owned by the request of that number, result "
                  "cells set exactly by their own reply's dispatch, a waiter returns only with its own reply, unique sequence numbers, no lost wake-up (a sleeper always has a "
                  "pending notifier) and progress while a reply is in the stream. 'Every request completes' is proved REFUTED for waiters without a deadline "
                  "(c13_completion_refuted_without_deadline: the F5 window leaves the waiter in poll on an empty stream with its result ready; known finding F5c; the harness runs "
                  "no-deadline scenarios and recognises exactly that shape). SCOPE of the model: waits with or without an expiry (LExpire: the clock passes a request's expiry; the wait loop then gives up at its next test and a reply "
                  "dispatched later is dropped: c13_ready_iff_dispatched speaks of non-late dispatches, c13_late_only_after_expiry, c13_gives_up_only_after_expiry; expiry runs "
                  "with a slow peer are replayed in the model), by-value replies "
                  "dispatched in one step (a reply whose unboxing needs a nested round trip is C15's F48; since 5dce6c8 a reply that cannot be rebuilt fails its own request), "
                  "incoming REPLIES - and incoming REQUESTS of the peer read as messages whose issuer is not looking (proofs/ServeI.v: c13_inbound_dispatch_frame, "
                  "c13_inbound_absent_threads_never_needed: no continuation needs a step of a thread that is outside serve and not looking; the mixed and slow-handler runs are "
                  "replayed in the model with a phantom issuer per peer request, the serving thread staying at S5 while the handler runs); exception replies are run by the harness "
                  "only (each fails exactly its request). Liveness: progress, plus POSSIBILITY from every reachable state (proofs/ServeF.v: c13_no_state_is_a_trap - wherever the reply is and whoever holds the "
                  "receive lock, a continuation of thread steps, timeouts and the peer's answer takes the waiter out of wait(), Returned, or TimedOut only if its expiry "
                  "had already passed; c13_unexpired_request_can_still_complete); a guarantee under every scheduler ('every request completes') is refuted above for "
                  "deadline-free waits and not proved for the others. serve's instruction program and the ordering facts of wait/__call__/_async_request are "
                  "regenerated from the source (fail-closed) and tied by reflexivity; event traces of real threads under a virtual-primitive scheduler are replayed in the extracted model.",
    "level_note": "Trusted: Coq kernel, pygen, extraction+driver, the virtual Lock/Condition/poll/clock (harness/vsched.py) standing for threading and the channel; GIL atomicity of "
                  "dict.pop, dict.__setitem__, next(itertools.count()); one model step abstracts several source lines (issue = seq+register+send).",
    "technique": "Coq inductive invariants over an unbounded-thread transition system + well-founded measure (no reachable state is a trap); generated program tie; trace validation of real threads (virtual scheduler) against the extracted model",
    "gen": ["serve", "stream", "protocol"],
    "shapes": ["serve.*", "stream.Stream.poll", "protocol.Connection.__init__", "protocol.Connection._get_seq_id", "protocol.Connection.serve", "protocol.Connection._dispatch", "protocol.Connection._dispatch_response", "protocol.Connection._seq_request_callback", "protocol.Connection._async_request",
               "protocol.Connection._get_seq_id", "protocol.Connection.sync_request", "protocol.Connection.async_request"],
    "models": ["serve"],
    "model_files": ["Serve"],
    "assumptions": ["threading.Condition semantics: wait releases the mutex atomically; notify_all wakes every waiter", "GIL atomicity of dict.pop / next(count)"],
}

import rpyc.lib, rpyc.core.protocol as P, rpyc.core.async_ as A, rpyc.utils.helpers as H
from rpyc.core import brine, consts
from rpyc.core.service import VoidService


class CallbackBoom(Exception):
    """what a user's AsyncResult callback raises"""


class VChan:
    def __init__(self, S, rec):
        self.S, self.inq, self.out, self.closed, self.rec = S, [], [], False, rec
        self.on_request_read = None   # callable(thread, number): a thread read a REQUEST of the peer's own
        self.eof = False          # the peer has gone: end of stream once the queue is drained

    def poll(self, timeout):
        if self.closed:
            raise EOFError("stream has been closed")
        tl = timeout.timeleft() if hasattr(timeout, "timeleft") else timeout
        r = self.S.block(lambda: bool(self.inq) or self.eof or self.closed, None if tl is None else self.S.now + tl, why="poll")
        if self.closed:
            raise EOFError("stream has been closed")
        if not r:
            self.rec(("timeout", self.S.me()))
        return r

    def recv(self):
        if not self.inq:
            raise EOFError("connection closed by peer")
        d = self.inq.pop(0)
        m = brine.load(d)
        if m[0] == consts.MSG_REQUEST and self.on_request_read is not None:
            self.on_request_read(self.S.me(), m[1])
        self.rec(("step", self.S.me(), "read", m[1]))
        return d

    def send(self, data):
        if self.closed:
            raise EOFError("stream has been closed")
        self.out.append(data)

    def close(self):
        self.closed = True


SLOW_HANDLER = 98      # harness-only handler number: a request of the peer whose handler takes `slow_request` virtual seconds


def scenario(n_clients, with_bg, answer_order, chooser, sync_timeout=2.0, timeouts=None, eof_after=None, peer_requests=0, exc_replies=(), answer_delay=None, events_out=None, raising_callback=(), pollers=(), slow_request=None):
    """returns dict(result per client, events, lateness per client, deadlock, clock advances)"""
    codes = [P.Connection.serve.__code__, P.Connection._dispatch.__code__, P.Connection._seq_request_callback.__code__,
             P.Connection._async_request.__code__, P.Connection._get_seq_id.__code__, P.Connection._send.__code__,
             A.AsyncResult.wait.__code__, A.AsyncResult.__call__.__code__, H.BgServingThread._bg_server.__code__]
    S = VSched(codes)
    events = events_out if events_out is not None else []      # (a scripted chooser may watch the events as they are recorded)
    rec = events.append
    vt = VTime(S)
    old = (rpyc.lib.time, H.time)
    rpyc.lib.time = vt
    H.time = vt
    out = {"res_obj": {}, "results": {}, "late": {}, "dispatch_time": {}, "dispatch_count": {}, "return_time": {}, "seq_of": {}, "errors": {}, "peer_requests": []}
    try:
        ch = VChan(S, rec)
        ch.on_request_read = lambda me, q: out.setdefault("last_request_read", {}).__setitem__(me, q)
        conn = P.Connection(VoidService(), ch, {"sync_request_timeout": sync_timeout})
        conn._recvlock = VLock(S, "recvlock", on=lambda what, arg: rec(("step", S.me(), what, arg)))
        conn._recv_event = VCond(S, on=lambda what, arg: rec(("step", S.me(), what, arg)) if what == "notify_all" else (rec(("timeout", S.me())) if (what == "wait-return" and not arg) else None))
        tix = {}
        # line hooks: executed when a thread is resumed at that line
        wait_while = [l for l in range(A.AsyncResult.wait.__code__.co_firstlineno, A.AsyncResult.wait.__code__.co_firstlineno + 12)]
        import inspect
        def find_line(fn, text):
            src, start = inspect.getsourcelines(fn)
            for k, line in enumerate(src):
                if text in line and not line.strip().startswith("#") and '"""' not in line:
                    return start + k
            return None
        L_wait = find_line(A.AsyncResult.wait, "while not self._is_ready")
        L_ready = find_line(A.AsyncResult.__call__, "self._is_ready = True")
        L_drop = find_line(A.AsyncResult.__call__, "return")          # `if self.expired: return`: a late reply is dropped here
        L_bg = find_line(H.BgServingThread._bg_server, "while self._active")
        L_seq = find_line(P.Connection._get_seq_id, "next(self._seqcounter)")
        orig_tracer = S.tracer

        def tracer():
            def local(frame, event, arg):
                if event == "line":
                    S.pos[S.me()] = (frame.f_code.co_name, frame.f_lineno)
                    S.yield_()
                    ln, co = frame.f_lineno, frame.f_code
                    if co is P.Connection._get_seq_id.__code__ and ln == L_seq:
                        rec(("issue", S.me()))
                    elif co is A.AsyncResult.wait.__code__ and ln == L_wait:
                        rec(("step", S.me(), "looptest", None))
                    elif co is H.BgServingThread._bg_server.__code__ and ln == L_bg:
                        rec(("step", S.me(), "looptest", None))
                    elif co is A.AsyncResult.__call__.__code__ and ln == L_drop:
                        q = seq_by_res.get(id(frame.f_locals["self"]))
                        out["dispatch_count"][q] = out["dispatch_count"].get(q, 0) + 1
                        out.setdefault("dropped", []).append(q)
                        rec(("step", S.me(), "dispatch", q))
                    elif co is A.AsyncResult.__call__.__code__ and ln == L_ready:
                        q = seq_by_res.get(id(frame.f_locals["self"]))
                        if q is None:
                            q = next((seq_of(i) for i, r0 in out["res_obj"].items() if r0 is frame.f_locals["self"]), None)
                        out["dispatch_time"][q] = S.now
                        out["dispatch_count"][q] = out["dispatch_count"].get(q, 0) + 1
                        rec(("step", S.me(), "dispatch", q))
                return local

            def glob(frame, event, arg):
                return local if frame.f_code in S.codes else None
            return glob
        S.tracer = tracer
        # tag each AsyncResult with its sequence number (harness-side bookkeeping only)
        class AR(A.AsyncResult):
            __slots__ = ["_seq_for_harness"]
        sent = []           # seqs whose request frame left
        answered = []

        seq_by_res = {}

        class RecDict(dict):
            def __setitem__(self, k, v):
                seq_by_res[id(v)] = k
                dict.__setitem__(self, k, v)
        conn._request_callbacks = RecDict()
        if peer_requests or slow_request:
            # the dispatch of a request of the peer's own: recorded when its handler has run (until then the serving thread is "at S5")
            def _recording(handler):
                def h(self_, *a):
                    try:
                        return handler(self_, *a)
                    finally:
                        rq = out.setdefault("last_request_read", {}).get(S.me())
                        rec(("step", S.me(), "dispatch", rq))
                return h
            conn._HANDLERS = dict(conn._HANDLERS)
            conn._HANDLERS[consts.HANDLE_PING] = _recording(conn._HANDLERS[consts.HANDLE_PING])
        if slow_request:
            def slow_handler(self_, data):
                out["slow"] = {"thread": S.me(), "start": S.now}
                S.block(lambda: False, S.now + slow_request, why="slow-handler")        # the handler is busy for that much virtual time
                out["slow"]["end"] = S.now
                return data
            conn._HANDLERS = dict(conn._HANDLERS)
            conn._HANDLERS[SLOW_HANDLER] = _recording(slow_handler)

        deadlines = {}

        def client(i):
            def f():
                payload = "p%d" % i
                res = AR(conn)
                res._seq_for_harness = None
                # the result's own lock is held across traced lines of AsyncResult.__call__: under the line scheduler it must be a
                # scheduler lock, or a thread parked while holding it would make another thread block for real
                res._lock = VLock(S, "result-lock")
                out["res_obj"][i] = res
                # the statements of Connection.async_request, with our own result object so that it can be identified later
                try:
                    conn._async_request(consts.HANDLE_PING, (payload,), res)
                except Exception as e:          # e.g. the connection ended before this request could be sent
                    out["results"][i] = "EXC:" + ("EOFError" if isinstance(e, EOFError) else type(e).__name__)
                    out["return_time"][i] = S.now
                    return
                if i in raising_callback:
                    def boom(r_, i=i):
                        raise CallbackBoom("callback of client %d" % i)
                    try:
                        res.add_callback(boom)
                    except CallbackBoom:
                        # the reply had already been dispatched by another thread: add_callback runs the callback at once, in this
                        # (the registering) thread, and its error surfaces here - in the thread that owns the callback's request
                        out["results"][i] = "EXC:CallbackBoom"
                        out["return_time"][i] = S.now
                        return
                res.set_expiry(sync_timeout if timeouts is None else timeouts[i])
                tmo = sync_timeout if timeouts is None else timeouts[i]
                if tmo is not None:
                    deadlines[i] = S.now + tmo
                try:
                    if i in pollers:
                        # a thread that POLLS its result a few times first (AsyncResult.ready -> poll_all -> serve(0, wait_for_lock=False):
                        # the non-blocking way through serve, which gives up at once when another thread holds the receive lock)
                        for _ in range(4):
                            if res.ready:
                                break
                    out["results"][i] = res.value
                except Exception as e:
                    out["results"][i] = "EXC:" + ("EOFError" if isinstance(e, EOFError) else type(e).__name__)
                out["return_time"][i] = S.now
            return f

        def seq_of(i):
            # read the number off the request frame itself (so that the peer does not depend on when the requester registers its callback)
            want = "p%d" % i
            for d in ch.out:
                m = brine.load(d)
                if m[0] == consts.MSG_REQUEST and m[2][0] == consts.HANDLE_PING and m[2][1] == (consts.LABEL_VALUE, (want,)):
                    return m[1]
            return None
        stop = {"bg": None}

        def bg():
            b = object.__new__(H.BgServingThread)
            b._conn, b._active, b._callback = conn, True, None
            stop["bg"] = b
            rec(("issue", n_clients))
            try:
                b._bg_server()
            except Exception as e:
                out["errors"]["bg"] = repr(e)

        def peer():
            order = list(answer_order)
            while len(answered) < n_clients:
                if eof_after is not None and len(answered) >= eof_after:
                    # the peer dies: wait until every request has been sent, then end the stream
                    S.block(lambda: sum(1 for d in ch.out if brine.load(d)[0] == consts.MSG_REQUEST and brine.load(d)[2][0] == consts.HANDLE_PING) + sum(1 for i in range(n_clients) if i in out["return_time"]) >= n_clients,
                            S.now + 10 * (sync_timeout or 2.0), why="peer")
                    ch.eof = True
                    break
                # wait until the next request in our answering order has actually been sent
                def ready():
                    reqs = [brine.load(d) for d in ch.out]
                    have = {m[1] for m in reqs if m[0] == consts.MSG_REQUEST}
                    pend = [c for c in order if c not in answered]
                    return bool(pend) and seq_of(pend[0]) in have
                if not S.block(ready, S.now + 10 * (sync_timeout or 2.0), why="peer"):
                    return
                c = [c for c in order if c not in answered][0]
                if answer_delay and answer_delay.get(c):
                    S.block(lambda: False, S.now + answer_delay[c], why="peer-sleep")     # the peer is slow: answers after that much (virtual) time
                q = seq_of(c)
                out["seq_of"][c] = q
                if slow_request and not out["peer_requests"]:
                    # a request of the peer's own with a slow handler goes into the stream FIRST, the reply right behind it: whoever
                    # reads the request is busy for a while, the reply must not have to wait for that thread
                    out["peer_requests"].append(1000)
                    rec(("inbound", 1000))
                    ch.inq.append(brine.dump((consts.MSG_REQUEST, 1000, (SLOW_HANDLER, (consts.LABEL_VALUE, ("ping1000",))))))
                answered.append(c)
                out.setdefault("answer_time", {})[c] = S.now
                rec(("answer", q))
                if c in exc_replies:
                    # an exception reply (a vinegar record of a built-in class): the request must fail with exactly that
                    ch.inq.append(brine.dump((consts.MSG_EXCEPTION, q, (("builtins", "KeyError"), ("p%d" % c,), (), "remote traceback"))))
                else:
                    ch.inq.append(brine.dump((consts.MSG_REPLY, q, (consts.LABEL_VALUE, "p%d" % c))))
                if len(out["peer_requests"]) < peer_requests:
                    # the peer is a client too: a request of its own, to be served by whichever thread reads it
                    pq = 1000 + len(out["peer_requests"])
                    out["peer_requests"].append(pq)
                    rec(("inbound", pq))
                    ch.inq.append(brine.dump((consts.MSG_REQUEST, pq, (consts.HANDLE_PING, (consts.LABEL_VALUE, ("ping%d" % pq,))))))
            # everything answered: let the background thread stop once the clients are done (and the peer's own requests are served)
            S.block(lambda: all(i in out["return_time"] for i in range(n_clients))
                    and sum(1 for d in ch.out if brine.load(d)[0] != consts.MSG_REQUEST) >= len(out["peer_requests"]),
                    S.now + 10 * (sync_timeout or 2.0), why="peer-wait-clients")
            if with_bg:
                S.block(lambda: stop["bg"] is not None, S.now + 100, why="peer-wait-bg")     # the background thread may not have started yet
            if stop["bg"] is not None:
                stop["bg"]._active = False
        for i in range(n_clients):
            S.spawn(i, client(i))
        if with_bg:
            S.spawn(n_clients, bg)
        S.spawn("P", peer)
        clock = []

        def on_clock(now, new):
            for ci, dl in sorted(deadlines.items()):
                if now < dl <= new and seq_of(ci) is not None:
                    rec(("expire", seq_of(ci)))          # the clock passes this request's own expiry
            if len(clock) < 400:
              clock.append({"from": now, "to": new, "inq": [brine.load(d)[1] for d in ch.inq],
                          "blocked": {str(t): S.blocked.get(t, (None, None, ""))[2] for t in S.sem if t not in S.done}})
        S.on_clock = on_clock
        out["deadlock"] = None
        try:
            out["schedule"] = S.run(chooser)
        except Deadlock as e:
            out["deadlock"] = str(e)
            out["deadlock_blocked"] = {str(t): v for t, v in getattr(S, "blocked_at_deadlock", {}).items()}
            if stop["bg"] is not None:
                stop["bg"]._active = False
        out["clock"] = clock
        out["events"] = events
        out.pop("res_obj", None)
        out["errors"].update({str(k): repr(v) for k, v in S.errors.items()})
        out["inq_left"] = [brine.load(d)[1] for d in ch.inq]
        out["peer_replies"] = [(m[0], m[1], m[2]) for m in (brine.load(d) for d in ch.out) if m[0] != consts.MSG_REQUEST]
        out["pending_left"] = sorted(conn._request_callbacks.keys())
        for i in range(n_clients):
            q = out["seq_of"].get(i)
            if i in out["return_time"] and q in out["dispatch_time"]:
                out["late"][i] = out["return_time"][i] - out["dispatch_time"][q]
        conn._closed = True
        return out
    finally:
        rpyc.lib.time, H.time = old


def make_chooser(seed, stick, starve=True):
    """seeded random scheduler: keeps the last thread with probability `stick`; in addition one randomly chosen victim thread is
    kept off the CPU for a random window of steps (long preemptions inside a few-line window are what most races need)"""
    import random
    rnd = random.Random(seed)
    last = [None]
    plan = {"victim": None, "from": rnd.randrange(0, 120), "len": rnd.choice([15, 30, 60, 120]) if starve and rnd.random() < 0.7 else 0}

    def chooser(en, step):
        pool = en
        if plan["len"] and plan["from"] <= step < plan["from"] + plan["len"]:
            if plan["victim"] is None:
                cands = [t for t in en if t != "P"]
                plan["victim"] = rnd.choice(cands) if cands else None
            rest = [t for t in en if t != plan["victim"]]
            if rest:
                pool = rest
        if last[0] in pool and rnd.random() < stick:
            return last[0]
        last[0] = rnd.choice(pool)
        return last[0]
    return chooser


def model_events(out, n_clients):
    """map recorded events to the model's alphabet.  The model numbers messages in the order in which they are issued; a request of
    the PEER's own is given to the model as a message whose issuer is not looking (proofs/ServeI.v): an `issue` by a phantom thread
    (identifiers 100, 101, ...: never scheduled again) followed by the message entering the stream.  out["mseq"]: real number -> the model's."""
    evs = []
    mseq, n_model, n_real = {}, 0, 0
    out["mseq"] = mseq
    for e in out["events"]:
        if e[0] == "issue":
            evs.append([0, e[1]])
            if isinstance(e[1], int) and e[1] < n_clients:
                mseq[n_real] = n_model
                n_real += 1
                n_model += 1
        elif e[0] == "inbound":
            mseq[e[1]] = n_model
            evs.append([0, 100 + len([k for k in mseq if k >= 1000]) - 1])
            evs.append([3, n_model])
            n_model += 1
        elif e[0] == "answer":
            evs.append([3, mseq.get(e[1], e[1])])
        elif e[0] == "expire":
            evs.append([4, mseq.get(e[1], e[1])])
        elif e[0] == "timeout":
            if e[1] != "P":
                evs.append([2, e[1]])
        elif e[0] == "step":
            if e[1] == "P":
                continue
            # the model pc the thread must be at for this kind of step, and the sequence number of the frame read / dispatched
            what, arg = e[2], (e[3] if len(e) > 3 else None)
            pc = {"looptest": 1, "acquire": 2, "read": 4, "release": 5, "notify_all": 6, "dispatch": 7}.get(what)
            if pc is None:
                evs.append([1, e[1]])
            else:
                evs.append([1, e[1], pc, mseq.get(arg, arg) if (what in ("read", "dispatch") and isinstance(arg, int)) else -1])
    return evs


def oracle13(ctx, case, out, n_clients):
    if out["deadlock"]:
        ctx.violation("deadlock", case, observed=out["deadlock"][:300], expected="no deadlock", what="all threads blocked with no deadline")
        return
    for i in range(n_clients):
        r = out["results"].get(i)
        if r != "p%d" % i:
            if isinstance(r, str) and r.startswith("EXC:"):
                ctx.violation("request-did-not-complete:" + r[4:], case, observed=r, expected="p%d" % i, what="a request ended with an exception instead of its reply")
            else:
                ctx.violation("reply-crossed", case, observed=r, expected="p%d" % i, what="a thread received the reply to another request")
    for q, k in out["dispatch_count"].items():
        if k != 1:
            ctx.violation("reply-dispatched-%d-times" % k, case, observed=k, expected=1, what="an incoming message was dispatched more than once")
    seqs = list(out["seq_of"].values())
    if len(set(seqs)) != len(seqs):
        ctx.violation("sequence-number-reused", case, observed=seqs, expected="distinct", what="two requests share a sequence number")
    for adv in out["clock"]:
        if adv["inq"]:
            ctx.violation("slept-with-reply-in-stream", case, observed=adv, expected="a thread serves the stream", what="every thread slept (clock had to advance) while a reply was waiting in the stream")
    if out["inq_left"] or out["pending_left"]:
        ctx.violation("reply-or-callback-left-over", case, observed={"inq": out["inq_left"], "pending": out["pending_left"]}, expected="none", what="a reply was never dispatched or a callback never invoked")
    if out["errors"]:
        ctx.violation("thread-raised", case, observed=out["errors"], expected="no exception", what="a thread raised")


def oracle13_mixed(ctx, case, out, n_clients, exc_replies):
    """the peer also sends requests of its own and answers some requests with exceptions: every incoming message is dispatched
    exactly once - each of the peer's requests gets exactly one reply bearing its number and echoing its argument, each request
    answered with an exception fails with exactly that exception, everything else as in oracle13"""
    if out["deadlock"]:
        ctx.violation("deadlock", case, observed=out["deadlock"][:300], expected="no deadlock", what="all threads blocked with no deadline")
        return
    for i in range(n_clients):
        r = out["results"].get(i)
        want = "EXC:KeyError" if i in exc_replies else "p%d" % i
        if r != want:
            ctx.violation("reply-crossed-or-lost:" + str(r)[:30], case, observed=r, expected=want, what="a request did not end with the reply (or the exception) the peer sent for it")
    # without a background serving thread nobody serves once the last client has returned: a request of the peer still in the
    # stream then is simply not read yet (no violation); one that was read must have been answered
    unread = [q for q in out["inq_left"] if q >= 1000] if not case["bg"] else []
    out = dict(out, inq_left=[q for q in out["inq_left"] if q not in unread])
    for pq in out["peer_requests"]:
        if pq in unread:
            continue
        got = [m for m in out["peer_replies"] if m[1] == pq]
        if len(got) != 1 or got[0][0] != consts.MSG_REPLY or got[0][2] != (consts.LABEL_VALUE, "ping%d" % pq):
            ctx.violation("incoming-request-answered-%d-times" % len(got), case, observed=got[:3], expected="exactly one reply echoing its argument",
                          what="a request sent by the peer while several threads serve the connection was not answered exactly once")
    stray = [m for m in out["peer_replies"] if m[1] not in out["peer_requests"]]
    if stray:
        ctx.violation("stray-response-sent", case, observed=stray[:3], expected="none", what="a response was sent for a request the peer never made")
    if out["inq_left"] or out["pending_left"]:
        ctx.violation("reply-or-callback-left-over", case, observed={"inq": out["inq_left"], "pending": out["pending_left"]}, expected="none", what="a message was never dispatched or a callback never invoked")
    if out["errors"]:
        ctx.violation("thread-raised", case, observed=out["errors"], expected="no exception", what="a thread raised")


def oracle13_slow(ctx, case, out, n_clients):
    """a request of the peer with a slow handler sits in the stream in front of a client's reply: everything of oracle13_mixed, and a
    client whose reply was in the stream while ANOTHER thread ran the handler must not have had to wait for that handler"""
    oracle13_mixed(ctx, case, out, n_clients, ())
    sl = out.get("slow")
    if out["deadlock"] or not sl or "end" not in sl:
        return
    for i in range(n_clients):
        if sl["thread"] == i or i not in out.get("answer_time", {}) or out["answer_time"][i] > sl["start"]:
            continue
        # the reply was in the stream when the handler started on another thread: some thread able to read it is runnable (the waiter
        # was notified before the dispatch, or has not gone to sleep yet), so it is processed before any virtual time passes
        dt = out["dispatch_time"].get(out["seq_of"].get(i))
        if dt is None or dt > sl["start"]:
            ctx.violation("reply-waited-for-a-handler-running-in-another-thread", case,
                          observed={"client": i, "reply in the stream since": out["answer_time"][i], "processed at": dt, "returned at": out["return_time"].get(i),
                                    "handler": sl, "result": out["results"].get(i)},
                          expected="the reply is read and processed while the other thread is busy in the handler (no virtual time passes)",
                          what="a reply that was in the stream before another thread started a long-running handler was processed only after "
                               "virtual time had passed (the handler finished, or the request ran into its timeout): nobody read the connection meanwhile")


def oracle13_callback(ctx, case, out, n_clients, raisers):
    """some clients registered a callback that raises. Every OTHER request must still complete with its own reply, and the serving
    threads must survive; the error may surface in the thread that owns the callback's request."""
    if out["deadlock"]:
        ctx.violation("deadlock", case, observed=out["deadlock"][:300], expected="no deadlock", what="all threads blocked with no deadline")
        return
    hit = []
    for i in range(n_clients):
        r = out["results"].get(i)
        if i in raisers:
            if r not in ("p%d" % i, "EXC:CallbackBoom"):
                ctx.violation("reply-crossed-or-lost:" + str(r)[:30], case, observed=r, expected="its reply or its own callback's error", what="a request ended with neither its reply nor its own callback's error")
        elif r == "EXC:CallbackBoom":
            hit.append("client %d" % i)
        elif r != "p%d" % i:
            ctx.violation("reply-crossed-or-lost:" + str(r)[:30], case, observed=r, expected="p%d" % i, what="a request did not end with its own reply")
    if "bg" in out["errors"] and "CallbackBoom" in out["errors"]["bg"]:
        hit.append("background serving thread (ended)")
    other = {k: v for k, v in out["errors"].items() if "CallbackBoom" not in v}
    if hit:
        ctx.violation("callback-error-surfaces-in-another-thread", case, observed=hit, expected="only the request that registered the callback is affected",
                      what="the error of one request's callback was raised in whichever thread dispatched the reply: another request failed with it / the serving thread ended")
    if other:
        ctx.violation("thread-raised", case, observed=other, expected="no exception", what="a thread raised")


def oracle13_expiry(ctx, case, out, n_clients):
    """short expiries and a slow peer: every request completes exactly once - with its own reply if that was dispatched before its
    expiry, else with the timeout error and not before its expiry; a late reply is dropped (its callback is gone, the cell not ready)"""
    if out["deadlock"]:
        ctx.violation("deadlock", case, observed=out["deadlock"][:300], expected="no deadlock", what="all threads blocked with no deadline")
        return
    for i in range(n_clients):
        r = out["results"].get(i)
        tmo, dly = case["timeouts"][i], case["delay"].get(str(i), 0) or 0
        if r == "p%d" % i:
            continue
        if r == "EXC:TimeoutError":
            if out["return_time"].get(i, 0) + 1e-9 < tmo:
                ctx.violation("gave-up-before-its-expiry", case, observed={"client": i, "returned_at": out["return_time"].get(i)}, expected=">= %s" % tmo,
                              what="a wait raised the timeout error before the request's own expiry")
            continue
        ctx.violation("reply-crossed-or-lost:" + str(r)[:30], case, observed=r, expected="p%d or its timeout" % i, what="a request ended with neither its own reply nor its own timeout")
    for q, k in out["dispatch_count"].items():
        if k != 1:
            ctx.violation("reply-dispatched-%d-times" % k, case, observed=k, expected=1, what="an incoming message was dispatched more than once")
    if out["errors"]:
        ctx.violation("thread-raised", case, observed=out["errors"], expected="no exception", what="a thread raised")


def oracle13_nodeadline(ctx, case, out, n_clients):
    """waits without any timeout and a peer that answers everything: every request must complete. The one way not to
    (finding F5 seen from C13): the waiter's reply was processed by another thread while the waiter sits in poll() on an
    empty stream (or sleeps behind a thread that does) - with no deadline and no further traffic that is for ever."""
    if out["deadlock"]:
        bl = out.get("deadlock_blocked", {})
        stuck = [i for i in range(n_clients) if i not in out["return_time"]]
        # the known shape: EVERY stuck client's request was answered and its reply dispatched exactly once (a request the peer never saw,
        # or a reply never dispatched, is a different failure and must not hide behind the known finding)
        dispatched = all(i in out["seq_of"] and out["dispatch_count"].get(out["seq_of"][i]) == 1 for i in stuck)
        in_window = bool(stuck) and dispatched and not out["inq_left"] and any(bl.get(str(i)) == "poll" for i in stuck) \
            and all(bl.get(str(i)) in ("poll", "cond-wait") for i in stuck) \
            and any(in_f5_window(out, i) for i in stuck)          # somebody really entered through the window (see in_f5_window); the others sleep behind it
        if in_window:
            ctx.violation("waiter-without-deadline-stalls-after-reply-dispatched", case, observed={"blocked": bl, "undelivered": out["inq_left"]},
                          expected="every request completes", what="every reply was received and processed, yet a waiter with no timeout is blocked in poll() on an empty stream for ever")
        else:
            ctx.violation("deadlock", case, observed=out["deadlock"][:300], expected="no deadlock", what="all threads blocked with no deadline")
        return
    oracle13(ctx, case, out, n_clients)


def oracle13_eof(ctx, case, out, n_clients, answered_first):
    """the peer vanished after answering some requests: every other waiter must get EOFError, nobody may hang"""
    if out["deadlock"]:
        ctx.violation("waiter-hangs-after-end-of-stream", case, observed=out["deadlock"][:300], expected="EOFError for every pending request",
                      what="after the stream ended a thread stayed blocked forever (nobody woke it up)")
        return
    for i in range(n_clients):
        r = out["results"].get(i)
        if r not in ("p%d" % i, "EXC:EOFError"):
            ctx.violation("pending-request-after-eof-got:" + str(r)[:40], case, observed=r, expected="its reply or EOFError", what="a request pending when the stream ended did not fail with EOFError")


def in_f5_window(out, i):
    """from the recorded events: the reply of client i was dispatched by ANOTHER thread, and client i acquired the receive lock (or
    went to sleep behind a thread that did) after that thread's release and not after the dispatch had already made the result visible
    to a loop test of i - i.e. i entered serve() between the other thread's release and its dispatch"""
    q = out["seq_of"].get(i)
    ev = out["events"]
    disp = [k for k, e in enumerate(ev) if e[0] == "step" and len(e) > 3 and e[2] == "dispatch" and e[3] == q]
    if not disp:
        return False
    k_disp = disp[0]
    dispatcher = ev[k_disp][1]
    if dispatcher == i:
        return False
    rel = [k for k in range(k_disp) if ev[k][0] == "step" and ev[k][1] == dispatcher and ev[k][2] == "release"]
    if not rel:
        return False
    k_rel = rel[-1]
    # the window: i tested its result (not ready yet) BEFORE the dispatch and went straight on into serve - its next own step after
    # that test is the attempt on the receive lock, made after the dispatcher had read the frame. A thread that reaches the lock in
    # any other way (e.g. woken from the condition and polling without looking at its result again) is NOT in the known window.
    reads = [k for k in range(k_disp) if ev[k][0] == "step" and ev[k][1] == dispatcher and ev[k][2] == "read" and len(ev[k]) > 3 and ev[k][3] == q]
    if not reads:
        return False
    mine = [(k, e) for k, e in enumerate(ev) if e[0] == "step" and e[1] == i]
    for idx, (k, e) in enumerate(mine):
        if e[2] == "acquire" and k > reads[-1]:
            if idx == 0:
                return False
            kp, ep = mine[idx - 1]
            return ep[2] == "looptest" and kp < k_disp
    return False


def timeouts_after_dispatch(out, i):
    """how many of its own poll / condition-wait timeouts client i used after its reply had been processed (made ready) by any thread"""
    q = out["seq_of"].get(i)
    if q is None or q not in out["dispatch_time"] or q in out.get("dropped", []):
        return 0
    ev = out["events"]
    disp = [k for k, e in enumerate(ev) if e[0] == "step" and len(e) > 3 and e[2] == "dispatch" and e[3] == q]
    if not disp:
        return 0
    return sum(1 for e in ev[disp[0]:] if e[0] == "timeout" and e[1] == i)


def oracle14(ctx, case, out, n_clients):
    if out["deadlock"]:
        ctx.violation("deadlock", case, observed=out["deadlock"][:300], expected="no deadlock", what="all threads blocked with no deadline")
        return
    if out["errors"]:
        ctx.violation("thread-raised", case, observed=out["errors"], expected="no exception", what="a thread raised")
    # c14_late_waiter_returns_alone on the real trace: once its reply has been processed a waiter needs at most ONE timeout of its own
    # (after it the loop test finds the result ready), whatever the other threads do meanwhile - also inside the known window
    for i in range(n_clients):
        n = timeouts_after_dispatch(out, i)
        ctx.count("own-timeouts-after-dispatch:%d" % min(n, 2))
        if n > 1:
            ctx.violation("waiter-needed-more-than-one-timeout-after-its-reply-was-processed", case, observed={"client": i, "timeouts": n}, expected="at most 1",
                          what="after its reply had been processed the waiter ran into %d timeouts of its own before it returned: it went back to "
                               "waiting instead of testing its result (c14_late_waiter_returns_alone bounds this by one)" % n)
    for i, d in out["late"].items():
        if d > 0:
            # classify by what the waiter was blocked in when the clock had to advance after its reply was dispatched
            q = out["seq_of"][i]
            t0 = out["dispatch_time"][q]
            why, others_polling = None, False
            for adv in out["clock"]:
                if adv["from"] >= t0 and str(i) in adv["blocked"]:
                    why = adv["blocked"][str(i)]
                    others_polling = any(v == "poll" for k, v in adv["blocked"].items() if k != str(i))
                    break
            window = in_f5_window(out, i)
            if why == "poll" and window:
                sig = "waiter-in-poll-while-reply-dispatched-by-other-thread"
            elif why == "cond-wait" and others_polling and window:
                sig = "waiter-asleep-behind-polling-thread-after-reply-dispatched"
            elif why in ("poll", "cond-wait") and not window:
                sig = "waiter-late-outside-the-known-window:" + str(why)
            elif why == "cond-wait":
                sig = "waiter-asleep-with-nobody-polling-after-reply-dispatched"
            else:
                sig = "waiter-late:" + str(why)
            ctx.violation(sig, case, observed={"lateness_virtual_s": d, "blocked_in": why}, expected=0,
                          what="a waiter returned %.1f virtual seconds after its reply had been processed by another thread" % d)


def run_plans(ctx, which):
    model = C.Model("serve"); model = model if model.available() else None
    r = ctx.rng
    plans = []
    n_runs = (260 if ctx.quick else 6000)
    for k in range(n_runs):
        nc = r.choice([1, 2, 2, 3])
        bg = r.random() < 0.7 or nc == 1
        order = list(range(nc)); r.shuffle(order)
        plans.append((nc, bg, order, r.randrange(10**9), r.choice([0.0, 0.1, 0.3, 0.6])))
    batch = []
    ibatch = []      # runs with requests of the peer's own: replayed in the model with phantom issuers (proofs/ServeI.v)
    import random
    for nc, bg, order, seed, stick in plans:
        chooser = make_chooser(seed, stick)
        out = scenario(nc, bg, order, chooser)
        case = {"clients": nc, "bg": bg, "order": order, "seed": seed, "stick": stick}
        ctx.case(("run", nc, bg, tuple(order), seed), nontrivial=(nc + bg) >= 2, sample={"case": case, "results": out["results"], "late": out["late"], "clock_advances": len(out["clock"])})
        ctx.count("threads:%d%s" % (nc, "+bg" if bg else ""))
        if any(d > 0 for d in out["late"].values()):
            ctx.count("late-waiter-runs")
        if which == "C13":
            oracle13(ctx, case, out, nc)
        else:
            oracle14(ctx, case, out, nc)
        ok_run = not out["deadlock"] and all(out["results"].get(i) == "p%d" % i for i in range(nc)) and not out["errors"]
        if model and ok_run and which == "C13":
            evs = model_events(out, nc)
            servers = [False] * nc + ([True] if bg else [])
            batch.append(([servers, evs, list(range(nc)), [out["seq_of"][i] for i in range(nc)]], out, case))
    if which == "C13":
        for k in range(60 if ctx.quick else 1500):
            nc = r.choice([2, 2, 3])
            bg = r.random() < 0.5
            order = list(range(nc)); r.shuffle(order)
            seed, stick, ea = r.randrange(10**9), r.choice([0.0, 0.2, 0.5]), r.randrange(0, nc)
            chooser2 = make_chooser(seed, stick)
            out = scenario(nc, bg, order, chooser2, sync_timeout=None, timeouts=[None] * nc, eof_after=ea)
            case = {"clients": nc, "bg": bg, "order": order, "seed": seed, "stick": stick, "eof_after": ea}
            ctx.case(("eof", nc, bg, tuple(order), seed, ea), nontrivial=True, sample={"case": case, "results": out["results"]})
            ctx.count("eof-runs")
            oracle13_eof(ctx, case, out, nc, ea)
    if which == "C13":
        for k in range(80 if ctx.quick else 2000):
            nc = r.choice([1, 2, 2, 3])
            bg = r.random() < 0.7 or nc == 1
            order = list(range(nc)); r.shuffle(order)
            seed, stick = r.randrange(10**9), r.choice([0.0, 0.2, 0.5])
            out = scenario(nc, bg, order, make_chooser(seed, stick), sync_timeout=None, timeouts=[None] * nc)
            case = {"clients": nc, "bg": bg, "order": order, "seed": seed, "stick": stick, "no_deadline": True}
            ctx.case(("nodeadline", nc, bg, tuple(order), seed), nontrivial=(nc + bg) >= 2, sample={"case": case, "results": out["results"], "deadlock": bool(out["deadlock"])})
            ctx.count("no-deadline-runs")
            if out["deadlock"]:
                ctx.count("no-deadline-runs-stalled")
            oracle13_nodeadline(ctx, case, out, nc)
    if which == "C13":
        for k in range(80 if ctx.quick else 2000):
            nc = r.choice([1, 2, 2, 3])
            bg = r.random() < 0.7 or nc == 1
            order = list(range(nc)); r.shuffle(order)
            seed, stick = r.randrange(10**9), r.choice([0.0, 0.2, 0.5])
            pr, ex = r.choice([1, 2, 3]), [i for i in range(nc) if r.random() < 0.4]
            out = scenario(nc, bg, order, make_chooser(seed, stick), peer_requests=pr, exc_replies=ex)
            case = {"clients": nc, "bg": bg, "order": order, "seed": seed, "stick": stick, "peer_requests": pr, "exc_replies": ex}
            ctx.case(("mixed", nc, bg, tuple(order), seed, pr, tuple(ex)), nontrivial=True, sample={"case": case, "results": out["results"], "served": len(out["peer_replies"])})
            ctx.count("mixed-runs(inbound requests + exception replies)")
            oracle13_mixed(ctx, case, out, nc, ex)
            ok_run = not ex and not out["deadlock"] and not out["errors"] and all(out["results"].get(i) == "p%d" % i for i in range(nc))
            if model and ok_run and all(out["seq_of"].get(i) is not None for i in range(nc)):
                evs = model_events(out, nc)
                ibatch.append(([[False] * nc + ([True] if bg else []), evs, list(range(nc)), [out["mseq"].get(out["seq_of"][i], out["seq_of"][i]) for i in range(nc)]], out, case, nc))
    if which == "C13":
        for k in range(40 if ctx.quick else 1000):
            nc = r.choice([2, 2, 3])
            bg = r.random() < 0.6
            order = list(range(nc)); r.shuffle(order)
            seed, stick = r.randrange(10**9), r.choice([0.0, 0.2, 0.5])
            raisers = [r.randrange(nc)]
            out = scenario(nc, bg, order, make_chooser(seed, stick), raising_callback=raisers)
            case = {"clients": nc, "bg": bg, "order": order, "seed": seed, "stick": stick, "raising_callback": raisers}
            ctx.case(("callback", nc, bg, tuple(order), seed, tuple(raisers)), nontrivial=True, sample={"case": case, "results": out["results"], "errors": out["errors"]})
            ctx.count("raising-callback-runs")
            oracle13_callback(ctx, case, out, nc, raisers)
    if which == "C13":
        for k in range(40 if ctx.quick else 1000):
            nc = r.choice([2, 2, 3])
            bg = r.random() < 0.5
            order = list(range(nc)); r.shuffle(order)
            seed, stick = r.randrange(10**9), r.choice([0.0, 0.2, 0.5])
            pl = [i for i in range(nc) if r.random() < 0.6] or [0]
            out = scenario(nc, bg, order, make_chooser(seed, stick), pollers=pl)
            case = {"clients": nc, "bg": bg, "order": order, "seed": seed, "stick": stick, "pollers": pl}
            ctx.case(("pollers", nc, bg, tuple(order), seed, tuple(pl)), nontrivial=True, sample={"case": case, "results": out["results"]})
            ctx.count("polling-threads-runs(serve without waiting for the lock)")
            oracle13(ctx, case, out, nc)
    if which == "C13":
        # a slow handler in another thread must not hold up a reply that is already in the stream; the client's own deadline (2 virtual
        # seconds) is shorter than the handler (5).  The run is also replayed in the model: the peer's request is a message whose issuer
        # is not looking, the serving thread stays at S5 for as long as the handler runs
        for k in range(40 if ctx.quick else 600):
            nc = r.choice([1, 1, 2])
            order = list(range(nc)); r.shuffle(order)
            seed, stick = r.randrange(10**9), r.choice([0.0, 0.2, 0.5])
            tmo = 2.0          # always a deadline: without one the known window F5c would end such a run in a stall of its own
            out = scenario(nc, True, order, make_chooser(seed, stick), sync_timeout=tmo, timeouts=[tmo] * nc, slow_request=5.0)
            case = {"clients": nc, "bg": True, "order": order, "seed": seed, "stick": stick, "slow_request": 5.0, "timeout": tmo}
            ctx.case(("slow-handler", nc, tuple(order), seed, tmo), nontrivial=True, sample={"case": case, "results": out["results"], "slow": out.get("slow")})
            ctx.count("slow-handler-runs")
            if out.get("slow") and out["slow"]["thread"] == nc:
                ctx.count("slow-handler-runs:handler-ran-on-the-background-thread")
            oracle13_slow(ctx, case, out, nc)
            ok_run = not out["deadlock"] and not out["errors"] and all(out["results"].get(i) in ("p%d" % i, "EXC:TimeoutError") for i in range(nc))
            if model and ok_run and all(out["seq_of"].get(i) is not None for i in range(nc)):
                evs = model_events(out, nc)
                ibatch.append(([[False] * nc + [True], evs, list(range(nc)), [out["mseq"].get(out["seq_of"][i], out["seq_of"][i]) for i in range(nc)]], out, case, nc))
    xbatch = []
    if which == "C13":
        for k in range(80 if ctx.quick else 2000):
            nc = r.choice([1, 2, 2, 3])
            bg = r.random() < 0.7
            order = list(range(nc)); r.shuffle(order)
            seed, stick = r.randrange(10**9), r.choice([0.0, 0.2, 0.5])
            tmos = [r.choice([0.5, 1.0, 3.0]) for _ in range(nc)]
            delay = {i: r.choice([0, 0, 0.7, 2.0]) for i in range(nc)}
            out = scenario(nc, bg, order, make_chooser(seed, stick), timeouts=tmos, answer_delay=delay)
            case = {"clients": nc, "bg": bg, "order": order, "seed": seed, "stick": stick, "timeouts": tmos, "delay": {str(k2): v for k2, v in delay.items()}}
            ctx.case(("expiry", nc, bg, tuple(order), seed, tuple(tmos), tuple(sorted(delay.items()))), nontrivial=True, sample={"case": case, "results": out["results"]})
            ctx.count("expiry-runs")
            if any(v == "EXC:TimeoutError" for v in out["results"].values()):
                ctx.count("expiry-runs-with-a-timeout")
            oracle13_expiry(ctx, case, out, nc)
            okx = not out["deadlock"] and not out["errors"] and all(out["results"].get(i) in ("p%d" % i, "EXC:TimeoutError") for i in range(nc))
            if model and okx and all(out["seq_of"].get(i) is not None for i in range(nc)):
                servers = [False] * nc + ([True] if bg else [])
                xbatch.append(([servers, model_events(out, nc), list(range(nc)), [out["seq_of"][i] for i in range(nc)]], out, case, nc))
    if model and xbatch:
        outs = model.batch([b[0] for b in xbatch])
        for (mc, out, case, nc), m in zip(xbatch, outs):
            ctx.model_traces += 1
            if m[0] != b"ok":
                ctx.tie_broken("correspondence:event-not-enabled-in-model", "expiry case %s model says %r (%d events)" % (case, m, len(mc[1])))
                continue
            pcs, readys = m[1], m[2]
            want_pcs = [8 if out["results"][i] == "p%d" % i else 9 for i in range(nc)]
            want_ready = [out["results"][i] == "p%d" % i for i in range(nc)]
            if pcs != want_pcs or [bool(x) for x in readys] != want_ready:
                ctx.tie_broken("correspondence:final-state", "expiry case %s model pcs %s ready %s real results %s" % (case, pcs, readys, out["results"]))
    if model and ibatch:
        outs = model.batch([b[0] for b in ibatch])
        for (mc, out, case, nc), m in zip(ibatch, outs):
            ctx.model_traces += 1
            ctx.count("model-traces-with-inbound-requests")
            if m[0] != b"ok":
                ctx.tie_broken("correspondence:event-not-enabled-in-model", "inbound-request case %s model says %r (%d events)" % (case, m, len(mc[1])))
                continue
            pcs, readys, disp = m[1], m[2], m[4]
            want_pcs = [8 if out["results"][i] == "p%d" % i else 9 for i in range(nc)]
            want_ready = [out["results"][i] == "p%d" % i for i in range(nc)]
            real_disp = [out["mseq"].get(e[3], e[3]) for e in out["events"] if e[0] == "step" and len(e) > 3 and e[2] == "dispatch"]
            if pcs != want_pcs or [bool(x) for x in readys] != want_ready or disp != real_disp:
                ctx.tie_broken("correspondence:final-state", "inbound-request case %s model pcs %s ready %s dispatched %s real results %s dispatched %s"
                               % (case, pcs, readys, disp, out["results"], real_disp))
    if model and batch:
        outs = model.batch([b[0] for b in batch])
        for (mc, out, case), m in zip(batch, outs):
            ctx.model_traces += 1
            if m[0] != b"ok":
                ctx.tie_broken("correspondence:event-not-enabled-in-model", "case %s model says %r at event %s of %d" % (case, m, m[1] if len(m) > 1 else "?", len(mc[1])))
                continue
            pcs, readys, inbox, disp, holder = m[1], m[2], m[3], m[4], m[5]
            real_disp = [e[3] for e in out["events"] if e[0] == "step" and len(e) > 3 and e[2] == "dispatch"]
            if any(p != 8 for p in pcs) or not all(readys) or inbox != out["inq_left"] or disp != real_disp:
                ctx.tie_broken("correspondence:final-state", "case %s model pcs %s ready %s inbox %s dispatched %s real dispatched %s" % (case, pcs, readys, inbox, disp, real_disp))
    ctx.coverage_extra["rule"] = ("random schedules (seeded, with varying stickiness) of 1-3 client threads plus an optional background serving thread and a scripted peer answering in a random order, "
                                  "line-level yields inside serve/_dispatch/_seq_request_callback/_async_request/_get_seq_id/wait/__call__/_bg_server and at every virtual blocking primitive; "
                                  "C13 also: polling threads, raising callbacks, expiry with a slow peer, mixed traffic (peer requests, exception replies), and a peer request whose handler is busy for 5 virtual seconds "
                                  "placed in the stream in front of a client's reply (a reply must not wait for a handler running in another thread); C14: own timeouts used after the reply was processed (<= 1); "
                                  "non-trivial = at least two threads share the connection")


def run(ctx):
    run_plans(ctx, "C13")


def replay(ctx, rep):
    import random
    cs = rep["case"]
    chooser = make_chooser(cs["seed"], cs["stick"])
    if cs.get("eof_after") is not None:
        out = scenario(cs["clients"], cs["bg"], cs["order"], chooser, sync_timeout=None, timeouts=[None] * cs["clients"], eof_after=cs["eof_after"])
        oracle13_eof(ctx, cs, out, cs["clients"], cs["eof_after"])
        ctx.case(("replay", cs["seed"]), True)
        return
    if "pollers" in cs:
        out = scenario(cs["clients"], cs["bg"], cs["order"], chooser, pollers=cs["pollers"])
        oracle13(ctx, cs, out, cs["clients"])
        return
    if "raising_callback" in cs:
        out = scenario(cs["clients"], cs["bg"], cs["order"], chooser, raising_callback=cs["raising_callback"])
        oracle13_callback(ctx, cs, out, cs["clients"], cs["raising_callback"])
        ctx.case(("replay", cs["seed"]), True)
        return
    if "delay" in cs:
        out = scenario(cs["clients"], cs["bg"], cs["order"], chooser, timeouts=cs["timeouts"], answer_delay={int(k): v for k, v in cs["delay"].items()})
        oracle13_expiry(ctx, cs, out, cs["clients"])
        ctx.case(("replay", cs["seed"]), True)
        return
    if "slow_request" in cs:
        out = scenario(cs["clients"], True, cs["order"], chooser, sync_timeout=cs["timeout"], timeouts=[cs["timeout"]] * cs["clients"], slow_request=cs["slow_request"])
        oracle13_slow(ctx, cs, out, cs["clients"])
        return
    if "peer_requests" in cs:
        out = scenario(cs["clients"], cs["bg"], cs["order"], chooser, peer_requests=cs["peer_requests"], exc_replies=cs["exc_replies"])
        oracle13_mixed(ctx, cs, out, cs["clients"], cs["exc_replies"])
        ctx.case(("replay", cs["seed"]), True)
        return
    if cs.get("no_deadline"):
        out = scenario(cs["clients"], cs["bg"], cs["order"], chooser, sync_timeout=None, timeouts=[None] * cs["clients"])
        oracle13_nodeadline(ctx, cs, out, cs["clients"])
        ctx.case(("replay", cs["seed"]), True)
        return
    out = scenario(cs["clients"], cs["bg"], cs["order"], chooser)
    (oracle13 if ctx.pid == "C13" else oracle14)(ctx, cs, out, cs["clients"])
    ctx.case(("replay", cs["seed"]), True)
