"""C10 — objects lent to the peer live exactly as long as the peer holds them.

Two real rpyc Connections (owner A, peer B) are joined by an in-memory stream pair; the harness decides when each
side consumes its next message (conn.poll()), so every interleaving of re-sending, dropping, passing back and
delivery in the two directions can be produced, including a release notice crossing a fresh reference.

For every generated history, after EVERY step:
  * implementation-level oracle (no model involved): the frames really in flight are decoded with brine and the
    property's own statement is evaluated on the real objects (owner table A._local_objects, live proxies and their
    ____refcount__, weakrefs to the lent objects);
  * correspondence: the complete observable state is compared with the extracted model (model/Refcount.v) run with the
    parameters regenerated from the source tree.
A second family of histories lends user-class instances, same-named classes and modules (every fresh proxy triggers a
nested HANDLE_INSPECT exchange, served by letting the owner run while the peer unboxes), also with the object's key
changing while it is lent; there the oracle alone is evaluated.
Histories also contain remote calls that raise (the connection keeps the last traceback), operations after a close and
closes during which the before_closed hook or the service's on_disconnect raises."""
import gc, struct, sys, threading, time, types, weakref, zlib
from harness import common as C

META = {
    "level": "proof",
    "level_text": "Theorems over all finite histories of an executable two-party model of RefCountingColl/_box/_unbox/_handle_del/"
                  "BaseNetref.__init__/__del__/_last_traceback/_cleanup/close (props/C10.v) for lent objects whose proxy class the peer "
                  "already knows and whose key is stable: counting invariant, alive-while-held and no KeyError at the owner in any "
                  "interleaving (also with raising calls), requests through held proxies are served; release at quiescence and after "
                  "drop+drain for histories without raising calls, with witness theorems that a raising call (kept traceback), a key "
                  "change, a send after close or a raising on_disconnect break the respective clause when the generated facts say so; "
                  "constants/comparison/finalizer count/close-path facts are regenerated from the code on every run and tied by "
                  "reflexivity; the extracted model is compared step by step with two real connections whose message delivery the "
                  "harness controls. Proof is the right level: the property quantifies over all interleavings of two message streams.",
    "level_note": "Trusted: Coq kernel, pygen, extraction + driver, harness. CPython reference counting runs a proxy's finalizer as soon "
                  "as the last reference goes (the model's Drop is 'finalizer has run'); one thread per connection. NOT covered by the "
                  "theorems, only by the implementation-level oracle: user-class instances, classes and modules (nested HANDLE_INSPECT for "
                  "every fresh proxy, several live proxies of one object) and objects whose key changes while lent (the model's Morph "
                  "operation states the mechanism but is not validated by correspondence). Also outside the positive theorems and stated "
                  "only as operations with witness theorems (SendFail, ReplyFail, SendBadSibling, CloseInCallee; validated by correspondence "
                  "on drained connections): a message whose boxing/encoding fails after _box registered siblings, a message the peer cannot "
                  "unbox, a callee that closes the connection and returns by reference; theorem 4' covers operations issued after close() "
                  "returned, not results boxed by a request that was being served while the connection closed.",
    "technique": "Coq proof by induction over operation lists with a counting invariant; regenerated parameters tied by reflexivity; "
                 "differential correspondence of the extracted model with real connection pairs under harness-controlled delivery",
    "gen": ["colls"],
    "shapes": ["colls.*"],
    "models": ["refcount"],
    "model_files": ["Refcount"],
    "assumptions": [
        "CPython reference counting: the finalizer of a proxy runs when the peer application drops its last reference "
        "(reference cycles delaying finalizers are outside the property)",
        "each connection is used by one thread at a time (ordering of release notices vs requests from different threads is outside)",
        "the transport delivers each direction's frames in order (the harness' in-memory stream; framing is C05's subject)",
    ],
}

from rpyc.core import brine, consts, netref
from rpyc.core.protocol import Connection
from rpyc.core.channel import Channel
from rpyc.core.service import VoidService
from rpyc.lib import get_id_pack, Timeout
from rpyc.lib.colls import RefCountingColl

STD_PARAMS = [0, 1, 0, 1, 1, 1, [0], 1, 1, 1, 1, 0, 0]
FACTS = {"failed_send_releases": False}      # set from the generated facts before histories run     # fallback only: the facts of the pinned tree
_HDR = struct.Struct("!LB")


# ------------------------------------------------------------------ in-memory transport

LONG = 60.0         # generous wall-clock bound for exchanges that must succeed; every wait returns as soon as it can


class MemStream(object):
    """one endpoint of an in-memory duplex byte stream; the harness inspects `inbox` (bytes written by the other side
    and not yet consumed)"""
    MAX_IO_CHUNK = 64000

    def __init__(self):
        self.inbox = bytearray()
        self.cond = threading.Condition()
        self.peer = None
        self._closed = False
        self.n_exc = 0              # MSG_EXCEPTION frames written by this endpoint
        self.n_keyerr = 0           # ... of which KeyError

    @staticmethod
    def pair():
        a, b = MemStream(), MemStream()
        a.peer, b.peer = b, a
        return a, b

    def close(self):
        self._closed = True
        for s in (self, self.peer):
            with s.cond:
                s.cond.notify_all()

    @property
    def closed(self):
        return self._closed

    def fileno(self):
        return -1

    def poll(self, timeout):
        t = Timeout(timeout)
        with self.cond:
            while not self.inbox:
                if self._closed:
                    raise EOFError("stream closed")
                left = t.timeleft()
                if left is not None and left <= 0:
                    return False
                if self.peer._closed:
                    return False
                self.cond.wait(left if left is not None else 0.5)
            return True

    def read(self, count):
        with self.cond:
            while len(self.inbox) < count:
                if self._closed or self.peer._closed:
                    raise EOFError("stream closed")
                self.cond.wait(0.5)
            data = bytes(self.inbox[:count])
            del self.inbox[:count]
            return data

    def write(self, data):
        if self._closed:
            raise EOFError("stream closed")
        if len(data) > _HDR.size:
            ln, comp = _HDR.unpack_from(data, 0)
            if ln + _HDR.size + 1 == len(data):
                body = bytes(data[_HDR.size:_HDR.size + ln])
                m = brine.load(zlib.decompress(body) if comp else body)
                if m[0] == consts.MSG_EXCEPTION:
                    self.n_exc += 1
                    try:
                        if m[2][0][1] == "KeyError":
                            self.n_keyerr += 1
                    except Exception:
                        pass
        p = self.peer
        with p.cond:
            if not p._closed:           # a closed peer silently swallows (like a socket buffer before the RST)
                p.inbox += data
            p.cond.notify_all()

    def frames(self):
        """payloads of the complete frames waiting in the inbox"""
        out, buf, off = [], bytes(self.inbox), 0
        while off + _HDR.size <= len(buf):
            ln, comp = _HDR.unpack_from(buf, off)
            data = buf[off + _HDR.size: off + _HDR.size + ln]
            out.append(zlib.decompress(data) if comp else data)
            off += _HDR.size + ln + 1
        return out


def _walk(box, out):
    label, value = box
    if label == consts.LABEL_VALUE:
        out.append(("V", value))
    elif label == consts.LABEL_TUPLE:
        for it in value:
            _walk(it, out)
    elif label == consts.LABEL_LOCAL_REF:
        out.append(("L", (str(value[0]), value[1], value[2])))
    elif label == consts.LABEL_REMOTE_REF:
        out.append(("R", (str(value[0]), value[1], value[2])))
    else:
        out.append(("?", label))


def decode(frame, idmap, bad_callee=None):
    """one frame -> the model's message vocabulary (see Refcount.sx_msg); ids not in idmap are ignored"""
    msg, seq, args = brine.load(frame)
    if msg == consts.MSG_EXCEPTION:
        return ["exc"]
    items = []
    if msg == consts.MSG_REPLY:
        _walk(args, items)
        rs = [idmap[v] for t, v in items if t == "R" and v in idmap]
        return ["replyref", rs[0]] if rs else ["reply"]
    handler, boxed = args
    _walk(boxed, items)
    R = [idmap[v] for t, v in items if t == "R" and v in idmap]
    L = [idmap[v] for t, v in items if t == "L" and v in idmap]
    V = [v for t, v in items if t == "V"]
    if handler == consts.HANDLE_DEL:
        if len(L) != 1:
            return ["other", "del-of-foreign-object"]
        return ["del", L[0], V[0]] if V else ["del0", L[0]]
    if handler == consts.HANDLE_CALL:
        if L and items[0][0] == "L" and items[0][1] in idmap:
            flag = V[0][0] if V and isinstance(V[0], tuple) and V[0] else (V[0] if V else 0)
            return ["use", L, flag if flag in (0, 1, 2) else 1]
        if bad_callee is not None and items and items[0] == ("L", bad_callee):
            return ["callraise", R]
        return ["call", R]
    if handler == consts.HANDLE_CLOSE:
        return ["close"]
    return ["other", handler]


# ------------------------------------------------------------------ the two parties
# every lendable object k answers a call (flag, *rest): flag 0 -> k, flag 1 -> its first argument (by reference),
# flag 2 -> raises

# flag 3 / 5 -> its first argument together with something that cannot be encoded / boxed, flag 4 -> closes the owner's
# connection and then returns its first argument (function objects only)

UNENCODABLE = 10 ** 5000        # brine accepts an int, dumping it exceeds the interpreter's digit limit


class Unboxable(object):
    """an object whose key cannot be computed: get_id_pack's hasattr() probes end in a RuntimeError"""

    def __getattr__(self, name):
        raise RuntimeError("no attribute access on this object")


class _Raiser(object):
    def __getattr__(self, name):
        raise RuntimeError("inspection of this attribute fails")


class BadSibling(object):
    """boxes fine, but the owner cannot answer the peer's HANDLE_INSPECT for it (get_methods probes every attribute)"""
    defaults = _Raiser()


def _answer(i, flag, rest, pair=None):
    if flag == 2:
        raise ValueError("lent object %d was asked to raise" % i)
    if flag == 3:
        return (rest[0], UNENCODABLE)
    if flag == 5:
        return (rest[0], Unboxable())
    if flag == 4:
        pair.A.close()
        return rest[0]
    return rest[0] if (flag and rest) else i


def make_function(i, pair=None):
    def lent(flag=0, *rest):
        return _answer(i, flag, rest, pair)
    return lent


class Thing(object):
    """a user-class instance: the peer has to HANDLE_INSPECT it for every fresh proxy"""

    def __init__(self, i):
        self.i = i

    def __call__(self, flag=0, *rest):
        return _answer(self.i, flag, rest)


class Thing2(Thing):
    """what a Thing turns into when the owner application reassigns its __class__ (its key changes)"""


def make_class(i):
    """distinct classes that all carry the same qualified name"""
    class Lent(object):
        idx = i

        def __new__(cls, flag=0, *rest):
            return _answer(cls.idx, flag, rest)
    return Lent


_modcount = [0]


def make_module(i):
    _modcount[0] += 1
    m = types.ModuleType("c10_lent_module_%d" % _modcount[0])
    m.i = i
    sys.modules[m.__name__] = m
    return m


class OwnerService(VoidService):
    pair = None

    def on_disconnect(self, conn):
        if self.pair is not None and self.pair.disc_raises:
            raise RuntimeError("on_disconnect failed")


def _idp(x):
    """id pack of a proxy without triggering a remote call (None for anything that is not a proxy)"""
    try:
        v = object.__getattribute__(x, "____id_pack__")
        return (str(v[0]), v[1], v[2])
    except AttributeError:
        return None


def _rc(x):
    try:
        return object.__getattribute__(x, "____refcount__")
    except AttributeError:
        return None


def _show(x):
    """never repr() a proxy: that is a synchronous remote call"""
    return "<proxy %r>" % (_idp(x),) if isinstance(x, netref.BaseNetref) else repr(x)[:200]


def tb_references(tb, target):
    """do the frames kept alive by traceback tb (its own frames and their callers, f_back) reference `target`
    (directly or inside tuples)?"""
    def inside(v, depth=0):
        if v is target:
            return True
        if type(v) is tuple and depth < 4:
            return any(inside(x, depth + 1) for x in v)
        return False
    seen = set()
    while tb is not None:
        f = tb.tb_frame
        while f is not None and id(f) not in seen:
            seen.add(id(f))
            try:
                if any(inside(v) for v in f.f_locals.values()):
                    return True
            except Exception:
                pass
            f = f.f_back
        tb = tb.tb_next
    return False


class Pair(object):
    """owner connection A, peer connection B, `nobj` lendable objects, and the peer application's list `held`"""

    def __init__(self, nobj, kind="function"):
        sa, sb = MemStream.pair()
        self.sa, self.sb = sa, sb
        self.hook_raises = False
        self.disc_raises = False
        pair = self

        def before_closed(root):
            if pair.hook_raises:
                raise RuntimeError("before_closed hook failed")
        svc = OwnerService()
        svc.pair = self
        cfg = {"sync_request_timeout": LONG}
        self.A = Connection(svc, Channel(sa), config=dict(cfg, connid="owner", before_closed=before_closed))
        self.B = Connection(VoidService(), Channel(sb), config=dict(cfg, connid="peer"))
        self.A._remote_root = True      # close() evaluates self.root for the hook; no bootstrap exchange in this harness
        self.held = []
        held = self.held

        def keep(*xs):
            def flat(t):
                for x in t:
                    if type(x) is tuple:
                        flat(x)
                    else:
                        held.append(x)
            flat(xs)

        def keep_bad(*xs):
            raise ValueError("the peer's function raises")
        self.keep_fn, self.keep_bad_fn = keep, keep_bad
        # the owner's handles on the peer's functions: what B._box(f) / A._unbox(...) do, without a bootstrap exchange
        kid, bid = get_id_pack(keep), get_id_pack(keep_bad)
        self.B._local_objects.add(kid, keep)
        self.B._local_objects.add(bid, keep_bad)
        self.keep = self.A._unbox((consts.LABEL_REMOTE_REF, kid))
        self.keep_bad = self.A._unbox((consts.LABEL_REMOTE_REF, bid))
        self.bad_key = (str(bid[0]), bid[1], bid[2])
        # every proxy the peer connection creates is remembered weakly (instance-attribute wrapper around _netref_factory)
        self.created = []
        factory, created = self.B._netref_factory, self.created

        def remembering_factory(id_pack):
            px = factory(id_pack)
            created.append(weakref.ref(px))
            return px
        self.B._netref_factory = remembering_factory
        self.kind = kind
        mk = {"function": lambda i: make_function(i, pair), "instance": Thing, "class": make_class, "module": make_module}[kind]
        self.objs = [mk(i) for i in range(nobj)]
        self.bad_siblings = []      # BadSibling objects lent so far (their own entries are lost too)
        self.excluded = {}          # situations outside the theorems met so far -> objects involved: "failed-message", "bad-sibling"
        self.wr = [weakref.ref(o) for o in self.objs]
        self.keys = [get_id_pack(o) for o in self.objs]
        self.idmap = {(str(k[0]), k[1], k[2]): i for i, k in enumerate(self.keys)}
        self.nobj = nobj
        self.pendingA = []          # (AsyncResult, an exception is expected)
        self.use_results = []       # (k, mode, is_exc, plain value or None)
        self.closed = False
        self.close_fault = 0
        self.close_by_peer = False
        self.empty_after_close = None
        self.bad_results = []
        self.morphed = set()

    # --- observation
    def in_flight(self, to_peer):
        s = self.sb if to_peer else self.sa
        return [decode(f, self.idmap, self.bad_key) for f in s.frames()]

    def slots(self):
        d = self.A._local_objects._dict
        return [(d[k][1] if k in d else None) for k in self.keys]

    def foreign_keys(self):
        bad = [get_id_pack(o) for o in self.bad_siblings]
        return [k for k in self.A._local_objects._dict if k not in self.keys and k not in bad]

    def live_proxies(self, k=None):
        """the proxies of lent objects that are alive at the peer (whoever references them)"""
        out = []
        alive = []
        for w in self.created:
            x = w()
            if x is not None:
                alive.append(w)
                j = self.idmap.get(_idp(x))
                if j is not None and (k is None or j == k):
                    out.append(x)
            del x
        self.created[:] = alive
        return out

    def proxy_counts(self):
        """per object: (refcount of the cached live proxy or None, refcounts of all distinct live proxies, number of
        references the peer application holds)"""
        cache = self.B._proxy_cache
        out = []
        per = [dict() for _ in range(self.nobj)]
        holds = [0] * self.nobj
        for x in self.live_proxies() + self.held:
            k = self.idmap.get(_idp(x))
            if k is not None:
                per[k][id(x)] = _rc(x)
        x = None
        for x in self.held:
            k = self.idmap.get(_idp(x))
            if k is not None:
                holds[k] += 1
        x = None
        for i, key in enumerate(self.idmap):
            p = cache.get(key) if not self.B.closed else None      # WeakValueDict.get: None once the proxy is dead
            if p is not None and self.idmap.get(_idp(p)) == i:
                per[i][id(p)] = _rc(p)
            out.append((_rc(p) if p is not None else None, sorted(per[i].values()), holds[i]))
            del p
        return out

    def unheld_proxies(self, k):
        """live proxies of object k that the peer application does not reference: (count, referenced by B._last_traceback)"""
        mine = set(id(x) for x in self.held)
        out = []
        for x in self.live_proxies(k):
            if id(x) not in mine:
                out.append((_rc(x), tb_references(self.B._last_traceback, x)))
        return out

    def alive(self):
        return [w() is not None for w in self.wr]

    # --- operations
    def _args(self, ks, nest):
        ks = [k for k in ks if self.objs[k] is not None]
        objs = [self.objs[k] for k in ks]
        if nest == 1 and objs:
            return (tuple(objs),)
        if nest == 2 and len(objs) >= 2:
            return (objs[0], tuple(objs[1:]))
        if nest == 3 and len(objs) >= 2:
            return ((objs[0], (objs[1],)),) + tuple(objs[2:])
        return tuple(objs)

    def send(self, ks, nest=0, boom=False, extra=()):
        args = self._args(ks, nest) + tuple(extra)
        try:
            res = netref.asyncreq(self.keep_bad if boom else self.keep, consts.HANDLE_CALL, args, ())
        except EOFError:
            if self.closed:
                return          # lending through a closed connection is refused
            raise
        self.pendingA.append((res, boom))

    def send_fail(self, ks, variant):
        """lend ks in one call together with a sibling that cannot be encoded (0) / boxed (1): the call must raise"""
        if self.closed:
            return self.send(ks, 0, False, (UNENCODABLE,))
        try:
            self.send(ks, 0, False, (UNENCODABLE,) if variant == 0 else (Unboxable(),))
        except (ValueError, RuntimeError):
            if not FACTS["failed_send_releases"]:       # otherwise a failed call has to be harmless
                self.excluded.setdefault("failed-message", set()).update(ks)
            return
        raise AssertionError("a call with an unencodable / unboxable argument did not raise")

    def reply_fail(self, c, r, variant):
        self.sync()
        self.sync()
        if self.use(c, [r], 3 if variant == 0 else 5):
            if not FACTS["failed_send_releases"]:
                self.excluded.setdefault("failed-message", set()).add(r)
            self.poll_owner()

    def send_bad_sibling(self, ks):
        if self.closed:
            return self.send(ks, 0, False, ())
        self.sync()
        self.sync()
        sib = BadSibling()
        self.bad_siblings.append(sib)
        self.excluded.setdefault("bad-sibling", set()).update(ks)
        args = (sib,) + self._args(ks, 0)
        self.pendingA.append((netref.asyncreq(self.keep, consts.HANDLE_CALL, args, ()), True))
        self.poll_peer(threaded=True)

    def close_in_callee(self, c, r):
        self.sync()
        self.sync()
        if self.use(c, [r], 4):
            try:
                self.poll_owner()
            except EOFError:
                pass        # the owner cannot answer any more
            if self.A.closed:
                self.closed = True
                self.close_fault, self.close_by_peer = 3, False
                gc.collect()

    def _collect_dropped_traceback(self, conn, before):
        """a traceback that _last_traceback no longer references is cyclic garbage (frame -> local `tb` -> frame): what its frames
        kept alive goes when the cycle collector runs.  The harness runs it at this defined point (automatic collection is off
        while histories run), the model finalizes at the same point"""
        if id(conn._last_traceback) != before:
            gc.collect()

    def poll_peer(self, threaded=False):
        before = id(self.B._last_traceback)     # not the traceback itself: the frames of the next traceback reach this frame (f_back)
        try:
            return self._poll_peer(threaded)
        finally:
            self._collect_dropped_traceback(self.B, before)

    def _poll_peer(self, threaded=False):
        if self.kind == "function" and not threaded:
            return self.B.poll()
        # unboxing a user-class instance makes the peer wait for the owner's HANDLE_INSPECT answer: let the owner serve
        res = []
        t = threading.Thread(target=lambda: res.append(self._guard(self.B.poll)), daemon=True)
        t.start()
        deadline = time.monotonic() + LONG
        while t.is_alive():
            if any(m == ["other", consts.HANDLE_INSPECT] for m in self.in_flight(False)):
                self.poll_owner()
            else:
                t.join(0.0002)
            if time.monotonic() > deadline:
                raise RuntimeError("peer did not finish unboxing within %d s" % LONG)
        if res and isinstance(res[0], Exception):
            raise res[0]
        return res[0] if res else False

    @staticmethod
    def _guard(f):
        try:
            return f()
        except Exception as e:      # reported by the caller
            return e

    def poll_owner(self):
        before = id(self.A._last_traceback)
        try:
            return self.A.poll()
        finally:
            self._collect_dropped_traceback(self.A, before)

    def _key(self, k):
        return (str(self.keys[k][0]), self.keys[k][1], self.keys[k][2])

    def _find(self, k):
        key = self._key(k)
        for i, x in enumerate(self.held):
            if _idp(x) == key:
                return i
        return None

    def drop_one(self, k):
        i = self._find(k)
        if i is not None:
            del self.held[i]

    def drop_all(self, k):
        key = self._key(k)
        self.held[:] = [x for x in self.held if _idp(x) != key]

    def drop_index(self, i):
        if self.held:
            del self.held[i % len(self.held)]

    def use(self, c, args, mode, expired=False):
        """expired: the peer application gives up on the answer at once (AsyncResult.set_expiry(0)): the reply that arrives later is
        dropped by the result, so whatever reference it carries must be released again (oracle-only op 'useexp')"""
        if self.kind == "module":
            return False            # modules are not callable
        idx = [self._find(k) for k in [c] + list(args)]
        if any(i is None for i in idx):
            return False
        ps = [self.held[i] for i in idx]
        res = netref.asyncreq(ps[0], consts.HANDLE_CALL, (mode,) + tuple(ps[1:]), ())
        del ps
        if expired:
            res.set_expiry(0)
        held, log = self.held, self.use_results

        def got(r, c=c, mode=mode):
            if r._is_exc:
                log.append((c, mode, True, type(r._obj).__name__))
            elif isinstance(r._obj, netref.BaseNetref):
                held.append(r._obj)
                log.append((c, mode, False, "ref"))
            else:
                log.append((c, mode, False, r._obj))
        res.add_callback(got)
        return True

    def forget(self, k):
        if self.kind == "module":
            return          # a module stays registered in sys.modules: its owner application has not let go (see morph)
        self.objs[k] = None

    def morph(self, k):
        """the owner application changes what get_id_pack computes for the lent object, and lets go of it"""
        o = self.objs[k]
        if o is None:
            return
        if self.kind == "instance":
            o.__class__ = Thing2
        elif self.kind == "module":
            sys.modules.pop(o.__name__, None)
        else:
            return
        self.morphed.add(k)
        self.objs[k] = None

    def sync(self):
        for _ in range(len(self.sb.frames())):
            self.poll_peer()
        for _ in range(len(self.sa.frames())):
            self.poll_owner()
        keep = []
        for r, boom in self.pendingA:
            if r._is_ready:
                if boom:
                    if not r._is_exc:
                        self.bad_results.append("a call of the raising function returned " + _show(r._obj))
                elif r._is_exc or r._obj is not None:
                    self.bad_results.append(_show(r._obj))
            else:
                keep.append((r, boom))
        self.pendingA = keep

    def close(self, by_peer, fault=0):
        """fault 1: the before_closed hook raises; fault 2: the service's on_disconnect raises"""
        self.hook_raises = fault == 1
        self.disc_raises = fault == 2
        self.close_fault, self.close_by_peer = fault, by_peer
        try:
            if by_peer:
                self.B.close()
                deadline = time.monotonic() + LONG
                while self.sa.frames() and not self.A.closed and time.monotonic() < deadline:
                    try:
                        self.A.poll()
                    except EOFError:    # the owner answers HANDLE_CLOSE after closing its own stream (serve_all swallows this)
                        break
            else:
                try:
                    self.A.close()
                except RuntimeError:
                    if not fault:
                        raise
        finally:
            self.hook_raises = self.disc_raises = False
        self.closed = True
        gc.collect()        # _cleanup dropped the last traceback: see _collect_dropped_traceback

    def raw_request(self, handler, boxed):
        B = self.B
        seq = B._get_seq_id()
        B._request_callbacks[seq] = lambda is_exc, obj: None
        B._send(consts.MSG_REQUEST, seq, (handler, boxed))

    def raw_del(self, k, n):
        self.raw_request(consts.HANDLE_DEL, (consts.LABEL_TUPLE, ((consts.LABEL_LOCAL_REF, self.keys[k]), (consts.LABEL_VALUE, n))))

    def raw_local(self, k):
        self.raw_request(consts.HANDLE_CALL, (consts.LABEL_TUPLE, ((consts.LABEL_LOCAL_REF, self.keys[k]),
                                                                 (consts.LABEL_VALUE, (0,)), (consts.LABEL_VALUE, ()))))

    def shutdown(self):
        self.held[:] = []
        self.pendingA[:] = []
        for c in (self.A, self.B):
            try:
                c.close()
            except Exception:
                pass
        if self.kind == "module":
            for m in list(sys.modules):
                if m.startswith("c10_lent_module_"):
                    sys.modules.pop(m, None)


# ------------------------------------------------------------------ histories
# op encodings (lists, JSON/sx friendly); the model sees model_op(op)
#  ["send", ks, nest] ["sendsync", ks, nest] ["sendraise", ks, nest] ["dab"] ["dba"] ["drop1", k] ["dropall", k]
#  ["use", c, args, mode] (mode 0 value / 1 returns its first argument / 2 raises) ["forget", k] ["sync"]
#  ["close", by_peer, fault] ["rawdel", k, n] ["rawlocal", k]   oracle-only histories also: ["dropidx", i] ["morph", k] ["useexp", c, args, mode]

def _mode(x):
    return 1 if x is True else 0 if x is False else int(x)


def model_op(op):
    t = op[0]
    if t == "send": return [0, list(op[1])]
    if t == "sendsync": return [1, list(op[1])]
    if t == "dab": return [2]
    if t == "dba": return [3]
    if t == "drop1": return [4, op[1]]
    if t == "dropall": return [5, op[1]]
    if t == "use": return [6, op[1], list(op[2]), _mode(op[3])]
    if t == "forget": return [7, op[1]]
    if t == "sync": return [8]
    if t == "close": return [9, 1 if op[1] else 0, op[2] if len(op) > 2 else 0]
    if t == "rawdel": return [10, op[1], op[2]]
    if t == "rawlocal": return [11, op[1]]
    if t == "sendraise": return [12, list(op[1])]
    if t == "morph": return [13, op[1]]
    if t == "sendfail": return [14, list(op[1])]
    if t == "replyfail": return [15, op[1], op[2]]
    if t == "sendbadsib": return [16, list(op[1])]
    if t == "closeincallee": return [17, op[1], op[2]]
    raise ValueError(op)


AFTER_CLOSE = ("send", "sendsync", "sendraise", "sendfail", "sendbadsib", "forget", "morph")     # what still does something on a closed connection


def apply_op(p, op):
    t = op[0]
    if p.closed:
        if t in ("send", "sendsync", "sendraise"): p.send(op[1], op[2], t == "sendraise")
        elif t == "sendfail": p.send_fail(op[1], op[2])
        elif t == "sendbadsib": p.send_bad_sibling(op[1])
        elif t == "forget": p.forget(op[1])
        elif t == "morph": p.morph(op[1])
        return
    if t == "send": p.send(op[1], op[2])
    elif t == "sendsync": p.send(op[1], op[2]); p.sync()
    elif t == "sendraise": p.send(op[1], op[2], True)
    elif t == "dab": p.poll_peer()
    elif t == "dba": p.poll_owner()
    elif t == "drop1": p.drop_one(op[1])
    elif t == "dropall": p.drop_all(op[1])
    elif t == "dropidx": p.drop_index(op[1])
    elif t == "use": p.use(op[1], op[2], _mode(op[3]))
    elif t == "useexp": p.use(op[1], op[2], _mode(op[3]), True)
    elif t == "forget": p.forget(op[1])
    elif t == "morph": p.morph(op[1])
    elif t == "sync": p.sync()
    elif t == "close": p.close(op[1], op[2] if len(op) > 2 else 0)
    elif t == "rawdel": p.raw_del(op[1], op[2])
    elif t == "rawlocal": p.raw_local(op[1])
    elif t == "sendfail": p.send_fail(op[1], op[2])
    elif t == "replyfail": p.reply_fail(op[1], op[2], op[3])
    elif t == "sendbadsib": p.send_bad_sibling(op[1])
    elif t == "closeincallee": p.close_in_callee(op[1], op[2])
    else: raise ValueError(op)


def gen_history(r, nobj, nops, flavour, kind="function"):
    """flavour: 'valid' (only operations of a well-behaved peer), 'race' (biased towards release notices crossing
    fresh references), 'raising' (remote calls that raise on either side, so that the connections keep tracebacks),
    'boundary' (many repeats in one tuple, drops/uses of objects never lent, deliveries on empty streams, early
    forget), 'malformed' (also release notices / local references the peer is not entitled to send),
    'morph' (oracle-only kinds: the lent object's key changes while it is lent)"""
    ops = []
    K = lambda: r.randrange(nobj)
    morphed = set()
    for _ in range(nops):
        c = r.random()
        if flavour == "race":
            k = K()
            pat = r.choice([
                [["send", [k] * r.choice([1, 1, 2, 3]), 0], ["dab"], ["dropall", k], ["send", [k], 0], ["dba"], ["dba"], ["dab"]],
                [["send", [k], 0], ["send", [k], 0], ["dab"], ["drop1", k], ["dab"], ["dba"], ["dba"]],
                [["send", [k, k], 1], ["dab"], ["use", k, [k], 1], ["dropall", k], ["dba"], ["dba"], ["dba"], ["dab"]],
                [["dropall", k], ["send", [k], 0], ["dab"], ["dba"], ["dab"]],
                [["send", [k], 0], ["dab"], ["use", k, [], 0], ["drop1", k], ["send", [k], 0], ["dba"], ["dba"], ["dba"]],
            ])
            # perturb the pattern: drop or swap a step
            pat = [list(x) for x in pat]
            if r.random() < 0.5 and len(pat) > 2:
                i = r.randrange(len(pat) - 1)
                pat[i], pat[i + 1] = pat[i + 1], pat[i]
            if r.random() < 0.3:
                del pat[r.randrange(len(pat))]
            ops.extend(pat)
            if len(ops) >= nops:
                break
            continue
        if flavour == "raising" and c < 0.22:
            k = K()
            if r.random() < 0.5:
                # the peer's function raises after unboxing: one distinct object per call (the order in which several proxies
                # of a dropped traceback are finalized is an interpreter detail)
                ops.append(["sendraise", [k] * r.choice([1, 1, 2]), r.choice([0, 1])])
            else:
                ops.append(["use", k, [K() for _ in range(r.choice([0, 0, 1]))], 2])
            continue
        if flavour == "failing" and c < 0.16:
            # situations outside the theorems: a sibling that cannot be encoded / boxed (request or reply), a sibling the peer
            # cannot unbox, a callee that closes the connection and returns by reference
            x = r.random()
            if x < 0.4:
                ops.append(["sendfail", [K() for _ in range(r.choice([1, 1, 2]))], r.choice([0, 1])])
            elif x < 0.7:
                ops.append(["replyfail", K(), K(), r.choice([0, 1])])
            elif x < 0.93:
                ops.append(["sendbadsib", [K() for _ in range(r.choice([1, 1, 2]))]])
            else:
                ops.append(["closeincallee", K(), K()])
            continue
        if flavour == "morph" and c < 0.06:
            k = K()
            morphed.add(k)
            ops.append(["morph", k])
            continue
        if c < 0.24:
            n = r.choice([1, 1, 1, 2, 2, 3]) if flavour != "boundary" else r.choice([0, 1, 2, 5, 9, 17])
            ks = [K() for _ in range(n)]
            if r.random() < 0.3 and ks:
                ks = [ks[0]] * len(ks)
            ops.append(["send" if r.random() < 0.85 else "sendsync", ks, r.choice([0, 0, 1, 2, 3])])
        elif c < 0.42:
            ops.append(["dab"])
        elif c < 0.62:
            ops.append(["dba"])
        elif c < 0.72:
            ops.append(["drop1", K()])
        elif c < 0.80:
            ops.append(["dropall", K()])
        elif c < 0.90:
            na = r.choice([0, 0, 1, 1, 2])
            args = [K() for _ in range(na)]
            mode = 1 if r.random() < 0.5 else 0
            if mode == 1 and args and args[0] in morphed:
                mode = 0        # re-lending an object whose key changed creates a second identity: not part of this property
            ops.append(["use", K(), args, mode])
        elif c < 0.93:
            ops.append(["sync"])
        elif c < 0.95:
            ops.append(["forget", K()] if flavour != "boundary" or r.random() < 0.5 else ["sync"])
        elif c < 0.985 or flavour != "malformed":
            ops.append(["dab"] if r.random() < 0.5 else ["dba"])
        if flavour == "malformed" and r.random() < 0.08:
            ops.append(["rawdel", K(), r.choice([1, 1, 1, 2, 3, 0, -1, 7])] if r.random() < 0.7 else ["rawlocal", K()])
    ops = ops[:nops]
    # end game: close (sometimes with a failing hook), and keep using the closed connection
    e = r.random()
    if e < 0.3:
        fault = r.choice([0, 0, 0, 1, 2, 2])
        ops.append(["close", r.random() < 0.5, fault])
        for _ in range(r.choice([0, 0, 1, 2, 4])):
            c = r.random()
            if c < 0.5:
                ops.append([r.choice(["send", "send", "sendsync", "sendraise"]), [K() for _ in range(r.choice([1, 1, 2]))], r.choice([0, 1])])
            elif c < 0.7:
                ops.append(["forget", K()])
            else:
                ops.append(r.choice([["dab"], ["dba"], ["sync"], ["dropall", K()], ["use", K(), [], 0]]))
        ops += [["forget", k] for k in range(nobj)]
    return ops


def epilogue(nobj):
    """exercise every live proxy, then drop everything, let the notices be processed, and forget the objects"""
    ops = [["use", k, [], 0] for k in range(nobj)] + [["sync"], ["sync"]]
    ops += [["dropall", k] for k in range(nobj)] + [["sync"], ["sync"]]
    ops += [["forget", k] for k in range(nobj)]
    return ops


def has_close(ops):
    return any(o[0] in ("close", "closeincallee") for o in ops)


# ------------------------------------------------------------------ oracle and correspondence

def observe(p):
    """complete observable state of the real pair, in the model's snapshot layout"""
    pc = p.proxy_counts()
    slots = p.slots()
    return {"slots": slots, "prox": [x[0] for x in pc], "all_prox": [x[1] for x in pc], "holds": [x[2] for x in pc],
            "alive": p.alive(), "qab": p.in_flight(True), "qba": p.in_flight(False),
            "closed": bool(p.A.closed)}


CLOSE_FAULT = {0: "", 1: ":before_closed-raised", 2: ":on_disconnect-raised", 3: ":result-boxed-after-close-in-callee"}


def oracle(ctx, p, st, case, step, valid):
    """the property's statement on the real objects; returns the signatures after which the history is abandoned"""
    sigs = []

    def viol(sig, what, observed, expected, fatal=True):
        if p.morphed and not st["closed"]:
            # the history changed a lent object's key; whatever goes wrong afterwards is reported under one signature
            observed = {"underlying": sig, "detail": observed, "objects_whose_key_changed": sorted(p.morphed)}
            sig, what = "release-lost-after-identity-change", ("the lent object's key (class / module registration) changed while it was lent; "
                                                               "its release notice is then lost: " + what)
        elif p.excluded and not st["closed"] and sig in ("count-mismatch", "leak-at-quiescence", "object-kept-alive-after-release", "foreign-entry"):
            obj = observed.get("object") if isinstance(observed, dict) else None
            kinds = [k for k, objs in sorted(p.excluded.items()) if obj is None or obj in objs] or sorted(p.excluded)
            observed = {"underlying": sig, "detail": observed, "situations": kinds}
            if kinds[0] == "failed-message":
                sig, what = "registered-by-failed-message-never-released", ("a request or reply could not be boxed / encoded after _box had registered "
                                                                            "the siblings passed by reference; they stay registered for ever: " + what)
            else:
                sig, what = "reference-consumed-without-proxy-never-released", ("the peer consumed a message but failed to unbox it (INSPECT of a sibling raised); "
                                                                                "the references it carried are never given back: " + what)
            fatal = False       # the history goes on (the model states the same outcome); later consequences carry the same signature
        if fatal:
            sigs.append(sig)
        ctx.violation(sig, dict(case, failed_step=step), observed=observed, expected=expected, what=what)
    if st["closed"]:
        left = [k for k, s in enumerate(st["slots"]) if s is not None] + p.foreign_keys()
        if p.empty_after_close is None:
            p.empty_after_close = not (left or len(p.A._local_objects._dict))
            if not p.empty_after_close:
                viol("close-leaves-entries" + CLOSE_FAULT[p.close_fault], "after closing, the owner's connection still references lent objects"
                     + (" (the callee closed the connection, then its result was boxed)" if p.close_fault == 3 else
                        " (a hook raised while closing)" if p.close_fault else ""), {"slots": st["slots"], "by_peer": p.close_by_peer}, "empty table")
        elif p.empty_after_close and (left or len(p.A._local_objects._dict)):
            viol("entry-added-after-close", "lending through the closed connection was refused, yet the object stays referenced by it for ever",
                 {"slots": st["slots"]}, "empty table")
        return sigs
    if not valid:
        return sigs
    if p.sa.n_keyerr:
        viol("keyerror-at-owner", "the owner answered a well-behaved peer's release notice / request through a proxy with a KeyError",
             {"keyerror_replies": p.sa.n_keyerr, "step": step}, "every LOCAL_REF and release notice finds its slot")
    for k in range(p.nobj):
        S = 0 if st["slots"][k] is None else st["slots"][k] + 1
        refs = sum(m[1].count(k) for m in st["qab"] if m[0] in ("call", "callraise")) + sum(1 for m in st["qab"] if m[0] == "replyref" and m[1] == k)
        dels = sum(m[2] for m in st["qba"] if m[0] == "del" and m[1] == k) + sum(1 for m in st["qba"] if m[0] == "del0" and m[1] == k)
        uses = sum(1 for m in st["qba"] if m[0] == "use" and k in m[1])
        live = sum(st["all_prox"][k])
        held = bool(st["all_prox"][k])
        if (held or refs or dels or uses) and st["slots"][k] is None:
            viol("released-while-held", "the owner's connection dropped an object although the peer holds a proxy / a reference, "
                 "release notice or request for it is in flight",
                 {"object": k, "slot": None, "live_proxy_counts": st["all_prox"][k], "refs_in_flight": refs, "dels_in_flight": dels,
                  "uses_in_flight": uses}, "entry present")
        elif S != refs + live + dels:
            viol("count-mismatch", "owner's count differs from references in flight + live proxy counts + release notices in flight",
                 {"object": k, "owner_accounts_for": S, "refs_in_flight": refs, "live_proxy_counts": st["all_prox"][k],
                  "dels_in_flight": dels}, "equal")
        if len(st["all_prox"][k]) > len(set(id(x) for x in p.held if p.idmap.get(_idp(x)) == k)):
            gc.collect()
            for rc, pinned in p.unheld_proxies(k):
                if pinned:
                    viol("proxy-pinned-by-last-traceback", "a call served by the peer raised; the peer connection's _last_traceback keeps the proxies "
                         "that were its arguments alive after the peer application dropped them, so their release notices are not sent "
                         "(until the next failing call or the close)", {"object": k, "proxy_count": rc},
                         "proxy finalized, release notice in flight", fatal=False)
                else:
                    viol("proxy-outlives-its-references", "the peer application dropped every reference to a proxy, but the proxy stays alive in "
                         "the peer's connection, so its release notice is never sent", {"object": k, "proxy_count": rc},
                         "proxy finalized, release notice in flight")
        if (held or refs or dels or uses) and not st["alive"][k]:
            viol("dead-while-held", "a lent object died although the peer can still reach it", {"object": k}, "alive")
        if not held and not refs and not dels:
            if st["slots"][k] is not None:
                viol("leak-at-quiescence", "no proxy and nothing in flight, but the owner's connection still references the object",
                     {"object": k, "slot": st["slots"][k]}, "entry absent")
            elif p.objs[k] is None and st["alive"][k]:
                gc.collect()
                o = p.wr[k]()
                if o is not None:
                    if tb_references(p.A._last_traceback, o):
                        viol("object-pinned-by-last-traceback", "a call on the lent object raised; the owner connection's _last_traceback keeps the "
                             "object alive after it was released and forgotten (until the next failing call or the close)", {"object": k},
                             "dead", fatal=False)
                    else:
                        viol("object-kept-alive-after-release", "released and forgotten by its owner, yet something keeps the object alive",
                             {"object": k}, "dead")
                del o
                st["alive"][k] = p.wr[k]() is not None
    if p.foreign_keys() and not p.morphed:
        viol("foreign-entry", "the owner's table holds an object that was never lent", {"keys": repr(p.foreign_keys())[:200]}, "none")
    if p.bad_results:
        viol("send-result-unexpected", "a lending call returned something else than None (or a call of the raising function did not raise)",
             p.bad_results[:3], "None")
    for (c, mode, is_exc, val) in p.use_results:
        good = (is_exc and val == "ValueError") if mode == 2 else (is_exc and val in ("ValueError", "RuntimeError")) if mode in (3, 5) \
            else True if mode == 4 else (not is_exc and (val == "ref" or val == c))
        if not good:
            viol("proxy-unusable", "an operation through a live proxy failed or reached another object",
                 {"proxy": c, "mode": mode, "is_exc": is_exc, "value": _show(val)[:80]}, "result of object %d" % c)
    p.use_results[:] = []
    return sigs


def compare(ctx, st, snap, step, op, case):
    """model snapshot vs implementation; True when equal"""
    def optl(x): return [None if not v else v[0] for v in x]
    m_slots, m_prox, m_holds, m_alive = optl(snap[0]), optl(snap[1]), list(snap[2]), [bool(v) for v in snap[3]]
    dec = lambda q: [[x.decode() if isinstance(x, bytes) else x for x in m] for m in q]
    m_qab, m_qba, m_closed = dec(snap[4]), dec(snap[5]), bool(snap[6])
    diffs = []
    if m_closed != st["closed"]:
        diffs.append(("closed", m_closed, st["closed"]))
    if m_slots != st["slots"]:
        diffs.append(("owner-counts", m_slots, st["slots"]))
    if m_alive != st["alive"]:
        diffs.append(("alive", m_alive, st["alive"]))
    if not m_closed:
        if m_prox != st["prox"]:
            diffs.append(("proxy-counts", m_prox, st["prox"]))
        if m_holds != st["holds"]:
            diffs.append(("peer-holds", m_holds, st["holds"]))
        if m_qab != st["qab"]:
            diffs.append(("in-flight-to-peer", m_qab, st["qab"]))
        if m_qba != st["qba"]:
            diffs.append(("in-flight-to-owner", m_qba, st["qba"]))
    for what, a, b in diffs[:1]:
        ctx.tie_broken("correspondence:" + what, "step %d %r: model %r impl %r; case %s" % (step, op, a, b, C.sx_dumps(case_sx(case))[:600]))
    return not diffs


def case_sx(case):
    return ["hist", case.get("params", STD_PARAMS), case["nobj"], [model_op(o) for o in case["ops"]]]


def run_history(ctx, case, snaps):
    """drive one history on a real pair; oracle after every step; correspondence when snaps is not None"""
    p = Pair(case["nobj"], case.get("kind", "function"))
    valid = True
    stats = {"refs_delivered": 0, "dels_served": 0, "uses_served": 0, "crossings": 0, "raising_calls_served": 0, "ops_after_close": 0}
    ok = True
    try:
        for i, op in enumerate(case["ops"]):
            if op[0] in ("rawdel", "rawlocal"):
                valid = False
            if p.closed:
                stats["ops_after_close"] += 1
            look = op[0] in ("dab", "dba") and not p.closed
            before_ab = p.in_flight(True) if look else None
            before_ba = p.in_flight(False) if look else None
            try:
                apply_op(p, op)
            except Exception as e:
                if valid:
                    ctx.violation("step-raised:" + C.exc_enum(e), dict(case, failed_step=i), observed="%s: %s" % (type(e).__name__, str(e)[:300]),
                                  expected="no exception", what="an operation of a well-behaved application raised (%r)" % (op,))
                else:
                    ctx.count("malformed:step-raised:" + C.exc_enum(e))
                break
            if op[0] == "dab" and before_ab:
                m = before_ab[0]
                stats["refs_delivered"] += len(m[1]) if m[0] in ("call", "callraise") else (1 if m[0] == "replyref" else 0)
                stats["raising_calls_served"] += m[0] == "callraise"
            if op[0] == "dba" and before_ba:
                m = before_ba[0]
                if m[0] == "del":
                    stats["dels_served"] += 1
                    if any(x[0] in ("call", "callraise") and m[1] in x[1] or x[0] == "replyref" and x[1] == m[1] for x in before_ab):
                        stats["crossings"] += 1
                elif m[0] == "use":
                    stats["uses_served"] += 1
                    stats["raising_calls_served"] += m[2] == 2
            try:
                st = observe(p)
                sigs = oracle(ctx, p, st, case, i, valid)
            except Exception as e:
                ctx.violation("state-not-observable:" + C.exc_enum(e), dict(case, failed_step=i), observed="%s: %s" % (type(e).__name__, str(e)[:300]),
                              expected="owner table / proxy cache / frames in flight can be read", what="the connection pair is in a state the harness cannot read after %r" % (op,))
                break
            if snaps is not None and ok:
                ctx.model_traces += 1
                ok = compare(ctx, st, snaps[i], i, op, case)
                if ok and not st["closed"] and int(snaps[i][7]) != p.sa.n_keyerr:
                    ctx.tie_broken("correspondence:errors", "step %d %r: model errs %r impl KeyError replies %r; case %s"
                                   % (i, op, snaps[i][7], p.sa.n_keyerr, C.sx_dumps(case_sx(case))[:600]))
                    ok = False
            if sigs:
                break
        if p.closed and p.empty_after_close and not p.A._local_objects._dict:
            # nothing of the closed connection keeps the lent objects alive
            for o in p.objs:
                if isinstance(o, types.ModuleType):
                    sys.modules.pop(o.__name__, None)
            o = None
            p.objs = [None] * p.nobj
            if any(p.alive()):
                gc.collect()
            if any(p.alive()):
                ctx.violation("object-kept-alive-after-close", dict(case, failed_step=len(case["ops"])), observed={"alive": p.alive()},
                              expected="all dead", what="the owner's connection was closed and the application forgot the objects, yet they stay alive")
    finally:
        stats["owner_exception_replies"] = p.sa.n_exc
        p.shutdown()
    return stats


# ------------------------------------------------------------------ unit level: RefCountingColl

def gen_coll_ops(r, n, nops):
    ops = []
    for _ in range(nops):
        c = r.random()
        k = r.randrange(n)
        if c < 0.45: ops.append([0, k])
        elif c < 0.85: ops.append([1, k, r.choice([1, 1, 1, 2, 2, 3, 0, 5, -1])])
        elif c < 0.97: ops.append([2, k])
        else: ops.append([3])
    return ops


def run_coll(n, ops):
    coll = RefCountingColl()
    objs = [object() for _ in range(n)]
    out = []
    for o in ops:
        try:
            if o[0] == 0: coll.add(o[1], objs[o[1]])
            elif o[0] == 1: coll.decref(o[1], o[2])
            elif o[0] == 2:
                if coll[o[1]] is not objs[o[1]]:
                    out.append("wrong-object"); continue
            else: coll.clear()
            out.append("ok")
        except Exception as e:
            out.append(C.exc_enum(e))
    out.append([[] if k not in coll._dict else [coll._dict[k][1]] for k in range(n)])
    return out


# ------------------------------------------------------------------ driver

def get_params(ctx):
    try:
        from tools.pygen import colls
        params = colls.params_sx(C.REPO)
    except Exception as e:
        ctx.count("params:fallback-std")
        params = STD_PARAMS
    FACTS["failed_send_releases"] = bool(params[11])
    return params


def nontrivial(stats):
    return stats["refs_delivered"] >= 1 and (stats["dels_served"] + stats["uses_served"] + stats["ops_after_close"]) >= 1


def run_cases(ctx, model, cases):
    res = model.batch([case_sx(c) for c in cases]) if model else None
    gc.collect()
    gc.freeze()     # the (large) model answers need not be traversed by the collections done while checking liveness
    was = gc.isenabled()
    gc.disable()    # cyclic garbage (dropped tracebacks) is collected at defined points only, see Pair._collect_dropped_traceback
    try:
        _run_cases(ctx, cases, res)
    finally:
        if was:
            gc.enable()
        gc.unfreeze()


def _run_cases(ctx, cases, res):
    slow = 0
    for i, c in enumerate(cases):
        if ctx.violations and slow >= 3:
            ctx.count("histories-skipped-after-violation", len(cases) - i)     # the check has failed already; do not wait for stalled peers
            break
        t1 = time.time()
        snaps = res[i] if res is not None and c.get("kind", "function") == "function" else None
        if snaps is not None and (not isinstance(snaps, list) or len(snaps) != len(c["ops"])):
            ctx.tie_broken("correspondence:model-output", "unexpected model answer %r" % (snaps,)[:300])
            snaps = None
        stats = run_history(ctx, c, snaps)
        slow += time.time() - t1 > 10
        ctx.case(("hist", c.get("kind", "function"), c["nobj"], repr(c["ops"])), nontrivial=nontrivial(stats),
                 sample={"objects": c["nobj"], "kind": c.get("kind", "function"), "flavour": c.get("flavour"), "ops": len(c["ops"]),
                         "first_ops": c["ops"][:8], "stats": stats})
        ctx.count("hist:" + c.get("flavour", "?") + ":" + c.get("kind", "function"))
        for k, v in stats.items():
            ctx.count(k, v)
        ctx.count("ops", len(c["ops"]))


CORPUS = [
    # the race of the property text and its variations
    (1, [["send", [0, 0], 0], ["dab"], ["dropall", 0], ["send", [0], 0], ["dba"], ["dba"], ["dab"]]),
    (1, [["send", [0], 0], ["dab"], ["dropall", 0], ["send", [0], 0], ["dba"], ["dba"], ["dab"]]),
    (1, [["send", [0], 0], ["send", [0], 0], ["dab"], ["dropall", 0], ["dba"], ["dba"], ["dab"], ["use", 0, [], 0], ["sync"]]),
    (2, [["send", [0, 1, 0], 2], ["dab"], ["use", 0, [1], 1], ["dropall", 1], ["dba"], ["dba"], ["dba"], ["dab"], ["dab"]]),
    (1, [["sendsync", [0] * 9, 1], ["drop1", 0]] + [["drop1", 0]] * 8 + [["dba"], ["dba"]]),
    (2, [["send", [0, 1], 0], ["dab"], ["forget", 0], ["dba"], ["dropall", 0], ["dba"], ["dba"]]),
    (2, [["send", [0, 1], 0], ["dab"], ["close", False, 0]]),
    (2, [["send", [0, 1], 0], ["dab"], ["dropall", 1], ["send", [1], 0], ["close", True, 0]]),
    (1, [["dab"], ["dba"], ["drop1", 0], ["dropall", 0], ["use", 0, [0], 1], ["sync"], ["send", [], 0], ["sync"]]),
    # a call on the lent object raises: the owner's connection keeps the traceback
    (1, [["sendsync", [0], 0], ["use", 0, [], 2], ["sync"], ["sync"], ["dropall", 0], ["sync"], ["sync"], ["forget", 0]]),
    # the peer's function raises: the peer's connection keeps the traceback and with it the proxy
    (1, [["sendraise", [0], 0], ["sync"], ["sync"], ["sendraise", [], 0], ["sync"], ["sync"]]),
    (2, [["sendraise", [0, 0], 1], ["dab"], ["send", [0], 0], ["dab"], ["dropall", 0], ["sendraise", [1], 0], ["dab"], ["dba"], ["dba"], ["dba"]]),
    # closing while a hook raises; lending through the closed connection
    (2, [["sendsync", [0, 1], 0], ["close", False, 1], ["forget", 0], ["forget", 1]]),
    (2, [["sendsync", [0, 1], 0], ["close", False, 2], ["forget", 0], ["forget", 1]]),
    (2, [["sendsync", [0, 1], 0], ["close", True, 2], ["forget", 0], ["forget", 1]]),
    (2, [["sendsync", [0], 0], ["close", False, 0], ["send", [0, 1], 0], ["sendsync", [1], 1], ["forget", 0], ["forget", 1]]),
    (1, [["sendsync", [0], 0], ["close", True, 0], ["send", [0], 0], ["forget", 0]]),
    # a sibling in the same message cannot be encoded / boxed (request, reply); the peer cannot unbox a sibling; the callee closes
    (1, [["sendsync", [0], 0], ["sendfail", [0], 0]]),
    (2, [["sendfail", [1, 0], 1], ["sendsync", [0], 0]]),
    (2, [["sendsync", [0, 1], 0], ["replyfail", 0, 1, 0]]),
    (1, [["sendsync", [0], 0], ["replyfail", 0, 0, 1]]),
    (2, [["sendsync", [0], 0], ["sendbadsib", [1, 0]]]),
    (1, [["sendbadsib", [0]]]),
    (2, [["sendsync", [0, 1], 0], ["closeincallee", 0, 1], ["send", [0], 0], ["forget", 0], ["forget", 1]]),
    (1, [["sendsync", [0], 0], ["close", False, 0], ["sendfail", [0], 0], ["sendbadsib", [0]], ["forget", 0]]),
]

CORPUS2 = [
    # two same-named classes held at overlapping times
    ("class", 2, [["send", [0], 0], ["dab"], ["send", [1], 0], ["dab"], ["use", 0, [], 0], ["use", 1, [], 0], ["sync"], ["sync"],
                  ["dropall", 0], ["sync"], ["send", [0], 0], ["sync"], ["sync"]]),
    ("class", 3, [["sendsync", [0, 1, 2, 1], 1], ["dropall", 1], ["send", [1, 0], 0], ["dba"], ["dba"], ["dab"]]),
    # the key of a lent object changes before the peer releases it
    ("instance", 1, [["sendsync", [0], 0], ["morph", 0], ["dropall", 0], ["sync"], ["sync"]]),
    ("module", 1, [["sendsync", [0], 0], ["morph", 0], ["dropall", 0], ["sync"], ["sync"]]),
    ("module", 2, [["sendsync", [0, 1, 0], 0], ["drop1", 0], ["send", [1], 0], ["dab"], ["dropall", 1], ["sync"]]),
    # the peer application has given up on a request (its result expired) before the reply, which carries a reference, arrives:
    # the reference is consumed by nobody, so it has to be released (A: the peer holds no other proxy of that object; B: it does)
    ("instance", 2, [["sendsync", [0, 1], 0], ["useexp", 0, [1], 1], ["dropall", 1], ["sync"], ["sync"], ["sync"]]),
    ("instance", 2, [["sendsync", [0, 1], 0], ["useexp", 0, [1], 1], ["sync"], ["sync"], ["dropall", 1], ["sync"], ["sync"]]),
    ("class", 2, [["sendsync", [0, 1, 1], 0], ["useexp", 0, [1], 1], ["dba"], ["drop1", 1], ["dab"], ["sync"], ["sync"]]),
]


def run(ctx):
    r = ctx.rng
    model = C.Model("refcount")
    model = model if model.available() else None
    params = get_params(ctx)
    ctx.coverage_extra["rule"] = (
        "histories over 1-4 lent objects generated from the seeded PRNG in six flavours (valid / failing: a sibling in the same request or reply that cannot be "
        "encoded or boxed, a sibling the peer cannot unbox because its INSPECT raises, a callee that closes the connection and returns by reference / biased to release notices crossing fresh "
        "references / raising: remote calls that raise at the owner or at the peer / boundary: 0..17 repeats in one tuple, operations on "
        "never-lent objects, deliveries on empty streams / malformed: release notices and local references the peer is not entitled to send), "
        "each followed by an epilogue that uses every live proxy, drops everything, drains and forgets the objects, or by a close from either side "
        "(also with a raising before_closed hook or on_disconnect) followed by further use of the closed connection; plus oracle-only histories "
        "with user-class instances, same-named classes and modules (nested HANDLE_INSPECT), also with the object's key changing while lent and with requests whose result has expired before the reply (carrying a reference) arrives, "
        "and unit-level call sequences on RefCountingColl. A history is non-trivial when at least one reference was delivered to the peer and "
        "at least one release notice or request through a proxy was served by the owner (or the closed connection was used again); distinct by "
        "operation list")
    ctx.coverage_extra["model_params"] = params
    cases = []
    for nobj, ops in CORPUS:
        body = list(ops)
        if not has_close(body):
            body += epilogue(nobj)
        cases.append({"nobj": nobj, "ops": body, "flavour": "corpus", "params": params})
    n_hist = 1500 if ctx.quick else 6000
    for i in range(n_hist):
        flavour = ("valid", "raising", "race", "failing", "boundary", "malformed", "valid", "raising", "race", "failing")[i % 10]
        nobj = r.choice([1, 2, 2, 3, 4])
        if ctx.quick:
            nops = r.choice([6, 12, 20, 30])
        else:
            nops = r.choice([10, 30, 30, 60, 120, 300])
        ops = gen_history(r, nobj, nops, flavour)
        if not has_close(ops):
            ops += epilogue(nobj)
        cases.append({"nobj": nobj, "ops": ops, "flavour": flavour, "params": params})
    run_cases(ctx, model, cases)
    # user-class instances, same-named classes, modules: oracle only
    cases2 = []
    for kind, nobj, ops in CORPUS2:
        body = list(ops)
        if not has_close(body):
            body += epilogue(nobj)
        cases2.append({"nobj": nobj, "ops": body, "flavour": "corpus", "kind": kind})
    n2 = 180 if ctx.quick else 1200
    for i in range(n2):
        kind = ("instance", "class", "instance", "class", "module", "instance")[i % 6]
        flavour = ("valid", "race", "boundary", "morph" if kind != "class" else "valid", "raising")[i % 5]
        nobj = r.choice([1, 2, 3])
        ops = gen_history(r, nobj, r.choice([8, 16, 30]) if ctx.quick else r.choice([16, 30, 80]), flavour, kind)
        for j, o in enumerate(ops):
            if o[0] == "drop1" and r.random() < 0.5:
                ops[j] = ["dropidx", r.randrange(1000)]
            if o[0] == "use" and _mode(o[3]) in (0, 1) and r.random() < 0.3:
                ops[j] = ["useexp"] + list(o[1:])
        if not has_close(ops):
            ops += epilogue(nobj)
        cases2.append({"nobj": nobj, "ops": ops, "flavour": flavour, "kind": kind})
    run_cases(ctx, None, cases2)
    # unit level
    n3 = 400 if ctx.quick else 4000
    colls = []
    for i in range(n3):
        n = r.choice([1, 2, 3])
        colls.append((n, gen_coll_ops(r, n, r.choice([4, 10, 25]))))
    res = model.batch([["coll", params, n, ops] for n, ops in colls]) if model else None
    for i, (n, ops) in enumerate(colls):
        out = run_coll(n, ops)
        ctx.case(("coll", n, repr(ops)), nontrivial=sum(1 for o in ops if o[0] == 1) >= 1, sample={"coll_ops": ops[:8], "result": out[-1]})
        ctx.count("coll")
        if res is not None:
            ctx.model_traces += 1
            m = [x.decode() if isinstance(x, bytes) else x for x in res[i]]
            if m != out:
                ctx.tie_broken("correspondence:RefCountingColl", "ops %r model %r impl %r" % (ops, m, out))


def replay(ctx, rep):
    case = rep["case"] or {}
    model = C.Model("refcount")
    model = model if model.available() else None
    if "ops" in case:
        c = {"nobj": case["nobj"], "ops": case["ops"], "flavour": case.get("flavour", "replay"), "kind": case.get("kind", "function"),
             "params": get_params(ctx)}
        run_cases(ctx, model if c["kind"] == "function" else None, [c])
