"""C11 — every way a connection can end leaves both sides clean, once, and nobody hanging.
Fault enumeration on the real code: two real Connections over fault-injecting in-memory streams; for each workload
a clean run counts the transport calls of each side, then the workload is re-run with a failure at every individual
poll/read/write call (writes also cut at byte offsets inside the packet) and with every order of the two close() calls.
The entry points each side went through are replayed in model/Lifecycle.v."""
import sys, itertools
from harness import common as C
from harness.memstream import MemStream

META = {
    "level": "proof",
    "level_text": "props/C11.v: one side as a state machine over its entry points (close(), the peer's close request, EOF/failure while reading in serve, EOF/failure while writing "
                  "from inside a dispatch; under wait or under serve_all); for EVERY history of entry points and every outcome of the transport calls they make: the disconnect hook "
                  "runs at most once, a side that reports closed has run it exactly once and released everything, a side that closes / is told to close / meets the failure while "
                  "serving is closed and clean when control returns, close is idempotent - all of it also when the service's disconnect hook raises (the hook outcome is a parameter "
                  "of every theorem; c11_raising_hook_refuted is the counterpart for a tree whose _cleanup does not clear in a finally, F25); the refutation for a tree whose "
                  "serve() does not close when EOFError escapes _dispatch (F6). 'Reports closed' is read at the moments control is back with the caller (entry points return): WHILE close() runs - inside the before_closed hook or a blocking "
                  "close request - `closed` is already True with the disconnect hook not yet run (protocol.py sets the flag first); another thread can observe that. "
                  "The second sentence over the requests of a side (c11_ended_nobody_waits, c11_no_phantom_value, c11_issue_after_end): once a side has ended every request "
                  "has its value exactly if the peer's reply was dispatched, else EOFError; threads BLOCKED in poll/wait at that moment are outside the model and are the "
                  "scheduler scenarios of the harness. These request theorems name the three generated facts they rest on (closed stream raises EOFError, _cleanup clears the callback table, "
                  "_async_request refuses a closed channel) and have refutations for a tree without them. close() is not atomic: ECloseServing is a close() during whose before_closed / root "
                  "request the peer's close request is served; with the guarded handler (generated fact handle_close_guarded) close() raises nothing of its own, with the raw cleanup as "
                  "handler it raises AttributeError (c11_close_while_serving_*; F91, fixed) - run for real over TCP loopback and compared with the model. "
                  "The guarded shapes of close/_cleanup/_handle_close/serve/serve_all are regenerated from the source; the harness injects a failure at every transport call and at "
                  "byte offsets inside packets for a family of workloads and all close orders, checks the property on both real sides and replays each side's entry points in the model.",
    "level_note": "Trusted: Coq kernel, pygen, extraction+driver, the fault-injecting MemStream (a failing call closes the stream and raises EOFError, as SocketStream does; the peer then "
                  "reads end-of-stream). Threads racing on one side's close() and __del__ timing are outside; 'nobody hanging' is observed under a virtual clock (every wait is bounded).",
    "technique": "Coq proof by induction over histories of entry points with universally quantified fault outcomes; generated guarded-shape facts; exhaustive single-fault enumeration on the real code",
    "gen": ["lifecycle", "stream", "protocol", "dispatch"],
    "shapes": ["lifecycle.*", "protocol.Connection.close", "protocol.Connection.serve", "protocol.Connection._handle_close", "stream.*",
               "protocol.Connection._cleanup", "protocol.Connection.serve_all", "protocol.Connection.poll", "protocol.Connection.poll_all", "protocol.Connection.sync_request",
               "protocol.Connection._async_request", "protocol.Connection._dispatch", "protocol.Connection._dispatch_response"],
    "models": ["lifecycle"],
    "model_files": ["Lifecycle"],
    "assumptions": ["a failed transport call closes the stream and raises EOFError; the peer of a closed stream reads end-of-stream"],
}

import rpyc, rpyc.lib
from rpyc.core.channel import Channel
from rpyc.core.protocol import Connection


class VClock:
    """virtual clock: advances only when a poll finds nothing to do"""
    def __init__(self): self.now = 1000.0
    def time(self): return self.now
    def sleep(self, d): self.now += d


class HookError(Exception):
    """what a misbehaving service's on_disconnect raises"""


class Tagged(object):
    tag = 7


class Svc(rpyc.Service):
    def __init__(self, name, hook_raises=False):
        self.name, self.hooks, self.kept, self.hook_raises = name, 0, [], hook_raises

    def on_disconnect(self, conn):
        self.hooks += 1
        if self.hook_raises:
            raise HookError("on_disconnect of %s" % self.name)

    def exposed_add(self, a, b): return a + b
    def exposed_mk(self): return [1, 2, 3]
    def exposed_mkobj(self): return Tagged()      # an instance of a user class: the requester asks for its class (nested request) while it rebuilds the reply
    def exposed_keep(self, o): self.kept.append(o); return len(self.kept)
    def exposed_nested(self, x, cb): return cb(x) + 1
    def exposed_fire(self, x, cb): rpyc.async_(cb)(x); return x * 2

    def on_connect(self, conn):
        self.conn = conn

    def exposed_bye(self):
        """the handler itself closes the connection it is being served on (its reply can then not be sent)"""
        try:
            self.conn.close()
        except HookError:
            pass
        return "bye"


class Hang(BaseException):
    """raised by the harness when a wait makes no progress for a long stretch of virtual time (a request that would hang)"""


class Fault:
    def __init__(self, side=None, index=None, partial=None):
        self.side, self.index, self.partial = side, index, partial


class FStream(MemStream):
    __slots__ = ("plan", "hit", "note")

    def write(self, data):
        p = self.plan
        if p and p.side == self.name and self.io_count == p.index and self.io_log is not None and not self._closed and p.partial is not None:
            # a write that fails after `partial` bytes have gone out
            self.io_count += 1
            self.io_log.append("write")
            k = max(0, min(p.partial, len(data)))
            if self.peer is not None and not self.peer._closed:
                self.peer.inbox += data[:k]
            self.hit = True
            self.note()
            self.close()
            raise EOFError("injected partial write (%d of %d bytes)" % (k, len(data)))
        return MemStream.write(self, data)


def make_pair(plan, clock, hook_raises=False, bc_raises=False):
    sa, sb = FStream("A"), FStream("B")
    sa.peer, sb.peer = sb, sa
    for s in (sa, sb):
        s.plan, s.hit = plan, False

    def fault_for(s):
        def f(kind, i):
            if plan and plan.side == s.name and plan.index == i and plan.partial is None:
                s.hit = True
                s.note()
                return True
            return False
        return f
    sa.fault, sb.fault = fault_for(sa), fault_for(sb)
    def bc(root):
        raise HookError("before_closed")
    extra = {"before_closed": bc} if bc_raises else {}      # something other than EOFError goes wrong inside close() (close_catchall is off)
    A = Connection(Svc("A", hook_raises), Channel(sa), config=dict({"sync_request_timeout": 5}, **extra))
    B = Connection(Svc("B", hook_raises), Channel(sb), config=dict({"sync_request_timeout": 5, "allow_public_attrs": True}, **extra))
    A._local_root.conn, B._local_root.conn = A, B        # (Connection built directly: Service._connect / on_connect did not run)
    log = {"A": [], "B": []}
    disp_eof = {"A": False, "B": False}
    must = {"A": set(), "B": set()}
    checks = []
    depth = {"A": 0, "B": 0}

    def noter(nm):
        # a transport call of this side fails while the side is inside serve(): whatever the failing call belonged to (reading, a reply,
        # a nested request made while rebuilding a reply - anything but a finalizer's release notice), serve() is where the end of the
        # connection is noticed - the side must end closed and clean
        def note():
            if depth[nm] <= 0:
                return
            f = sys._getframe(1)
            while f is not None:
                if f.f_code.co_name == "__del__":
                    return          # a release notice sent by a proxy's finalizer: finalizers swallow their errors by design, the side
                f = f.f_back        # notices the dead stream at its next poll (not at this call)
            must[nm].add("fault-inside-serve")
        return note
    sa.note, sb.note = noter("A"), noter("B")

    def instrument(name, conn, svc, ctx_of_serve):
        orig_close, orig_serve, orig_dispatch, orig_areq = conn.close, conn.serve, conn._dispatch, conn._async_request
        in_close = [False]

        def close():
            was = conn.closed
            outcome = [0]

            def areq(*a, **k):
                try:
                    return orig_areq(*a, **k)
                except EOFError:
                    outcome[0] = 1; raise
                except Exception:
                    outcome[0] = 2; raise
            if not was:
                conn._async_request = areq
            try:
                return orig_close()
            finally:
                conn._async_request = orig_areq
                log[name].append([0, outcome[0]])
                must[name].add("close")
                checks.append((name, "after close()", snapshot(conn, svc)))

        def dispatch(data):
            try:
                return orig_dispatch(data)
            except EOFError:
                disp_eof[name] = True
                raise

        def serve(timeout=1, wait_for_lock=True):
            disp_eof[name] = False
            depth[name] += 1
            try:
                return orig_serve(timeout, wait_for_lock)
            except EOFError:
                c = ctx_of_serve()
                if disp_eof[name]:
                    log[name].append([3, c]); must[name].add("dispatch-eof" + ("-serveall" if c else "-wait"))
                else:
                    log[name].append([2, c]); must[name].add("read-eof")
                if not c:
                    checks.append((name, "after EOFError out of serve()", snapshot(conn, svc)))
                raise
            finally:
                depth[name] -= 1
        conn.close, conn.serve, conn._dispatch = close, serve, dispatch
    return A, B, sa, sb, log, must, checks, instrument


def snapshot(conn, svc):
    return {"closed": bool(conn.closed), "hooks": svc.hooks, "has_root": conn._local_root is not None,
            "chan_open": not conn._channel.closed, "tables": len(conn._local_objects._dict) if hasattr(conn._local_objects, "_dict") else -1,
            "pending": len(conn._request_callbacks)}


WORKLOADS = ["sync", "async", "nested", "refs", "newobj", "fire", "closeinhandler", "pendingclose"]
CLOSES = ["AB", "BA", "A|B", "B|A", "A", "B", "none"]


def run_case(workload, closes, plan, hook_raises=False, bc_raises=False):
    clock = VClock()
    old_time = rpyc.lib.time
    rpyc.lib.time = clock
    orig_hc = Connection._handle_close
    try:
        A, B, sa, sb, log, must, checks, instrument = make_pair(plan, clock, hook_raises, bc_raises)
        serving_all = {"B": 0}
        instrument("A", A, A._local_root, lambda: 0)
        instrument("B", B, B._local_root, lambda: 1 if serving_all["B"] else 0)

        def handle_close(self):
            nm = "A" if self is A else "B"
            log[nm].append([1]); must[nm].add("handle-close")
            return orig_hc(self)
        Connection._handle_close = handle_close
        svcA, svcB = A._local_root, B._local_root
        results = []

        def pumpB():        # B runs serve_all
            if B.closed or sb._closed:
                if not B.closed:
                    pass
                return False
            if not sb.inbox and not sa._closed:
                return False
            serving_all["B"] += 1
            try:
                B.serve(0)
                return True
            except EOFError:
                try:
                    B.close()           # serve_all: except EOFError: pass; finally: self.close()
                except HookError:
                    pass
                return False
            except HookError:           # the serving thread dies with its service's own exception
                return False
            finally:
                serving_all["B"] -= 1

        def pumpA():        # A is a client: it serves only while it waits; nested callbacks are dispatched on its waiting stack
            if A.closed or sa._closed or not sa.inbox:
                return False
            try:
                if A._recvlock.locked():
                    data = A._channel.recv()
                    A._recvlock.release()
                    try:
                        A._dispatch(data)
                    finally:
                        A._recvlock.acquire()
                else:
                    A.serve(0)
                return True
            except (EOFError, HookError):
                return False

        idle = {"n": 0}

        def idleA():
            r = pumpB()
            if not r:
                clock.now += 1.0
                idle["n"] += 1
                if idle["n"] > 300:
                    idle["n"] = 0
                    raise Hang()
            else:
                idle["n"] = 0
            return r

        def idleB():
            r = pumpA()
            if not r:
                clock.now += 1.0
            return r
        sa.on_idle, sb.on_idle = idleA, idleB

        def req(label, fn, expect):
            try:
                v = fn()
                results.append((label, "value", v == expect if expect is not None else True))
            except EOFError:
                results.append((label, "EOFError", None))
            except TimeoutError:
                results.append((label, "timeout", None))
            except Hang:
                results.append((label, "hang", None))
            except HookError:            # the thread whose wait ran the cleanup gets its own service's exception: not a hang, not a value
                results.append((label, "hook-error" if (hook_raises or bc_raises) else "exc:HookError", None))
            except Exception as e:
                results.append((label, "exc:" + type(e).__name__, None))
        local_obj = [9]
        if workload == "sync":
            req("add", lambda: A.root.add(2, 3), 5)
            req("add2", lambda: A.root.add(10, 1), 11)
        elif workload == "async":
            def f():
                ar = rpyc.async_(A.root.add)(4, 5)
                ar2 = rpyc.async_(A.root.add)(1, 1)
                return (ar2.value, ar.value)
            req("async", f, (2, 9))
        elif workload == "nested":
            req("nested", lambda: A.root.nested(5, lambda x: x * 3), 16)
        elif workload == "refs":
            def f():
                lst = A.root.mk()
                lst.append(4)
                n = A.root.keep(local_obj)
                return (len(lst), n)
            req("refs", f, (4, 1))
        elif workload == "newobj":
            req("newobj", lambda: A.root.mkobj().tag, 7)
            req("add", lambda: A.root.add(2, 3), 5)
        elif workload == "closeinhandler":
            req("bye", lambda: A.root.bye(), "bye")           # value (if the reply got out first) or EOFError; never a hang
            req("after", lambda: A.root.add(1, 2), 3)
        elif workload == "pendingclose":
            def f():
                ar = rpyc.async_(A.root.add)(4, 5)            # B has not been pumped yet: the request is pending when B closes
                try:
                    B.close()
                except HookError:
                    pass
                return ar.value
            req("async", f, 9)
        elif workload == "fire":
            req("fire", lambda: A.root.fire(7, lambda x: x + 1), 14)
            req("after", lambda: A.root.add(1, 2), 3)
        seq = []
        for ch_ in closes:
            if ch_ == "|":
                if seq:
                    seq[-1] = (seq[-1][0], False)      # "A|B": B closes while A's close request is still unread (both at once)
            elif ch_ in "AB":
                seq.append((ch_, True))
        for who, pump_after in seq:
            if who in "AB":
                conn = A if who == "A" else B
                try:
                    conn.close()
                except EOFError:
                    results.append(("close" + who, "EOFError-from-close", None))
                except HookError:
                    results.append(("close" + who, "hook-error-from-close" if (hook_raises or bc_raises) else "exc-from-close:HookError", None))
                except Exception as e:
                    results.append(("close" + who, "exc-from-close:" + type(e).__name__, None))
                # let the other side notice (unless the other side is about to close at the same moment)
                for _ in range(3 if pump_after else 0):
                    if not (pumpB() or pumpA()):
                        break
        # a request issued after the end
        req("late", lambda: A.root.add(1, 1), 2)
        final = {"A": snapshot(A, svcA), "B": snapshot(B, svcB)}
        log = {k: [list(e) for e in v] for k, v in log.items()}       # entries up to here (later __del__ closes are not part of the run)
        must = {k: set(v) for k, v in must.items()}
        # closing again is a no-op
        again = {}
        for nm, conn, svc in (("A", A, svcA), ("B", B, svcB)):
            if conn.closed:
                before = snapshot(conn, svc)
                try:
                    conn.close()
                    again[nm] = (before == snapshot(conn, svc))
                except HookError:
                    again[nm] = "hook ran again"
                except Exception as e:
                    again[nm] = "raised " + type(e).__name__
        svcA.hook_raises = svcB.hook_raises = False      # connections never closed in this run are closed by __del__: keep that quiet
        A._config.pop("before_closed", None); B._config.pop("before_closed", None)
        return {"results": results, "final": final, "log": log, "must": {k: sorted(v) for k, v in must.items()}, "checks": checks,
                "io": {"A": list(sa.io_log), "B": list(sb.io_log)}, "hit": sa.hit or sb.hit, "again": again}
    finally:
        rpyc.lib.time = old_time
        Connection._handle_close = orig_hc


def gen_facts():
    return [C.gen_fact("lifecycle", k) for k in ("close_checks_closed_first", "close_sets_closed_before_io", "close_cleanup_in_finally", "close_swallows_eof",
                                                "cleanup_hook_once_guard", "cleanup_clears_in_finally", "serve_read_eof_closes", "serve_dispatch_eof_closes",
                                                "serve_all_finally_closes", "handle_close_guarded")]


def close_serving_phase(ctx, model, facts):
    """both sides close at once and one of them SERVES inside its own close(): close() sets the flag, then calls the before_closed hook
    with self.root - a request when the root was never fetched, and the hook's documented use is to talk to the peer - during which the
    peer's close request (already in the stream) is dispatched. One thread, real sockets (the request must be accepted by the transport
    although the peer is gone). Demanded: the closing side ends clean, its hook has run once, close() raises nothing of its own."""
    import socket as _socket
    from rpyc.core.stream import SocketStream

    class SvcH(rpyc.Service):
        def __init__(self): self.hooks = 0
        def on_disconnect(self, conn): self.hooks += 1
        def exposed_add(self, a, b): return a + b
    for variant in ("hook-calls-the-peer", "hook-idle-root-never-fetched"):
        # TCP over loopback: the first write after the peer has closed is still accepted (a unix socketpair refuses it at once)
        lst = _socket.socket(); lst.bind(("127.0.0.1", 0)); lst.listen(1)
        s1 = _socket.create_connection(lst.getsockname()); s2, _ = lst.accept(); lst.close()
        sa, sb = SvcH(), SvcH()
        bc = (lambda root: root.add(1, 2)) if variant == "hook-calls-the-peer" else (lambda root: None)
        A = Connection(sa, Channel(SocketStream(s1)), config={"before_closed": bc, "sync_request_timeout": 30})
        B = Connection(sb, Channel(SocketStream(s2)), config={})
        case = {"close_while_serving": variant}
        ctx.case(("close-serving", variant), nontrivial=True, sample=case)
        ctx.count("close-while-serving:" + variant)
        raised = None
        try:
            with C.time_limit(60):
                B.close()                   # its close request is now in A's stream, unread
                import time as _t; _t.sleep(0.05)
                try:
                    A.close()
                except BaseException as e:
                    if isinstance(e, C.Hang):
                        raise
                    raised = type(e).__name__
        except C.Hang as h:
            ctx.violation("close-while-serving-hangs:" + variant, case, observed=str(h)[-300:], expected="close() returns", what="close() did not return")
            continue
        finally:
            for s_ in (s1, s2):
                try: s_.close()
                except Exception: pass
        final = {"closed": bool(A.closed), "hooks": sa.hooks, "has_root": A._local_root is not None, "chan_open": not A._channel.closed, "raised": raised}
        if raised is not None or not (final["closed"] and final["hooks"] == 1 and not final["has_root"] and not final["chan_open"]):
            ctx.violation("close-while-serving:" + str(raised) + ":hooks-%d" % sa.hooks, case, observed=final, expected="closed, hook once, clean, nothing raised",
                          what="close() during whose before_closed/root request the peer's close request was served: the raw cleanup ran inside the handler and again at the end of close()")
        if model is not None:
            m = model.batch([[facts, 0, [[4, 1]], 1]])[0]          # ECloseServing with a write that meets EOFError (the peer is gone)
            ctx.model_traces += 1
            mside, mraised = m[0], m[1][0]
            want_raised = {None: 0, "EOFError": 1, "AttributeError": 2}.get(raised, 3)
            got = [int(final["closed"]), final["hooks"], int(final["has_root"]), int(final["chan_open"])]
            if [int(x) for x in mside] != got or int(mraised) != want_raised:
                ctx.tie_broken("correspondence:close-while-serving", "variant %s model %s raised %s impl %s raised %s" % (variant, mside, mraised, got, raised))


def clean(sn):
    return sn["closed"] and sn["hooks"] == 1 and not sn["has_root"] and not sn["chan_open"] and sn["tables"] in (0, -1)


def oracle(ctx, case, out):
    for nm in ("A", "B"):
        f = out["final"][nm]
        if f["hooks"] > 1:
            ctx.violation("disconnect-hook-ran-%d-times" % f["hooks"], case, observed=f, expected="at most once", what="the disconnect hook ran more than once")
        if f["closed"] and not clean(f):
            ctx.violation("reports-closed-but-not-clean", case, observed=f, expected="hook once, tables empty, channel closed", what="a side reports closed without having run its hook once / released what it held")
        for why in out["must"][nm]:
            if why == "dispatch-eof-wait" and not clean(f):
                ctx.violation("eof-in-dispatch-during-wait-leaves-side-open", case, observed=f, expected="closed and clean",
                              what="a transport failure while sending from inside a dispatch (during AsyncResult.wait) left the side open and its disconnect hook never ran")
            elif why != "dispatch-eof-wait" and not clean(f):
                ctx.violation("side-not-clean-after:" + why, case, observed=f, expected="closed and clean", what="a side that closed / was told to close / met the failure while serving is not closed and clean")
    for nm, when, sn in out["checks"]:
        if when == "after close()" and not clean(sn):
            ctx.violation("close-returned-but-not-clean", case, observed=sn, expected="closed and clean", what="close() returned on a side that is not closed and clean")
        if when.startswith("after EOFError") and "dispatch-eof-wait" not in out["must"][nm] and not clean(sn):
            ctx.violation("serve-raised-eof-but-side-not-clean", case, observed=sn, expected="closed and clean", what="serve() raised EOFError while reading but the side is not closed and clean")
    for label, kind, ok in out["results"]:
        if kind == "value" and ok is False:
            ctx.violation("request-returned-wrong-value", case, observed=(label, kind), expected="correct value or EOFError", what="a request returned a value the peer did not send")
        if kind == "hang":
            ctx.violation("pending-request-hangs", case, observed=(label, kind), expected="value or EOFError", what="a request with no expiry neither completed nor failed: it would hang forever")
        if kind == "timeout" and label == "async":
            ctx.violation("no-expiry-request-failed-with-timeout", case, observed=(label, kind), expected="value or EOFError",
                          what="a pending request that has no expiry failed with the timeout error instead of EOFError")
        elif kind == "timeout":
            # the peer in these runs answers at once or is gone: a synchronous request that runs into its 5 (virtual) second timeout was
            # not told about the end of the connection - it would have hung without the timeout
            ctx.violation("request-timed-out-instead-of-EOFError", case, observed=(label, kind), expected="value or EOFError",
                          what="a request on a connection that ended was left waiting until its own timeout instead of failing with EOFError")
        if kind.startswith("exc"):
            ctx.violation("request-failed-with:" + kind, case, observed=(label, kind), expected="value, EOFError or timeout", what="a request ended with something other than its value, EOFError or its timeout")
    for nm, v in out["again"].items():
        if v is not True:
            ctx.violation("close-again-not-noop", case, observed=v, expected="no-op", what="closing an already closed side changed something or raised")



def real_transport_phase(ctx):
    """the same endings over the REAL stream classes (the enumeration above replaces them by an in-memory stream): a PipeStream pair
    and a SocketStream pair; the peer vanishes abruptly (its descriptors are closed under it, nothing is sent), with nothing buffered
    or with a partial frame buffered. The surviving side must meet EOFError in serve(), be closed and clean, and its pending and
    later requests must fail with EOFError - none may hang (every wait is bounded by a watchdog, not by a request timeout)."""
    import os as _os, socket as _socket, struct as _struct
    from rpyc.core.stream import PipeStream, SocketStream

    def pipe_pair():
        r1, w1 = _os.pipe(); r2, w2 = _os.pipe()
        a = PipeStream(_os.fdopen(r1, "rb", 0), _os.fdopen(w2, "wb", 0))
        return a, (lambda: (_os.close(w1), _os.close(r2))), (lambda data: _os.write(w1, data))

    def sock_pair():
        s1, s2 = _socket.socketpair()
        return SocketStream(s1), (lambda: s2.close()), (lambda data: s2.sendall(data))
    for kind, mk in (("pipe", pipe_pair), ("socket", sock_pair)):
        for partial in (None, 3, 9):
            case = {"real_transport": kind, "partial_frame_bytes": partial}
            stream, kill_peer, feed = mk()
            svc = Svc("A")
            conn = Connection(svc, Channel(stream), config={})
            ctx.case(("real", kind, partial), nontrivial=True, sample=case)
            ctx.count("real-transport:" + kind)
            try:
                ar = conn.async_request(1, b"x")            # a pending request with no expiry (HANDLE_PING)
                cb_ran = []
                ar.add_callback(lambda r_: cb_ran.append(1))
                if partial:
                    feed((_struct.pack("!LB", 40, 0) + b"y" * 40)[:partial])     # the peer dies in the middle of a frame
                kill_peer()
                outcome = None
                try:
                    with C.time_limit(20):
                        try:
                            conn.serve(1)
                            outcome = "serve-returned"
                            ar.wait()
                            outcome = "wait-returned"
                        except EOFError:
                            outcome = "EOFError"
                except C.Hang:
                    outcome = "hang"
                sn = snapshot(conn, svc)
                if outcome != "EOFError":
                    ctx.violation("peer-vanished-but-no-EOFError:%s:%s" % (kind, outcome), case, observed=outcome, expected="EOFError",
                                  what="the peer's end of a real %s stream was closed abruptly; serving / waiting on the surviving side did not end with EOFError" % kind)
                elif not clean(sn):
                    ctx.violation("side-not-clean-after:peer-vanished:" + kind, case, observed=sn, expected="closed and clean", what="after meeting end-of-stream while serving the side is not closed and clean")
                elif partial is None:
                    # the pending request has failed: does a caller that POLLS it (ready / error / a registered callback) ever learn that?
                    polled = [bool(ar.ready) for _ in range(3)]
                    if not any(polled) and not ar.error and not cb_ran:
                        ctx.violation("pending-result-never-signals-failure-to-pollers", case, observed={"ready": polled, "error": bool(ar.error), "expired": bool(ar.expired), "callbacks_run": len(cb_ran)},
                                      expected="ready/error become true or the callback runs", what="after the connection ended a pending AsyncResult keeps answering ready=False, error=False and never runs its callbacks: "
                                      "only .value / .wait() raise EOFError, a caller that polls waits for ever")
                try:
                    with C.time_limit(20):
                        try:
                            conn.sync_request(1, b"late")
                            late = "value"
                        except EOFError:
                            late = "EOFError"
                except C.Hang:
                    late = "hang"
                if late != "EOFError":
                    ctx.violation("request-after-end:%s:%s" % (kind, late), case, observed=late, expected="EOFError", what="a request issued after the connection ended did not fail with EOFError")
            finally:
                try:
                    conn.close()
                except Exception:
                    pass
        # a thread of THIS side is blocked in wait() (no expiry) when another thread of this side calls close(): it must not hang
        import threading as _threading, time as _time
        case = {"real_transport": kind, "local_close_while_waiting": True}
        stream, kill_peer, feed = mk()
        svc = Svc("A")
        conn = Connection(svc, Channel(stream), config={})
        ctx.case(("real-local-close", kind), nontrivial=True, sample=case)
        ctx.count("real-transport:local-close-while-a-thread-waits:" + kind)
        got = []

        def waiter():
            try:
                conn.async_request(1, b"x").wait()
                got.append("returned")
            except EOFError:
                got.append("EOFError")
            except BaseException as e:
                got.append(type(e).__name__)
        th = _threading.Thread(target=waiter, daemon=True)
        th.start()
        t0 = _time.time()
        while not conn._recvlock.locked() and _time.time() - t0 < 20:      # until the waiter is inside poll, holding the receive lock
            _time.sleep(0.01)
        _time.sleep(0.05)
        try:
            conn.close()
        except Exception:
            pass
        th.join(8)
        if th.is_alive():
            ctx.violation("waiter-not-woken-by-local-close:" + kind, case, observed="still blocked 8 s after close() returned", expected="EOFError",
                          what="a thread blocked in wait() (no expiry) on a %s stream stays blocked after another thread of the same side closed the connection" % kind)
            kill_peer()        # lets the blocked thread go
            th.join(5)
        elif got != ["EOFError"]:
            ctx.violation("waiter-after-local-close-got:" + str(got)[:30] + ":" + kind, case, observed=got, expected="EOFError", what="a waiter whose connection was closed under it did not fail with EOFError")

def hook_closes_again_phase(ctx):
    """the disconnect hook itself calls conn.close() (applications do: 'make sure it is closed'), on the side that closes and on the side
    that is told to close by the peer: while the hook runs the side already reports closed, so the inner close() is a no-op and the hook
    runs once."""
    from harness.memstream import connect_pair

    class SvcR(rpyc.Service):
        def __init__(self): self.hooks = 0
        def on_disconnect(self, conn):
            self.hooks += 1
            if self.hooks < 5:
                conn.close()
    for who in ("closer", "told-to-close"):
        sa, sb = SvcR(), SvcR()
        A, B, _, _ = connect_pair(sa, sb, {}, {})
        case = {"hook_closes_again": who}
        ctx.case(("hook-closes-again", who), nontrivial=True, sample=case)
        ctx.count("hook-calls-close:" + who)
        raised = None
        try:
            with C.time_limit(60):
                A.close()
                for _ in range(4):
                    try:
                        B.serve(0)
                    except EOFError:
                        break
        except C.Hang:
            raise
        except BaseException as e:
            raised = type(e).__name__
        for nm, conn, svc in (("A", A, sa), ("B", B, sb)):
            if svc.hooks != 1 or not conn.closed or raised:
                ctx.violation("hook-runs-%d-times:close-from-inside-the-hook:%s" % (svc.hooks, "closing side" if nm == "A" else "side told to close"), case,
                              observed={"side": nm, "hooks": svc.hooks, "closed": bool(conn.closed), "raised": raised}, expected="hook once, closed, nothing raised",
                              what="the disconnect hook called close(): the side did not yet report closed while its hook ran, and the cleanup ran again")


def serve_all_other_failure_phase(ctx):
    """a failure that is NOT an end-of-stream, met at a transport call while a side is inside serve_all() (an I/O error of poll: EIO, EBADF;
    any exception other than EOFError out of serve): serve() itself closes only on EOFError, so what serve_all does on its way out decides
    whether the side ends closed and clean (seed C11-r10m1: `finally: self.close()` replaced by a plain statement after the try)."""
    import errno, gc, socket, threading, weakref
    import rpyc
    from rpyc.core.channel import Channel
    from rpyc.core.stream import SocketStream

    class Lent(object):
        def exposed_hello(self):
            return "hello"

    for errn, errname in ((errno.EIO, "EIO"), (errno.EBADF, "EBADF"), (None, "RuntimeError")):
        case = {"serve_all": "poll raises %s once, after one more answered request" % errname}
        ctx.case(("serve_all-other-failure", errname), nontrivial=True, sample=case)
        ctx.count("phase:serve_all-other-failure")

        class Svc(rpyc.Service):
            def __init__(self):
                self.disconnects = 0

            def on_disconnect(self, conn):
                self.disconnects += 1

            def exposed_echo(self, x):
                return x

            def exposed_lend(self):
                o = Lent()
                self.lent_ref = weakref.ref(o)
                return o

        class FaultyPoll(SocketStream):
            __slots__ = ("armed", "fired")

            def poll(self, timeout):
                if getattr(self, "armed", False) and not getattr(self, "fired", False):
                    self.fired = True
                    raise (OSError(errn, "injected failure at poll()") if errn is not None else RuntimeError("injected failure at poll()"))
                return SocketStream.poll(self, timeout)
        a, b = socket.socketpair()
        svc = Svc()
        st = FaultyPoll(a)
        st.armed = st.fired = False
        srv = svc._connect(Channel(st), {})
        t = threading.Thread(target=lambda: _swallow(srv.serve_all), daemon=True)
        t.start()
        cli = None
        try:
            with C.time_limit(60):
                cli = rpyc.connect_stream(SocketStream(b), config={"sync_request_timeout": 5})
                lent = cli.root.lend()
                lent.hello()
                echo = cli.root.echo
                st.armed = True
                try:
                    echo(42)            # (the failure may strike before or after this request is served: either way the side must end clean)
                except EOFError:
                    pass
                t.join(20)
                del lent
                gc.collect()
                obs = {"serving thread ended": not t.is_alive(), "closed": bool(srv.closed), "disconnect hook runs": svc.disconnects,
                       "objects still held for the peer": len(srv._local_objects._dict) if hasattr(srv._local_objects, "_dict") else None,
                       "lent object alive": svc.lent_ref() is not None}
                if t.is_alive() or not srv.closed or svc.disconnects != 1 or svc.lent_ref() is not None:
                    ctx.violation("fault-inside-serve_all:not-closed-and-clean:%s" % errname, case, observed=obs,
                                  expected={"serving thread ended": True, "closed": True, "disconnect hook runs": 1, "lent object alive": False},
                                  what="a failure other than end-of-stream left serve_all() and the side is not closed and clean: its disconnect hook never ran, "
                                       "it still holds what it lent, and its peer is not told (the peer's next request waits for its own timeout)")
        except C.Hang:
            ctx.violation("fault-inside-serve_all:hang:%s" % errname, case, observed="no end within 60 s", expected="the scenario ends", what="the scenario did not finish")
        finally:
            for c in (cli, srv):
                try:
                    if c is not None:
                        c.close()
                except Exception:           # noqa
                    pass


def _swallow(f):
    try:
        f()
    except BaseException:                   # noqa: what a server's per-client thread would log
        pass


def run(ctx):
    model = C.Model("lifecycle"); model = model if model.available() else None
    facts = gen_facts()
    close_serving_phase(ctx, model, facts)
    hook_closes_again_phase(ctx)
    serve_all_other_failure_phase(ctx)
    ctx.coverage_extra["rule"] = ("workloads {sync, async, nested callback, references both ways, a result of a class not seen before (nested class request while the reply is rebuilt), fire-and-forget callback} x close orders {AB, BA, A, B, none}; for each a clean run counts the "
                                  "(AB/BA: the second side closes after it has noticed; A|B, B|A: both close at once, each with the other's close request unread) - a clean run counts the "
                                  "transport calls of both sides, then one failure is injected at every individual poll/read/write call index of each side, and for writes additionally after "
                                  "k bytes of the packet (quick: k in {0,1,7,13}; thorough: a dozen offsets up to 40); non-trivial = a fault was actually hit; distinct by (workload, closes, fault)")
    mcases, meta = [], []
    total_points = 0
    for wl in WORKLOADS:
        for cl in (CLOSES if not ctx.quick else ["AB", "BA", "A|B", "B|A", "A", "none"]):
            base = run_case(wl, cl, None)
            oracle(ctx, {"workload": wl, "closes": cl, "fault": None}, base)
            ctx.case((wl, cl, None), nontrivial=True, sample={"workload": wl, "closes": cl, "io_calls": {k: len(v) for k, v in base["io"].items()}, "results": base["results"]})
            plans = []
            for side in ("A", "B"):
                n = len(base["io"][side])
                total_points += n
                for i in range(n):
                    plans.append(Fault(side, i, None))
                    if base["io"][side][i] == "write":
                        offs = [0, 1, 7, 13] if ctx.quick else [0, 1, 2, 4, 5, 6, 7, 9, 13, 20, 40]
                        for k in offs:
                            plans.append(Fault(side, i, k))
            bc_base = run_case(wl, cl, None, False, True)
            oracle(ctx, {"workload": wl, "closes": cl, "fault": None, "before_closed_raises": True}, bc_base)
            ctx.case((wl, cl, None, "before_closed"), nontrivial=True, sample={"workload": wl, "closes": cl, "before_closed_raises": True, "final": bc_base["final"], "results": bc_base["results"]})
            ctx.count("before_closed-hook-raises")
            hk_base = run_case(wl, cl, None, True)
            oracle(ctx, {"workload": wl, "closes": cl, "fault": None, "hook_raises": True}, hk_base)
            ctx.case((wl, cl, None, "hook"), nontrivial=True, sample={"workload": wl, "closes": cl, "hook_raises": True, "final": hk_base["final"], "results": hk_base["results"]})
            for nm in ("A", "B"):
                mcases.append([facts, 1, hk_base["log"][nm]]); meta.append(({"workload": wl, "closes": cl, "fault": None, "hook_raises": True}, nm, hk_base["final"][nm]))
            for p, hk in [(p, False) for p in plans] + [(p, True) for p in plans if p.partial is None]:
                out = run_case(wl, cl, p, hk)
                case = {"workload": wl, "closes": cl, "fault": [p.side, p.index, p.partial], "hook_raises": hk}
                ctx.case((wl, cl, p.side, p.index, p.partial, hk), nontrivial=out["hit"], sample={"case": case, "final": out["final"], "results": out["results"]})
                if hk:
                    ctx.count("disconnect-hook-raises")
                ctx.count("fault:" + (base["io"][p.side][p.index] if p.index < len(base["io"][p.side]) else "?") + ("-partial" if p.partial is not None else ""))
                for label, kind, ok in out["results"]:
                    ctx.count("outcome:" + kind)
                oracle(ctx, case, out)
                for nm in ("A", "B"):
                    mcases.append([facts, int(hk), out["log"][nm]]); meta.append((case, nm, out["final"][nm]))
    # threads blocked waiting when the stream ends (the multi-threaded part of "nobody hanging"): the scheduler scenarios of C13
    try:
        import random
        from harness import C13 as T
        for k in range(25 if ctx.quick else 600):
            nc = ctx.rng.choice([2, 2, 3]); bg = ctx.rng.random() < 0.5
            order = list(range(nc)); ctx.rng.shuffle(order)
            seed, stick, ea = ctx.rng.randrange(10**9), ctx.rng.choice([0.0, 0.2, 0.5]), ctx.rng.randrange(0, nc)
            chooser = T.make_chooser(seed, stick)
            out = T.scenario(nc, bg, order, chooser, sync_timeout=None, timeouts=[None] * nc, eof_after=ea)
            case = {"threads": {"clients": nc, "bg": bg, "order": order, "seed": seed, "stick": stick, "eof_after": ea}}
            ctx.case(("threads-eof", nc, bg, seed, ea), nontrivial=True)
            ctx.count("threads-blocked-at-end-of-stream")
            if out["deadlock"]:
                ctx.violation("waiter-hangs-after-end-of-stream", case, observed=out["deadlock"][:300], expected="EOFError for every blocked request",
                              what="after the stream ended a thread blocked waiting for its reply stayed blocked forever")
            for i in range(nc):
                rr = out["results"].get(i)
                if rr not in ("p%d" % i, "EXC:EOFError"):
                    ctx.violation("blocked-request-after-eof-got:" + str(rr)[:40], case, observed=rr, expected="its reply or EOFError",
                                  what="a request blocked waiting when the stream ended did not fail with EOFError")
    except ImportError:
        pass
    real_transport_phase(ctx)
    ctx.coverage_extra["io_points_enumerated"] = total_points
    ctx.coverage_extra["enumeration"] = "every transport call index of both sides; byte offsets inside a written packet are sampled (quick: 0,1,7,13)"
    if model and mcases:
        outs = model.batch(mcases)
        for (case, nm, f), m in zip(meta, outs):
            ctx.model_traces += 1
            got = [bool(m[0]), m[1], bool(m[2]), bool(m[3])]
            real = [f["closed"], f["hooks"], f["has_root"], f["chan_open"]]
            # the channel flag of a side that never ended is not part of the model's concern unless an entry point touched it
            if got[:3] != real[:3] or (real[0] and got[3] != real[3]):
                ctx.tie_broken("correspondence:final-side-state", "case %s side %s entries %s model %s real %s" % (case, nm, mcases[meta.index((case, nm, f))][2], got, real))


def replay(ctx, rep):
    cs = rep["case"]
    if "real_transport" in cs:
        real_transport_phase(ctx)
        return
    if "threads" in cs:
        import random
        from harness import C13 as T
        t = cs["threads"]; chooser = T.make_chooser(t["seed"], t["stick"])
        out = T.scenario(t["clients"], t["bg"], t["order"], chooser, sync_timeout=None, timeouts=[None] * t["clients"], eof_after=t["eof_after"])
        ctx.case(("replay", t["seed"]), True)
        if out["deadlock"]:
            ctx.violation("waiter-hangs-after-end-of-stream", cs, observed=out["deadlock"][:300], expected="EOFError", what="a blocked waiter stayed blocked forever after the stream ended")
        return
    p = Fault(*cs["fault"]) if cs.get("fault") else None
    out = run_case(cs["workload"], cs["closes"], p, bool(cs.get("hook_raises")), bool(cs.get("before_closed_raises")))
    oracle(ctx, cs, out)
    ctx.case(("replay", str(cs)), True)
