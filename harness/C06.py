"""C06 — attribute access by the peer follows the connection's policy, and only its own.

For every generated case BOTH
  * the property's own statement (a direct transcription of its text, `oracle`) is evaluated on the real
    rpyc objects: the real request handlers of a real Connection (dummy channel) are run on logging objects,
    and what was touched / which exception came out is compared with the statement;
  * the extracted Coq model (coq/model/Attr.v, run_attr) is run on the same case and compared with the
    implementation (full probe/touch trace, result, object afterwards) and with the oracle (its `spec`).
Phases: exhaustive sweep over the abstract decision domain (all 2^7 switch settings x prefix classes x name
classes x object shapes x operations); random structured cases (unicode prefixes and names, bytes names,
hooks, call-by-name, cmp/ctxexit/oldslicing routes); restricted() views; connection histories (isolation)."""
import copy, itertools, sys
from harness import common as C

META = {
    "level": "proof",
    "level_text": "Theorems in props/C06.v about the functions tools/pygen/attrpolicy.py regenerates from _check_attr/_access_attr on every run: "
                  "the decision equals the property's table at every point of the (finite) abstract domain - proved by kernel evaluation over enumerations "
                  "proved complete - and, lifted to concrete inputs, for every prefix, safe set, name (text, bytes, non-text) and attribute set; refusals have no effect; "
                  "own hooks and restricted views decide instead of the configuration ON EVERY BY-NAME ROUTE THAT HANDS THE OBJECT ITSELF TO _access_attr "
                  "(getattr, setattr, delattr, callattr, ctxexit, oldslicing); the cmp route hands over type(obj), so there the object's own hook is never asked "
                  "(route targets are generated and tied; c06_cmp_route_refuted_when_unrestricted / c06_cmp_route_only_comparisons); a Service instance denies set/del on itself under every configuration "
                  "(generated facts about class Service's hook bodies; every definition/binding of a _rpyc_*attr hook under rpyc/ is listed and tied); "
                  "the seven request handlers that take an attribute name (cmp, getattr, delattr, setattr, callattr, ctxexit, oldslicing) reach attributes only "
                  "through _access_attr with the matching hook/permission/builtin (c06_all_routes_checked_partial); isolation for every history of opens/classic "
                  "connects/closes/requests by an invariant over a heap of configuration dicts with aliasing, resting on three generated facts (fresh copy in "
                  "__init__, on_connect writes only the given connection, every write to any config dict under rpyc/ sits in __init__/on_connect so requests and "
                  "close write none), each shown necessary by a refuted-variant theorem. Proof is the right level: the decision domain is finite but large, the "
                  "isolation clause quantifies over unbounded histories.",
    "level_note": "cmp route: on the pinned tree the peer-chosen name is free there, so a method the object's hook refuses can be called by name (proposed finding "
                  "route:cmp:own-hook-bypassed, repair build/proposed_findings/C06_cmp.patch restricts the route to the comparison protocol); with the repair "
                  "comparisons are applied as Python applies operators: through the type, subject to the configuration, not to the instance's hook - stated as SCOPE. "
                  "Histories are sequences of ATOMIC opens: one service instance shared by connections that are opened concurrently can interleave "
                  "SlaveService.on_connect's `self._conn = conn; self._conn._config.update(...)` so that one connection's blanket grant lands on the other "
                  "connection of the same service (which grants itself the same) and not on its own - not modelled. NOT covered by the policy theorems (stated in props/C06.v, c06_route_exclusions): the thirteen handlers that take no attribute name. dir returns "
                  "the names dir(obj) lists, inspect returns names and docstrings of callables in the class dicts of type(obj) (also with allow_getattr off), pickle "
                  "returns the whole state gated by allow_pickle alone, repr/str/hash/call/buffiter/instancecheck run the object's special methods. For these the "
                  "harness only checks that they never write/delete, that dir/inspect do not depend on the seven switches and that pickle is refused iff allow_pickle "
                  "is off; their bodies and lib.get_methods are shape-snapshotted. That no other code path takes a peer-chosen attribute name rests on the "
                  "translator's syntactic scan of the handler bodies (getattr/setattr/delattr/hasattr/vars/__dict__ with a non-constant name). In the model a request "
                  "is a no-op on configurations because of the generated whole-tree write scan (third fact), not by analysis of each handler; the harness serves "
                  "requests of every handler kind inside histories and re-reads every configuration after each step. "
                  "Trusted: Coq kernel, pygen (expression translator for _check_attr/_access_attr, whole-tree scans), extraction + driver, harness. Abstraction: an "
                  "object is the set of attribute names it has (hasattr = membership) plus whether its type defines _rpyc_getattr/_rpyc_setattr/_rpyc_delattr; what "
                  "an object's own __getattr__/properties/hooks do once reached is outside; switch values are booleans; a str-subclass instance counts as not text "
                  "(type(name) is not str). Service subclasses written by users may override the hooks (then their hook decides, as the property says).",
    "technique": "translator tie (decision functions are generated from the code) + exhaustive kernel evaluation over a complete enumeration + invariant proof over "
                 "histories + differential correspondence of the extracted model, exhaustive over the abstract domain",
    "gen": ["attrpolicy"],
    "shapes": ["attrpolicy.*"],
    "models": ["attr"],
    "model_files": ["Attr"],
    "assumptions": [
        "objects are modelled as attribute-name sets with optional _rpyc_* hooks; code run by an object's own __getattr__/descriptors/hooks is outside the property",
        "configuration switches are booleans and exposed_prefix is a str (the documented types)",
        "user code does not mutate conn._config or DEFAULT_CONFIG behind rpyc's back (the whole-tree scan covers rpyc/ only)",
    ],
}

from rpyc.core import consts
from rpyc.core import protocol as P
from rpyc.core import service as S
from rpyc.utils import helpers as H

SW = ["allow_safe_attrs", "allow_exposed_attrs", "allow_public_attrs", "allow_all_attrs",
      "allow_getattr", "allow_setattr", "allow_delattr"]
PERMKEY = {"get": "allow_getattr", "set": "allow_setattr", "del": "allow_delattr", "call": "allow_getattr"}
PERMIDX = {"get": 0, "set": 1, "del": 2, "call": 0}
HANDLER = {"get": consts.HANDLE_GETATTR, "set": consts.HANDLE_SETATTR, "del": consts.HANDLE_DELATTR,
           "call": consts.HANDLE_CALLATTR}
DEFAULT_SNAPSHOT = copy.deepcopy(P.DEFAULT_CONFIG)
DEFAULT_SAFE_ID = id(P.DEFAULT_CONFIG.get("safe_attrs"))
SMALL_SAFE = ("__len__", "__safe__", "next")


class Ch(object):
    """a channel that goes nowhere"""
    closed = False

    def close(self):
        self.closed = True

    def send(self, data):
        pass

    def recv(self):
        raise EOFError("dummy")

    def poll(self, timeout):
        return False

    def fileno(self):
        return -1


def T(s):
    return [ord(c) for c in s]


def untext(l):
    return "".join(map(chr, l))


# ---------------------------------------------------------------- logging objects

LOG = []


class Callee(object):
    """attribute value: remembers which attribute it is, logs calls"""

    def __init__(self, tag):
        object.__setattr__(self, "tag", tag)

    def __call__(self, *a, **k):
        LOG.append(("called", self.tag))
        return ("ret", self.tag)


def _mk_class(hg, hs, hd, meta=type):
    ns = {}

    def __getattribute__(self, n):
        LOG.append(("get", n))
        return object.__getattribute__(self, n)

    def __setattr__(self, n, v):
        LOG.append(("set", n))
        object.__setattr__(self, n, v)

    def __delattr__(self, n):
        LOG.append(("del", n))
        object.__delattr__(self, n)
    ns.update(__getattribute__=__getattribute__, __setattr__=__setattr__, __delattr__=__delattr__)
    if hg:
        def _rpyc_getattr(self, name):
            LOG.append(("hook-get", name))
            return Callee("hook:" + name) if isinstance(name, str) else None
        ns["_rpyc_getattr"] = _rpyc_getattr
    if hs:
        def _rpyc_setattr(self, name, value):
            LOG.append(("hook-set", name))
        ns["_rpyc_setattr"] = _rpyc_setattr
    if hd:
        def _rpyc_delattr(self, name):
            LOG.append(("hook-del", name))
        ns["_rpyc_delattr"] = _rpyc_delattr
    return meta("L%d%d%d" % (hg, hs, hd), (object,), ns)


CLASSES = {h: _mk_class(*h) for h in itertools.product((0, 1), repeat=3)}


# attributes every instance of the logging classes has without being given them (object's methods, __dict__, hooks ...):
# cases that involve one of them are restricted to plain reads, and their presence is taken from the class
INHERENT = set()
for _c in CLASSES.values():
    INHERENT |= set(dir(_c()))


def class_has(o, x):
    """does o have attribute x without having been given it (found on its class, not on the metaclass)"""
    return any(x in k.__dict__ for k in type(o).__mro__)


def make_obj(attrs, hooks=(0, 0, 0)):
    o = CLASSES[tuple(hooks)]()
    for a in attrs:
        object.__setattr__(o, a, Callee(a))
    return o


def inst_attrs(o):
    return sorted(object.__getattribute__(o, "__dict__"))


class StrSub(str):
    pass


OTHER_NAMES = {"int": lambda: 5, "none": lambda: None, "tuple": lambda: ("a",), "bytearray": lambda: bytearray(b"pub"),
               "strsub": lambda: StrSub("pub"), "float": lambda: 1.5, "list": lambda: ["pub"], "callee": lambda: Callee("x")}


def name_value(nm):
    """nm: ['str', [cps]] | ['bytes', hex] | ['other', tag]"""
    if nm[0] == "str":
        return untext(nm[1])
    if nm[0] == "bytes":
        return bytes.fromhex(nm[1])
    return OTHER_NAMES[nm[1]]()


def name_text(nm):
    """the text of a name, or None when it is not text"""
    if nm[0] == "str":
        return untext(nm[1])
    if nm[0] == "bytes":
        try:
            return bytes.fromhex(nm[1]).decode("utf8")
        except UnicodeDecodeError:
            return None
    return None


def name_sx(nm):
    if nm[0] == "str":
        return [0, list(nm[1])]
    if nm[0] == "bytes":
        return [1, bytes.fromhex(nm[1])]
    return [2]


def cfg_sx(cfg):
    return [[int(bool(cfg[k])) for k in SW], T(cfg["exposed_prefix"]), [T(x) for x in sorted(cfg["safe_attrs"])]]


def cfg_dict(sw_bits, prefix, safe):
    d = dict(zip(SW, [bool(b) for b in sw_bits]))
    d["exposed_prefix"] = prefix
    d["safe_attrs"] = set(safe)
    return d


# ---------------------------------------------------------------- the property statement, transcribed

def oracle(cfg, op, nm, has, hook):
    """what the property says must happen.  has(text) -> bool (the object has that attribute).
    returns ('TypeError',) | ('AttributeError',) | ('hook', text) | ('touch', final)"""
    text = name_text(nm)
    if text is None:
        return ("TypeError",)                       # a name that is not text
    if hook:
        return ("hook", text)                       # objects that define their own hooks decide instead
    if not cfg[PERMKEY[op]]:
        return ("AttributeError",)                  # the kind of operation must be enabled
    prefix = cfg["exposed_prefix"]
    allowed = (cfg["allow_all_attrs"]                                               # everything
               or (cfg["allow_exposed_attrs"] and text.startswith(prefix))           # exposed-prefix
               or (cfg["allow_safe_attrs"] and text in cfg["safe_attrs"])            # safe-list
               or (cfg["allow_public_attrs"] and not text.startswith("_")))          # public
    twin = bool(cfg["allow_exposed_attrs"] and prefix != "" and has(prefix + text))  # exposed-prefixed twin on the object
    if allowed and (not twin or has(text)):
        return ("touch", text)
    if twin:
        return ("touch", prefix + text)             # which is then what is accessed
    if allowed:
        return ("touch", text)
    return ("AttributeError",)


OPEN_TIME_SITES = ("rpyc/core/protocol.py:Connection.__init__", "rpyc/core/service.py:SlaveService.on_connect")


def gen_facts():
    """the generated facts of the tree under test (the model is run with them).  Translated afresh from C.REPO rather
    than read from coq/gen: that directory is shared with concurrently running checks of other trees."""
    import re
    f = {"decode_guarded": False, "init_copies_defaults": True, "init_updates_own": True, "on_connect_updates_own": True,
         "service_denies_set": True, "service_denies_del": True, "requests_leave_config": True}
    try:
        from tools.pygen import attrpolicy
        for it in attrpolicy.translate(C.REPO):
            if it.kind == "typed" and it.name in f and it.coq_term in ("true", "false"):
                f[it.name] = it.coq_term == "true"
            if it.kind == "typed" and it.name == "config_writes":      # Attr.writes_at_open_only
                sites = re.findall(r'\("([^"]*)"%string, "', it.coq_term)
                f["requests_leave_config"] = all(x in OPEN_TIME_SITES for x in sites)
    except Exception:
        pass
    return f


# ---------------------------------------------------------------- one access on the implementation

def run_impl(conn, op, name, o):
    """real request handler, through the connection's dispatch table"""
    del LOG[:]
    h = conn._HANDLERS[HANDLER[op]]
    try:
        if op == "get":
            r = h(conn, o, name)
        elif op == "set":
            r = h(conn, o, name, Callee("NEW"))
        elif op == "del":
            r = h(conn, o, name)
        else:
            r = h(conn, o, name, (1, 2), ())
        if isinstance(r, Callee):
            res = ("ok", "value:" + r.tag)
        elif isinstance(r, tuple) and len(r) == 2 and r[0] == "ret":
            res = ("ok", "returned:" + r[1])
        else:
            res = ("ok", repr(r))
    except Exception as e:
        res = ("exc", C.exc_enum(e))
    return res, list(LOG)


def access_case(cfg, op, nm, attrs, hooks):
    return {"kind": "access", "switches": [int(bool(cfg[k])) for k in SW], "prefix": T(cfg["exposed_prefix"]),
            "safe": [T(x) for x in sorted(cfg["safe_attrs"])], "op": op, "name": nm, "attrs": [T(a) for a in attrs],
            "hooks": list(hooks)}


def describe(case):
    return "switches=%s prefix=%r op=%s name=%r attrs=%r hooks=%s" % (
        "".join(map(str, case["switches"])), untext(case["prefix"]), case["op"],
        name_value(case["name"]) if case["name"][0] != "other" else case["name"][1],
        [untext(a) for a in case["attrs"]], case["hooks"])


class Batch(object):
    """collects access cases, evaluates implementation + oracle immediately, model in one batch at the end"""

    def __init__(self, ctx, model, facts):
        self.ctx, self.model, self.facts = ctx, model, facts
        self.pending = []
        self.conns = {}

    def conn_for(self, cfg):
        key = (tuple(bool(cfg[k]) for k in SW), cfg["exposed_prefix"], tuple(sorted(cfg["safe_attrs"])))
        c = self.conns.get(key)
        if c is None:
            if len(self.conns) > 4096:
                self.flush_conns()
            c = P.Connection(S.VoidService(), Ch(), dict(cfg, safe_attrs=set(cfg["safe_attrs"])))
            self.conns[key] = c
        return c

    def flush_conns(self):
        for c in self.conns.values():
            c._closed = True           # nothing to send, nothing to clean up
        self.conns.clear()

    def add(self, cfg, op, nm, attrs, hooks, phase):
        ctx = self.ctx
        attrs = sorted(set(attrs))
        conn = self.conn_for(cfg)
        o = make_obj(attrs, hooks)
        text = name_text(nm)
        prefix = cfg["exposed_prefix"]

        def has(x):
            return x in attrs or class_has(o, x)
        hook = bool(hooks[PERMIDX[op]])
        exp = oracle(cfg, op, nm, has, hook)
        res, log = run_impl(conn, op, name_value(nm), o)
        after = inst_attrs(o)
        case = access_case(cfg, op, nm, attrs, hooks)
        nontrivial = text is not None and (hook or bool(cfg[PERMKEY[op]]))
        ctx.case(("access", tuple(case["switches"]), tuple(case["prefix"]), tuple(map(tuple, case["safe"])), op, repr(nm),
                  tuple(map(tuple, case["attrs"])), tuple(hooks)), nontrivial=nontrivial,
                 sample={"case": describe(case), "expected": list(exp), "observed": list(res)})
        ctx.count("%s:%s:%s" % (phase, op, exp[0]))
        self.judge(case, exp, res, log, sorted(attrs), after, text, prefix, op)
        if self.model is not None:
            model_attrs = list(attrs) + [x for x in ((text, prefix + text) if text is not None else ()) if class_has(o, x) and x not in attrs]
            self.pending.append((case, exp, res, log, after, model_attrs,
                                 ["access", int(self.facts["decode_guarded"]), cfg_sx(cfg), PERMIDX[op], name_sx(nm),
                                  [[T(a) for a in model_attrs], int(hooks[0]), int(hooks[1]), int(hooks[2])]]))

    # ---- implementation-level oracle
    def judge(self, case, exp, res, log, before, after, text, prefix, op):
        ctx = self.ctx
        opk = "get" if op == "call" else op
        writes = [e for e in log if e[0] in ("set", "del")]
        hooks_called = [e for e in log if e[0].startswith("hook-")]
        calls = [e for e in log if e[0] == "called"]
        objlog = [e for e in log if e[0] in ("get", "set", "del")]

        def bad(sig, what, expected):
            ctx.violation(sig, case, observed={"result": res, "log": log, "attrs_after": after}, expected=expected,
                          what=what + " [" + describe(case) + "]")
        if exp[0] == "TypeError":
            if res == ("exc", "UnicodeError") and case["name"][0] == "bytes" and not objlog and not hooks_called and after == before:
                bad("bytes-name-not-utf8:UnicodeError-instead-of-TypeError",
                    "a bytes name that is not valid UTF-8 makes _access_attr raise UnicodeDecodeError, not TypeError/AttributeError", "TypeError, no effect")
            elif res != ("exc", "TypeError"):
                bad("not-text-name:%s:%s" % (case["name"][0], res[1] if res[0] == "exc" else "accepted"),
                    "a name that is not text did not fail with TypeError", "TypeError, no effect")
            elif objlog or hooks_called or calls or after != before:
                bad("not-text-name:effect", "a refused (non-text) name had an effect on the object", "no effect")
            return
        if exp[0] == "hook":
            want = ("hook-" + opk, exp[1])
            if hooks_called != [want] or objlog:
                bad("own-hook:%s:not-deciding" % opk, "the object's own hook did not decide alone", {"hook_calls": [want], "object_log": []})
            elif after != before:
                bad("own-hook:%s:object-changed" % opk, "object changed although its hook handled the access", "unchanged")
            elif res[0] != "ok":
                bad("own-hook:%s:%s" % (opk, res[1]), "access handled by the object's hook failed", "ok")
            return
        if exp[0] == "AttributeError":
            twin_probe = ("get", prefix + text)
            if res[0] == "ok" or writes or calls or after != before or any(e != twin_probe for e in objlog):
                what = "granted" if res[0] == "ok" else "effect"
                bad("refusal-expected:%s:%s" % (op, what),
                    "an access the configuration does not allow %s" % ("succeeded" if res[0] == "ok" else "touched the object"),
                    "AttributeError, no effect")
            elif res != ("exc", "AttributeError"):
                bad("refusal-expected:%s:%s" % (op, res[1]), "a refused access failed with the wrong exception", "AttributeError")
            return
        # exp = ('touch', final)
        final = exp[1]
        present = final in before or final in INHERENT
        probes_ok = all(e[0] == "get" and e[1] in (text, prefix + text) for e in objlog[:-1])
        if not objlog or objlog[-1] != (opk, final) or not probes_ok or len(writes) > (0 if opk == "get" else 1):
            reached = any(e[0] == opk and e[1] not in (text, prefix + text) for e in objlog) or (objlog and objlog[-1][0] == opk and objlog[-1] != (opk, final))
            sig = "grant-expected:%s:%s" % (op, "wrong-attribute" if reached else ("refused" if res[0] == "exc" else "not-touched"))
            bad(sig, "an access the configuration allows did not touch exactly the decided attribute", {"touch": [opk, final]})
            return
        if opk == "get":
            want = (("ok", ("value:" if op == "get" else "returned:") + final) if (present and final not in INHERENT) else None)
            if want is not None and res != want:
                bad("grant-expected:%s:wrong-result" % op, "granted read returned something else than the decided attribute", want)
            elif not present and res != ("exc", "AttributeError"):
                bad("grant-expected:%s:absent-not-AttributeError" % op, "allowed but absent attribute did not fail with AttributeError", "AttributeError")
            elif after != before:
                bad("grant-expected:%s:object-changed" % op, "a read changed the object", "unchanged")
            elif op == "call" and present and final not in INHERENT and calls != [("called", final)]:
                bad("grant-expected:call:not-called", "call-by-name did not call the decided attribute exactly once", [("called", final)])
        elif opk == "set":
            if res[0] != "ok" or after != sorted(set(before) | {final}):
                bad("grant-expected:set:wrong-result", "granted write did not set exactly the decided attribute", sorted(set(before) | {final}))
        else:
            if final in before:
                if res[0] != "ok" or after != sorted(set(before) - {final}):
                    bad("grant-expected:del:wrong-result", "granted delete did not delete exactly the decided attribute", sorted(set(before) - {final}))
            elif res != ("exc", "AttributeError") or after != before:
                bad("grant-expected:del:absent-not-AttributeError", "deleting an allowed but absent attribute did not fail with AttributeError", "AttributeError")

    # ---- correspondence with the model
    def finish(self):
        ctx = self.ctx
        self.flush_conns()
        if self.model is None or not self.pending:
            return
        outs = self.model.batch([p[-1] for p in self.pending])
        EV = {0: "get", 1: "set", 2: "del"}
        for (case, exp, res, log, after, model_attrs, _), out in zip(self.pending, outs):
            ctx.model_traces += 1
            try:
                (dec, mres, trace, touch, mattrs), spec = out
            except (TypeError, ValueError):
                ctx.tie_broken("correspondence:access", "model answered %r for %s" % (out, describe(case)))
                continue
            mtrace = [(EV[e[0]], untext(e[1])) for e in trace]
            ilog = [e for e in log if e[0] in ("get", "set", "del")]
            mr = ("ok",) if mres[0] == b"ok" else ("exc", mres[1].decode()) if mres[0] == b"exc" else (mres[0].decode(),)
            ir = ("ok",) if res[0] == "ok" else res
            # the model's specification against the transcription used by the oracle
            if spec[0] == b"exc":
                ms = (spec[1].decode(),)
            elif spec[0] == b"ok":
                ms = ("hook", untext(spec[1][1])) if spec[1][0] == 0 else ("touch", untext(spec[1][1]))
            else:
                ms = (spec[0].decode(),)
            if ms != exp:
                ctx.tie_broken("correspondence:spec-vs-oracle", "%s: Coq spec %r, oracle %r" % (describe(case), ms, exp))
            if exp[0] == "hook":
                if dec[0] != b"ok" or dec[1][0] != 0 or untext(dec[1][1]) != exp[1] or mtrace:
                    ctx.tie_broken("correspondence:hook", "%s: model %r" % (describe(case), dec))
                continue
            inherent_final = dec[0] == b"ok" and untext(dec[1][1]) in INHERENT
            if mtrace != ilog:
                ctx.tie_broken("correspondence:trace", "%s: model trace %r, implementation %r" % (describe(case), mtrace, ilog))
            elif mr != ir and not (inherent_final and case["op"] in ("get", "call")):
                ctx.tie_broken("correspondence:result", "%s: model %r, implementation %r" % (describe(case), mr, ir))
            else:
                extras = set(model_attrs) - set(case_attrs(case))     # attributes every object has, added for the model only
                if not inherent_final and sorted(set(untext(a) for a in mattrs)) != sorted(set(after) | extras):
                    ctx.tie_broken("correspondence:object", "%s: model attrs %r, implementation %r" % (describe(case), sorted(untext(a) for a in mattrs), after))
        self.pending = []


def case_attrs(case):
    return [untext(a) for a in case["attrs"]]


# ---------------------------------------------------------------- generators

def name_classes(prefix, rng=None):
    """one representative text name per class of the decision (relative to the prefix), plus boundary ones"""
    names = [prefix + "y", "__len__", "pub", "_priv", "__secret__", "zz_" + prefix, "", "_"]
    if prefix:
        names.append(prefix)                      # the bare prefix
        names.append(prefix[:-1] or "q")          # just short of the prefix
    return names


def sweep(ctx, b, prefixes, thorough):
    """exhaustive over switches x prefix class x name class x shape x operation"""
    other_tags = ["int", "strsub"] if not thorough else sorted(OTHER_NAMES)
    for bits in itertools.product((0, 1), repeat=7):
        for prefix in prefixes:
            cfg = cfg_dict(bits, prefix, SMALL_SAFE)
            texts = name_classes(prefix)
            for op in ("get", "set", "del"):
                for t in texts:
                    shapes = [(False, False), (True, False), (False, True), (True, True)] if prefix else [(False, False), (True, False)]
                    for hn, ht in shapes:
                        attrs = ([t] if hn else []) + ([prefix + t] if (ht and prefix) else [])
                        b.add(cfg, op, ["str", T(t)], attrs, (0, 0, 0), "sweep")
                # name kinds other than str: one shape each (they are decided before the configuration is read,
                # except valid bytes, which must behave as their text)
                b.add(cfg, op, ["bytes", b"pub".hex()], ["pub", prefix + "pub"], (0, 0, 0), "sweep")
                b.add(cfg, op, ["bytes", b"\xff".hex()], ["pub"], (0, 0, 0), "sweep")
                for tag in other_tags:
                    b.add(cfg, op, ["other", tag], ["pub"], (0, 0, 0), "sweep")
                # own hook for this operation / for another one
                hk = [0, 0, 0]
                hk[PERMIDX[op]] = 1
                b.add(cfg, op, ["str", T("_priv")], ["_priv"], tuple(hk), "sweep")
                hk2 = [1, 1, 1]
                hk2[PERMIDX[op]] = 0
                b.add(cfg, op, ["str", T("pub")], ["pub"], tuple(hk2), "sweep")
            b.add(cfg, "call", ["str", T("pub")], ["pub"], (0, 0, 0), "sweep")
            b.add(cfg, "call", ["str", T(prefix + "y")], [prefix + "y"], (0, 0, 0), "sweep")
            b.add(cfg, "call", ["str", T("m")], [prefix + "m", "m"] if prefix else ["m"], (0, 0, 0), "sweep")


PREFIX_POOL = ["exposed_", "", "x_", "_", "é_", "exposed", "__", "p€", "\U0001f600", "e"]
WORDS = ["a", "pub", "y", "m", "len", "x", "é", "€", "\U0001f600z", "a\x00b", "\ud800", "q" * 40, "A", "0", " "]
BAD_BYTES = [b"\xff", b"\xc3", b"\xe2\x82", b"\xed\xa0\x80", b"\xc0\x80", b"pub\xfe", b"\xf5\x80\x80\x80", b"\x80"]


def rand_text(r, prefix, safe):
    k = r.random()
    w = r.choice(WORDS)
    if k < 0.22:
        return prefix + w
    if k < 0.36:
        return r.choice(sorted(safe)) if safe else "__len__"
    if k < 0.52:
        return w
    if k < 0.64:
        return "_" + w
    if k < 0.74:
        return "__" + w + "__"
    if k < 0.80:
        return prefix + prefix + w
    if k < 0.86:
        return prefix[:-1] if prefix else ""
    if k < 0.90:
        return r.choice(["", "_", prefix])
    if k < 0.95:
        return w + prefix
    return r.choice(sorted(INHERENT))          # attributes every object has (read-only checks)


def rand_cfg(r, real_safe):
    bits = [r.random() < p for p in (0.55, 0.65, 0.4, 0.2, 0.8, 0.6, 0.6)]
    prefix = r.choice(PREFIX_POOL) if r.random() < 0.7 else "exposed_"
    if r.random() < 0.25:
        safe = set(real_safe) - INHERENT if r.random() < 0.5 else set(real_safe)
    else:
        safe = set(r.sample(["__len__", "__safe__", "next", "pub", "_priv", "é", prefix + "y", "", "__add__", "__iter__"], r.randint(0, 5)))
    return cfg_dict(bits, prefix, safe)


def random_cases(ctx, b, n):
    r = ctx.rng
    real_safe = set(DEFAULT_SNAPSHOT["safe_attrs"])
    cfg = rand_cfg(r, real_safe)
    for i in range(n):
        if i % 6 == 0:
            cfg = rand_cfg(r, real_safe)
        prefix = cfg["exposed_prefix"]
        text = rand_text(r, prefix, cfg["safe_attrs"])
        k = r.random()
        if k < 0.70:
            nm = ["str", T(text)]
        elif k < 0.84:
            try:
                nm = ["bytes", text.encode("utf8").hex()]
            except UnicodeEncodeError:
                nm = ["bytes", r.choice(BAD_BYTES).hex()]
        elif k < 0.92:
            nm = ["bytes", (r.choice(BAD_BYTES) if r.random() < 0.7 else text.encode("utf8", "replace") + r.choice(BAD_BYTES)).hex()]
        else:
            nm = ["other", r.choice(sorted(OTHER_NAMES))]
        t = name_text(nm)
        base = t if t is not None else "pub"
        attrs = set()
        if r.random() < 0.5:
            attrs.add(base)
        if r.random() < 0.5:
            attrs.add(prefix + base)
        for _ in range(r.choice([0, 0, 1, 2])):
            attrs.add(rand_text(r, prefix, cfg["safe_attrs"]))
        attrs = sorted(a for a in attrs if a not in INHERENT)
        hooks = tuple(int(r.random() < 0.12) for _ in range(3))
        inherent = t is not None and (t in INHERENT or prefix + t in INHERENT)
        op = "get" if inherent else r.choice(["get", "get", "set", "del", "call"])
        if op == "call" and hooks[0]:
            hooks = (0,) + hooks[1:]
        b.add(cfg, op, nm, attrs, hooks, "random")


# ---------------------------------------------------------------- other routes: cmp, ctxexit, oldslicing

class LogMeta(type):
    def __getattribute__(cls, n):
        LOG.append(("get", n))
        return type.__getattribute__(cls, n)


def route_case(kind, cfg, **kw):
    case = {"kind": kind, "switches": [int(bool(cfg[k])) for k in SW], "prefix": T(cfg["exposed_prefix"]),
            "safe": [T(x) for x in sorted(cfg["safe_attrs"])]}
    case.update(kw)
    return case


CMP_NAMES = ("__cmp__", "__eq__", "__ne__", "__lt__", "__le__", "__gt__", "__ge__")


def route_cmp(ctx, cfg, nm, have, inst_hook):
    """_handle_cmp: the attribute named by the peer is looked up on type(obj) and called with (obj, other).
    inst_hook: the class defines _rpyc_getattr, i.e. its instances decide about their own attributes.
    The statement: own hooks decide instead of the configuration, and a method is called by name only per policy.  On
    this route the comparison protocol (CMP_NAMES) is applied as Python applies operators - through the type, subject to
    the configuration (stated SCOPE of props/C06.v); any OTHER name must not get past an object's own hook."""
    prefix = cfg["exposed_prefix"]
    text = name_text(nm)
    conn = P.Connection(S.VoidService(), Ch(), dict(cfg))
    try:
        ns = {a: (lambda tag: (lambda self, other: LOG.append(("called", tag)) or ("ret", tag)))(a) for a in have}
        if inst_hook:
            def _rpyc_getattr(self, name):
                LOG.append(("hook-get", name))
                raise AttributeError("no")
            ns["_rpyc_getattr"] = _rpyc_getattr
        cls = LogMeta("K", (object,), ns)

        def has(x):
            return x in ns or hasattr(object, x)
        exp = oracle(cfg, "get", nm, has, False)
        del LOG[:]
        try:
            res = ("ok", conn._HANDLERS[consts.HANDLE_CMP](conn, cls(), 7, name_value(nm)))
        except Exception as e:
            res = ("exc", C.exc_enum(e))
        log = [e for e in LOG if e[0] in ("get", "called", "hook-get") and e[1] not in ("__class__",)]
    finally:
        conn._closed = True
    case = route_case("cmp", cfg, name=nm, have=[T(a) for a in have], inst_hook=bool(inst_hook))
    ctx.case(("cmp", tuple(case["switches"]), prefix, tuple(sorted(cfg["safe_attrs"])), repr(nm), tuple(have), inst_hook),
             nontrivial=bool(cfg["allow_getattr"]) and text is not None,
             sample={"cmp": repr(nm), "hooked": bool(inst_hook), "expected": list(exp), "observed": repr(res)})
    ctx.count("routes:cmp:%s:%s" % ("hooked" if inst_hook else "plain", exp[0]))
    gets = [e[1] for e in log if e[0] == "get"]
    called = [e[1] for e in log if e[0] == "called"]
    obs = {"result": repr(res), "log": log}
    refused = res == ("exc", "AttributeError") and not called and all(g in (prefix + (text or ""), text) for g in gets)
    if text is None:
        if res != ("exc", "TypeError") or called or gets:
            ctx.violation("route:cmp:not-text-name", case, observed=obs, expected="TypeError, no effect",
                          what="comparison by a name that is not text did not fail with TypeError without effect")
        return
    conform = exp[0] == "touch" and bool(gets) and gets[-1] == exp[1] and all(g in (prefix + text, text) for g in gets[:-1]) \
        and (exp[1] not in have or (res == ("ok", ("ret", exp[1])) and called == [exp[1]])) and (exp[1] in have or not called)
    if text not in CMP_NAMES:
        if refused:
            return
        if inst_hook:
            ctx.violation("route:cmp:own-hook-bypassed", case, observed=obs, expected="AttributeError: the object's own hook refuses every name",
                          what="HANDLE_CMP with a peer-chosen name reached a method of an object whose own _rpyc_getattr decides (and refuses) on every other route")
        elif not conform:
            ctx.violation("route:cmp:refusal-expected" if exp[0] != "touch" else "route:cmp:grant-expected", case, observed=obs, expected=list(exp),
                          what="call by name on the cmp route did not follow the configuration")
        return
    # the comparison protocol: the configuration decides on the type
    if exp[0] != "touch":
        if not refused:
            ctx.violation("route:cmp:refusal-expected", case, observed=obs, expected="AttributeError, no effect",
                          what="comparison by a name the configuration does not allow reached the type")
    elif exp[1] == text:
        if not conform:
            ctx.violation("route:cmp:grant-expected", case, observed=obs, expected={"touch": exp[1]},
                          what="comparison by an allowed name did not use the decided attribute")
    elif not (refused or conform):
        ctx.violation("route:cmp:wrong-result", case, observed=obs, expected={"touch": exp[1]}, what="comparison reached another attribute than the decided one")


def route_inst(ctx, cfg, route, nms, attrs, okind="plain", rattrs=()):
    """_handle_ctxexit (fixed name __exit__) and _handle_oldslicing (two peer-chosen names, the second a fallback), on a plain
    object, on an object with its own _rpyc_getattr (okind 'hooked'), or on a restricted() view listing rattrs"""
    prefix = cfg["exposed_prefix"]
    conn = P.Connection(S.VoidService(), Ch(), dict(cfg))
    try:
        if okind == "restricted":
            under = Under()
            for a in attrs:
                object.__setattr__(under, a, Callee(a))
            o = H.restricted(under, set(rattrs))
        else:
            o = make_obj(attrs, (1, 0, 0) if okind == "hooked" else (0, 0, 0))
        has2 = lambda x: x in attrs or x in INHERENT
        del LOG[:]
        try:
            if route == "ctxexit":
                rr = conn._HANDLERS[consts.HANDLE_CTXEXIT](conn, o, None)
            else:
                rr = conn._HANDLERS[consts.HANDLE_OLDSLICING](conn, o, name_value(nms[0]), name_value(nms[1]), 1, 5, ())
            res = ("ok", rr)
        except Exception as e:
            res = ("exc", C.exc_enum(e))
        log = list(LOG)
    finally:
        conn._closed = True
    case = route_case(route, cfg, names=nms, attrs=[T(a) for a in attrs], okind=okind, rattrs=[T(a) for a in rattrs])
    # per name: what the statement says happens when that name is read and the result called
    steps = []
    for nm in nms:
        t = name_text(nm)
        if t is None:
            steps.append(("exc", "TypeError", None))
        elif okind == "hooked":
            steps.append(("ok", "hook:" + t, None))
        elif okind == "restricted":
            steps.append(("ok", t, None) if (t in rattrs and t in attrs) else ("exc", "AttributeError", None))
        else:
            e = oracle(cfg, "get", nm, has2, False)
            steps.append(("ok", e[1], e) if (e[0] == "touch" and e[1] in attrs) else ("exc", "AttributeError", e))
    ctx.case((route, tuple(case["switches"]), prefix, tuple(sorted(cfg["safe_attrs"])), repr(nms), tuple(attrs), okind, tuple(rattrs)),
             nontrivial=bool(cfg["allow_getattr"]) or okind != "plain",
             sample={route: repr(nms), "object": okind, "expected": [list(x[:2]) for x in steps], "observed": repr(res)})
    ctx.count("routes:%s:%s:%s" % (route, okind, steps[0][0]))
    seq, outcome = [], None
    for st in steps:
        if st[0] == "ok":
            seq, outcome = [st[1]], ("ok", ("ret", st[1]))
            break
        outcome = ("exc", st[1])
    called = [e[1] for e in log if e[0] == "called"]
    reached = [e[1] for e in log if e[0] == "get"]
    texts = [name_text(nm) for nm in nms if name_text(nm) is not None]
    if okind == "plain":
        permitted = {st[2][1] for st in steps if st[2] and st[2][0] == "touch"} | {prefix + n for n in texts}     # decided attribute, twin probe
        # hasattr(obj, name) is looked at only for names that are allowed by themselves
        permitted |= {n for n in texts if oracle(cfg, "get", ["str", T(n)], lambda x: False, False) == ("touch", n)}
    elif okind == "hooked":
        permitted = set()
    else:
        permitted = {n for n in texts if n in rattrs}
    if res != outcome or called != seq or any(g not in permitted for g in reached) or any(e[0] in ("set", "del") for e in log):
        sig = "route:%s:policy-not-followed" % route if okind == "plain" else "route:%s:%s-object-not-deciding" % (route, okind)
        ctx.violation(sig, case, observed={"result": repr(res), "log": log}, expected={"result": outcome, "called": seq},
                      what="%s on a %s object reached an attribute against %s" % (route, okind, "the configuration" if okind == "plain" else "the object's own hook"))


CMP_OPS_POOL = ["__cmp__", "__eq__", "__lt__", "__ge__", "pubcmp", "_privcmp", "__mycmp__", "dump", "_rpyc_getattr"]


def routes_phase(ctx, rounds):
    """the handlers that reach attributes by a peer-chosen or fixed name other than get/set/del/callattr"""
    r = ctx.rng
    # the reviewer's case first: default configuration, a class whose hook refuses everything, a method with an exposed twin
    dflt = cfg_dict([DEFAULT_SNAPSHOT[k] for k in SW], DEFAULT_SNAPSHOT["exposed_prefix"], SMALL_SAFE)
    route_cmp(ctx, dflt, ["str", T("dump")], ["exposed_dump"], True)
    route_cmp(ctx, dflt, ["str", T("dump")], ["exposed_dump"], False)
    route_cmp(ctx, dflt, ["bytes", b"dump\xff".hex()], ["dump", "exposed_dump"], False)
    for i in range(rounds):
        cfg = rand_cfg(r, set(SMALL_SAFE))
        if r.random() < 0.5:
            cfg["safe_attrs"] = set(cfg["safe_attrs"]) | {"__exit__", "__getitem__", "__eq__", "__lt__"}
        prefix = cfg["exposed_prefix"]
        opname = r.choice(CMP_OPS_POOL + [prefix + "c"])
        have = sorted({a for a in (opname, prefix + opname) if r.random() < 0.5 and a not in ("_rpyc_getattr",)})
        k = r.random()
        nm = ["str", T(opname)] if k < 0.8 else ["bytes", opname.encode("utf8").hex()] if k < 0.88 else \
            ["bytes", (opname.encode("utf8") + r.choice(BAD_BYTES)).hex()] if k < 0.95 else ["other", r.choice(sorted(OTHER_NAMES))]
        route_cmp(ctx, cfg, nm, have, r.random() < 0.4)
        for route in ("ctxexit", "oldslicing"):
            names = ["__exit__"] if route == "ctxexit" else [r.choice(["__getitem__", "pubitem", "_g"]), r.choice(["__getslice__", "pubslice", "_s"])]
            attrs = sorted({a for n in names for a in (n, prefix + n) if r.random() < 0.6})
            nms = []
            for n in names:
                k = r.random()
                nms.append(["str", T(n)] if (k < 0.8 or route == "ctxexit") else ["bytes", n.encode().hex()] if k < 0.87 else
                           ["bytes", (n.encode() + r.choice(BAD_BYTES)).hex()] if k < 0.95 else ["other", r.choice(sorted(OTHER_NAMES))])
            okind = r.choice(["plain", "plain", "hooked", "restricted"])
            rattrs = sorted(r.sample(names + ["pub"], r.randint(0, len(names)))) if okind == "restricted" else []
            route_inst(ctx, cfg, route, nms, attrs, okind, rattrs)


# ---------------------------------------------------------------- restricted()

class Under(object):
    def __getattribute__(self, n):
        LOG.append(("get", n))
        return object.__getattribute__(self, n)

    def __setattr__(self, n, v):
        LOG.append(("set", n))
        object.__setattr__(self, n, v)

    def __delattr__(self, n):
        LOG.append(("del", n))
        object.__delattr__(self, n)


def restricted_one(ctx, model_cases, cfg, op, nm, rattrs, wattrs, uattrs, facts, container):
    conn = P.Connection(S.VoidService(), Ch(), dict(cfg))
    try:
        u = Under()
        for a in uattrs:
            object.__setattr__(u, a, Callee(a))
        cont = {"set": set, "list": list, "tuple": tuple, "frozenset": frozenset, "dict": lambda l: dict.fromkeys(l, 1)}[container]
        view = H.restricted(u, cont(rattrs), None if wattrs is None else cont(wattrs))
        res, log = run_impl(conn, op, name_value(nm), view)
        after = inst_attrs(u)
    finally:
        conn._closed = True
    text = name_text(nm)
    case = {"kind": "restricted", "switches": [int(bool(cfg[k])) for k in SW], "prefix": T(cfg["exposed_prefix"]),
            "safe": [T(x) for x in sorted(cfg["safe_attrs"])], "op": op, "name": nm, "rattrs": [T(a) for a in rattrs],
            "wattrs": None if wattrs is None else [T(a) for a in wattrs], "uattrs": [T(a) for a in uattrs], "container": container}
    listed = rattrs if op == "get" else (rattrs if wattrs is None else wattrs)
    ctx.case(("restricted", tuple(case["switches"]), cfg["exposed_prefix"], op, repr(nm), tuple(rattrs), None if wattrs is None else tuple(wattrs), tuple(uattrs)),
             nontrivial=text is not None, sample={"restricted": [op, repr(name_value(nm)) if nm[0] != "other" else nm[1], rattrs, wattrs], "observed": list(res)})
    ctx.count("restricted:%s:%s" % (op, "nottext" if text is None else ("listed" if text in listed else "unlisted")))
    writes = [e for e in log if e[0] in ("set", "del")]

    def bad(sig, what, expected):
        ctx.violation(sig, case, observed={"result": res, "log": log, "underlying_after": after}, expected=expected, what=what)
    if text is None:
        if res == ("exc", "UnicodeError") and nm[0] == "bytes" and not log and after == sorted(uattrs):
            bad("bytes-name-not-utf8:UnicodeError-instead-of-TypeError", "a bytes name that is not valid UTF-8 raises UnicodeDecodeError (restricted view)", "TypeError")
        elif res != ("exc", "TypeError") or log or after != sorted(uattrs):
            bad("restricted:not-text-name", "non-text name on a restricted view did not fail with TypeError without effect", "TypeError")
    elif op == "get":
        if text in rattrs:
            want = ("ok", "value:" + text) if text in uattrs else ("exc", "AttributeError")
            if log != [("get", text)] or res != want or after != sorted(uattrs):
                bad("restricted:get:listed-name-not-served", "reading a listed name of a restricted view did not read exactly it", want)
        elif res != ("exc", "AttributeError") or log or after != sorted(uattrs):
            bad("restricted:get:unlisted-name-reached", "reading an unlisted name of a restricted view reached the object or did not fail with AttributeError", "AttributeError, no effect")
    elif op == "set":
        if text in listed:
            if log != [("set", text)] or res[0] != "ok" or after != sorted(set(uattrs) | {text}):
                bad("restricted:set:listed-name-not-served", "writing a writable name of a restricted view did not write exactly it", "set")
        elif res != ("exc", "AttributeError") or log or after != sorted(uattrs):
            bad("restricted:set:unlisted-name-reached", "writing an unlisted name of a restricted view reached the object or did not fail with AttributeError", "AttributeError, no effect")
    else:
        if res != ("exc", "AttributeError") or writes or after != sorted(uattrs) or any(e[1] not in rattrs for e in log):
            bad("restricted:del:reached", "deleting through a restricted view affected or wrongly probed the underlying object", "AttributeError, no effect")
    model_cases.append((case, res, log, after,
                        ["restricted", int(facts["decode_guarded"]), cfg_sx(cfg), PERMIDX[op], name_sx(nm), [T(a) for a in rattrs],
                         [] if wattrs is None else [[T(a) for a in wattrs]], [[T(a) for a in uattrs], 0, 0, 0]]))


def restricted_phase(ctx, model, facts, n):
    r = ctx.rng
    pending = []
    pool = ["read", "write", "close", "pos", "_x", "exposed_read", "é", "", "seek"]
    for i in range(n):
        cfg = rand_cfg(r, set(SMALL_SAFE))
        if r.random() < 0.6:
            cfg["allow_delattr"] = True
        rattrs = sorted(r.sample(pool, r.randint(0, 4)))
        wattrs = None if r.random() < 0.4 else sorted(r.sample(pool, r.randint(0, 3)))
        uattrs = sorted(r.sample(pool, r.randint(1, 6)))
        k = r.random()
        t = r.choice(pool) if k < 0.85 else cfg["exposed_prefix"] + r.choice(pool)
        if k < 0.75:
            nm = ["str", T(t)]
        elif k < 0.88:
            nm = ["bytes", t.encode("utf8").hex()]
        elif k < 0.94:
            nm = ["bytes", r.choice(BAD_BYTES).hex()]
        else:
            nm = ["other", r.choice(sorted(OTHER_NAMES))]
        restricted_one(ctx, pending, cfg, r.choice(["get", "set", "del"]), nm, rattrs, wattrs, uattrs, facts,
                       r.choice(["set", "list", "tuple", "frozenset", "dict"]))
    restricted_model(ctx, model, pending)


def restricted_model(ctx, model, pending):
    if model is None or not pending:
        return
    EV = {0: "get", 1: "set", 2: "del"}
    outs = model.batch([p[-1] for p in pending])
    for (case, res, log, after, _), out in zip(pending, outs):
        ctx.model_traces += 1
        try:
            mres, trace, mattrs = out
        except (TypeError, ValueError):
            ctx.tie_broken("correspondence:restricted", "model answered %r" % (out,))
            continue
        mr = ("ok",) if mres[0] == b"ok" else ("exc", mres[1].decode()) if mres[0] == b"exc" else (mres[0].decode(),)
        ir = ("ok",) if res[0] == "ok" else res
        mt = [(EV[e[0]], untext(e[1])) for e in trace]
        if mr != ir or mt != log or sorted(untext(a) for a in mattrs) != after:
            ctx.tie_broken("correspondence:restricted", "%r: model %r %r %r, implementation %r %r %r"
                           % (case, mr, mt, sorted(untext(a) for a in mattrs), ir, log, after))


# ---------------------------------------------------------------- a Service instance as the object

def _mk_service_class(base, name):
    ns = {}

    def __getattribute__(self, n):
        LOG.append(("get", n))
        return object.__getattribute__(self, n)

    def __setattr__(self, n, v):
        LOG.append(("set", n))
        object.__setattr__(self, n, v)

    def __delattr__(self, n):
        LOG.append(("del", n))
        object.__delattr__(self, n)
    ns.update(__getattribute__=__getattribute__, __setattr__=__setattr__, __delattr__=__delattr__)
    return type(name, (base,), ns)


SVC_CLASSES = {"service": _mk_service_class(S.Service, "LService"), "void": _mk_service_class(S.VoidService, "LVoid"),
               "slave": _mk_service_class(S.SlaveService, "LSlave"), "classic": _mk_service_class(S.ClassicService, "LClassic")}
SVC_INHERENT = {k: set(dir(c())) for k, c in SVC_CLASSES.items()}


def service_one(ctx, pending, facts, cfg, svc, op, nm, attrs, blanket):
    """the service root as the object of a request: it denies set/del on itself whatever the configuration"""
    root = SVC_CLASSES[svc]()
    attrs = sorted(set(attrs))
    for a in attrs:
        object.__setattr__(root, a, Callee(a))
    conn = P.Connection(root, Ch(), dict(cfg))
    try:
        if blanket:                      # the blanket permissions of classic mode, on this connection
            S.SlaveService.on_connect(root, conn) if svc in ("slave", "classic") else conn._config.update(
                allow_all_attrs=True, allow_getattr=True, allow_setattr=True, allow_delattr=True, allow_exposed_attrs=False)
        eff = dict(cfg)
        for k in SW:
            eff[k] = bool(conn._config[k])
        res, log = run_impl(conn, op, name_value(nm), root)
        after = sorted(object.__getattribute__(root, "__dict__"))
    finally:
        conn._closed = True
    text = name_text(nm)
    case = {"kind": "service", "switches": [int(bool(cfg[k])) for k in SW], "prefix": T(cfg["exposed_prefix"]),
            "safe": [T(x) for x in sorted(cfg["safe_attrs"])], "svc": svc, "op": op, "name": nm, "attrs": [T(a) for a in attrs],
            "blanket": bool(blanket)}
    ctx.case(("service", tuple(case["switches"]), cfg["exposed_prefix"], svc, op, repr(nm), tuple(attrs), blanket), nontrivial=text is not None,
             sample={"service_root": [svc, op, repr(name_value(nm)) if nm[0] != "other" else nm[1], attrs, blanket], "observed": list(res)})
    ctx.count("service:%s:%s" % (op, "nottext" if text is None else "text"))
    objlog = [e for e in log if e[0] in ("get", "set", "del")]

    def bad(sig, what, expected):
        ctx.violation(sig, case, observed={"result": res, "log": log, "attrs_after": after}, expected=expected, what=what)
    if text is None:
        if res != ("exc", "TypeError") or objlog or after != attrs:
            bad("service-root:not-text-name", "non-text name on a service root did not fail with TypeError without effect", "TypeError, no effect")
    elif op in ("set", "del"):
        if res != ("exc", "AttributeError") or objlog or after != attrs:
            bad("service-root:%s:not-denied" % op, "a service did not deny %s on itself (configuration: %s)" % (op, "blanket" if blanket else "as given"),
                "AttributeError, no effect")
    else:
        inh = SVC_INHERENT[svc]
        exp = oracle(eff, op, nm, lambda x: x in attrs or x in inh, False)
        prefix = eff["exposed_prefix"]
        if exp[0] == "AttributeError":
            if res != ("exc", "AttributeError") or any(e != ("get", prefix + text) for e in objlog):
                bad("service-root:get:refusal-expected", "reading a service attribute the configuration does not allow", "AttributeError, no effect")
        elif exp[0] == "touch":
            if not objlog or objlog[-1] != ("get", exp[1]) or (exp[1] in attrs and res != ("ok", "value:" + exp[1])):
                bad("service-root:get:grant-expected", "reading a service attribute the configuration allows did not read the decided attribute", {"touch": exp[1]})
    inherent = text is not None and (text in SVC_INHERENT[svc] or eff["exposed_prefix"] + text in SVC_INHERENT[svc])
    if not inherent:
        pending.append((case, res, log, after,
                        ["service", int(facts["service_denies_set"]), int(facts["service_denies_del"]), int(facts["decode_guarded"]),
                         cfg_sx(eff), PERMIDX[op], name_sx(nm), [T(a) for a in attrs]]))


def service_model(ctx, model, pending):
    if model is None or not pending:
        return
    EV = {0: "get", 1: "set", 2: "del"}
    outs = model.batch([p[-1] for p in pending])
    for (case, res, log, after, _), out in zip(pending, outs):
        ctx.model_traces += 1
        try:
            mres, trace, mattrs = out
        except (TypeError, ValueError):
            ctx.tie_broken("correspondence:service", "model answered %r" % (out,))
            continue
        mr = ("ok",) if mres[0] == b"ok" else ("exc", mres[1].decode()) if mres[0] == b"exc" else (mres[0].decode(),)
        ir = ("ok",) if res[0] == "ok" else res
        mt = [(EV[e[0]], untext(e[1])) for e in trace]
        il = [e for e in log if e[0] in ("get", "set", "del")]
        if mr != ir or mt != il or sorted(untext(a) for a in mattrs) != after:
            ctx.tie_broken("correspondence:service", "%r: model %r %r %r, implementation %r %r %r"
                           % (case, mr, mt, sorted(untext(a) for a in mattrs), ir, il, after))


def service_phase(ctx, model, facts, n):
    r = ctx.rng
    pending = []
    pool = ["pub", "_priv", "exposed_m", "m", "__len__", "é", "_conn", "namespace", "exposed_namespace"]
    # deterministic core: every service class x set/del x as-given / blanket x permissive-as-possible configuration
    wide = cfg_dict([1, 1, 1, 1, 1, 1, 1], "exposed_", SMALL_SAFE)
    for svc in sorted(SVC_CLASSES):
        for op in ("set", "del", "get"):
            for blanket in (False, True):
                for t in ("pub", "exposed_m", "_priv"):
                    if svc in ("slave", "classic") and t in ("pub", "exposed_m", "_priv") and False:
                        continue
                    attrs = ["pub", "exposed_m"] if svc in ("service", "void") else []
                    service_one(ctx, pending, facts, wide, svc, op, ["str", T(t)], attrs, blanket)
    for i in range(n):
        cfg = rand_cfg(r, set(SMALL_SAFE))
        svc = r.choice(["service", "service", "void", "slave", "classic"])
        attrs = sorted(r.sample(pool[:6], r.randint(0, 4))) if svc in ("service", "void") else []   # Slave/Classic services have __slots__
        k = r.random()
        t = r.choice(pool)
        nm = ["str", T(t)] if k < 0.8 else ["bytes", t.encode("utf8").hex()] if k < 0.9 else ["bytes", r.choice(BAD_BYTES).hex()] if k < 0.95 \
            else ["other", r.choice(sorted(OTHER_NAMES))]
        service_one(ctx, pending, facts, cfg, svc, r.choice(["set", "del", "get", "set", "del"]), nm, attrs, r.random() < 0.4)
    service_model(ctx, model, pending)


# ---------------------------------------------------------------- the handlers that take no attribute name (outside the policy)

def whole_object_phase(ctx, n):
    """dir / inspect / pickle / repr / str / hash: what they do must not depend on the seven attribute switches, must never
    write or delete, and pickle must be refused (ValueError) exactly when allow_pickle is off"""
    from rpyc.lib import get_id_pack
    r = ctx.rng
    ref = {}
    for i in range(n):
        cfg = rand_cfg(r, set(SMALL_SAFE))
        cfg["allow_pickle"] = r.random() < 0.5
        attrs = sorted(r.sample(["pub", "_priv", "exposed_y", "__len__"], r.randint(0, 4)))
        conn = P.Connection(S.VoidService(), Ch(), dict(cfg))
        try:
            for h in ("dir", "inspect", "pickle", "repr", "str", "hash"):
                o = make_obj(attrs) if h != "pickle" else ("plain", 1, b"x")
                del LOG[:]
                try:
                    if h == "inspect":
                        conn._local_objects.add(get_id_pack(o), o)
                        del LOG[:]
                        out = ("ok", tuple(sorted(conn._HANDLERS[consts.HANDLE_INSPECT](conn, get_id_pack(o)))))
                    elif h == "pickle":
                        out = ("ok", conn._HANDLERS[consts.HANDLE_PICKLE](conn, o, 2))
                    else:
                        out = ("ok", conn._HANDLERS[getattr(consts, "HANDLE_" + h.upper())](conn, o))
                except Exception as e:
                    out = ("exc", C.exc_enum(e))
                log = [e for e in LOG if e[0] in ("get", "set", "del")]
                case = route_case("whole-object", cfg, handler=h, attrs=[T(a) for a in attrs], allow_pickle=bool(cfg["allow_pickle"]))
                ctx.case(("whole", h, tuple(case["switches"]), cfg["exposed_prefix"], tuple(attrs), cfg["allow_pickle"]), nontrivial=True,
                         sample={"whole_object": h, "observed": repr(out)[:80]})
                ctx.count("whole-object:%s:%s" % (h, out[0]))
                if any(e[0] in ("set", "del") for e in log):
                    ctx.violation("whole-object-route:%s:writes" % h, case, observed=log, expected="no write, no delete",
                                  what="a request that takes no attribute name wrote or deleted an attribute")
                if h == "pickle":
                    if bool(cfg["allow_pickle"]) != (out[0] == "ok") or (out[0] == "exc" and out[1] != "ValueError"):
                        ctx.violation("whole-object-route:pickle:not-gated-by-allow_pickle", case, observed=repr(out)[:120],
                                      expected="bytes iff allow_pickle else ValueError", what="pickling is not decided by allow_pickle alone")
                elif h in ("dir", "inspect"):
                    # independent of the seven switches: same attribute set -> same answer under every configuration seen
                    key = (h, tuple(attrs))
                    val = (out, tuple(log))
                    if ref.setdefault(key, val) != val:
                        ctx.violation("whole-object-route:%s:depends-on-attribute-switches" % h, case, observed=repr(val)[:300],
                                      expected=repr(ref[key])[:300], what="%s answered differently under a different attribute policy" % h)
        finally:
            conn._closed = True


# ---------------------------------------------------------------- isolation: histories of connections

class PresetRootConnection(P.Connection):
    """a Connection whose peer root is already known (so that MasterService.on_connect needs no IO)"""

    def __init__(self, *a, **k):
        P.Connection.__init__(self, *a, **k)
        self._remote_root = S.Slave()


class HVoid(S.VoidService):
    _protocol = PresetRootConnection


class HSlave(S.SlaveService):
    _protocol = PresetRootConnection


class HClassic(S.ClassicService):
    _protocol = PresetRootConnection


SERVICES = {"void": HVoid, "slave": HSlave, "classic": HClassic}


def project(cfgdict):
    """the attribute-related part of a configuration dict"""
    return {"switches": [cfgdict[k] for k in SW], "prefix": cfgdict["exposed_prefix"], "safe": sorted(cfgdict["safe_attrs"])}


def proj_sx(p):
    return [[int(bool(x)) for x in p["switches"]], T(p["prefix"]), [T(x) for x in p["safe"]]]


def upd_to_dict(upd):
    d = {}
    for k, v in upd:
        d[k] = set(v) if k == "safe_attrs" else v
    return d


def upd_sx(upd):
    out = []
    for k, v in upd:
        if k == "exposed_prefix":
            out.append([7, T(v)])
        elif k == "safe_attrs":
            out.append([8, [T(x) for x in sorted(v)]])
        else:
            out.append([SW.index(k), int(v)])
    return out


PROBES = [("get", "pub"), ("get", "_priv"), ("set", "pub"), ("del", "_priv"), ("get", "__len__"), ("get", "exposed_y"), ("set", "__secret__")]


def decisions(conn, cfgproj, shared=None):
    """run a probe set on a live connection and compare each decision with the statement under cfgproj.
    shared: long-lived objects of this history, read by EVERY connection (a per-object cache of decisions or values that
    is not per connection would let one connection's policy serve another)"""
    cfg = dict(zip(SW, cfgproj["switches"]))
    cfg["exposed_prefix"] = cfgproj["prefix"]
    cfg["safe_attrs"] = set(cfgproj["safe"])
    bad = []
    for op, name in PROBES:
        attrs = [name]
        if op == "get" and shared is not None:
            o = shared.setdefault(name, make_obj(attrs))
        else:
            o = make_obj(attrs)
        exp = oracle(cfg, op, ["str", T(name)], lambda x: x in attrs, False)
        res, log = run_impl(conn, op, name, o)
        objlog = [e for e in log if e[0] in ("get", "set", "del")]
        got = (("touch", objlog[-1][1]) if objlog else ("ok-without-touching-the-object",)) if (res[0] == "ok") else (res[1],)
        if got != exp:
            bad.append({"probe": [op, name], "expected": list(exp), "observed": list(got)})
    return bad


REQUEST_NAMES = ["pub", "_priv", "__len__", "exposed_y", "__secret__", "allow_all_attrs", "_config", "safe_attrs", b"pub", 5]


def any_request(conn, r):
    """serve one request of any kind on conn (every handler of the dispatch table that works without a peer)"""
    o = make_obj(["pub", "_priv", "exposed_y", "_config", "allow_all_attrs"])
    kind = r.choice(["get", "set", "del", "call", "cmp", "dir", "inspect", "pickle", "repr", "str", "hash", "call0", "ctxexit",
                     "oldslicing", "buffiter", "getroot", "ping", "root-get", "root-set", "root-del"])
    name = r.choice(REQUEST_NAMES)
    H = conn._HANDLERS
    try:
        if kind in ("get", "set", "del", "call"):
            run_impl(conn, kind, name, o)
        elif kind == "cmp":
            H[consts.HANDLE_CMP](conn, o, 3, name)
        elif kind == "dir":
            H[consts.HANDLE_DIR](conn, o)
        elif kind == "inspect":
            from rpyc.lib import get_id_pack
            conn._local_objects.add(get_id_pack(o), o)
            H[consts.HANDLE_INSPECT](conn, get_id_pack(o))
        elif kind == "pickle":
            H[consts.HANDLE_PICKLE](conn, ("a", 1), 2)
        elif kind in ("repr", "str", "hash"):
            H[getattr(consts, "HANDLE_" + kind.upper())](conn, o)
        elif kind == "call0":
            H[consts.HANDLE_CALL](conn, Callee("f"), (), ())
        elif kind == "ctxexit":
            H[consts.HANDLE_CTXEXIT](conn, o, None)
        elif kind == "oldslicing":
            H[consts.HANDLE_OLDSLICING](conn, o, name, "pub", 0, 1, ())
        elif kind == "buffiter":
            H[consts.HANDLE_BUFFITER](conn, iter([1, 2, 3]), 2)
        elif kind == "getroot":
            H[consts.HANDLE_GETROOT](conn)
        elif kind == "ping":
            H[consts.HANDLE_PING](conn, b"x")
        else:   # the service root itself as the object
            root = conn._local_root
            if kind == "root-get":
                H[consts.HANDLE_GETATTR](conn, root, name)
            elif kind == "root-set":
                H[consts.HANDLE_SETATTR](conn, root, name, 1)
            else:
                H[consts.HANDLE_DELATTR](conn, root, name)
    except Exception:
        pass        # refusals are the normal case here; what matters is what the request did to configurations
    finally:
        del LOG[:]


def gen_history(r, n_ops):
    ops, nconn, live = [], 0, []
    for _ in range(n_ops):
        k = r.random()
        if k < 0.55 or nconn == 0:
            upd = []
            for key in r.sample(SW, r.choice([0, 1, 1, 2, 3, 7])):
                upd.append([key, r.random() < 0.5])
            if r.random() < 0.25:
                upd.append(["exposed_prefix", r.choice(PREFIX_POOL)])
            if r.random() < 0.2:
                upd.append(["safe_attrs", sorted(r.sample(["pub", "__len__", "_priv", "__secret__", "x"], r.randint(0, 3)))])
            svc = r.choice(["void", "void", "void", "slave", "classic"])
            ops.append(["open", upd, svc, r.random() < 0.3])     # last: reuse one dict object for several connections
            live.append(nconn)
            nconn += 1
        elif k < 0.75 and live:
            i = r.choice(live)
            live.remove(i)
            ops.append(["close", i])
        else:
            ops.append(["access", r.randrange(nconn)])
    return ops


def run_history(ctx, ops, facts, model_cases):
    """returns after recording violations; appends the model case"""
    conns, snaps = [], []
    shared_dicts = {}
    case = {"kind": "history", "ops": ops}
    steps = []
    shared_objs = {}
    import random
    pick = random.Random(len(ops) * 7919 + sum(len(repr(o)) for o in ops))

    def bad(sig, what, observed, expected):
        ctx.violation(sig, case, observed=observed, expected=expected, what=what)
    try:
        for step, op in enumerate(ops):
            if op[0] == "open":
                _, upd, svc, share = op
                d = upd_to_dict(upd)
                key = repr(sorted((k, sorted(v) if isinstance(v, set) else v) for k, v in d.items()))
                if share:
                    d = shared_dicts.setdefault(key, d)
                before = copy.deepcopy(d)
                try:
                    conn = SERVICES[svc]()._connect(Ch(), d)
                except Exception as e:
                    ctx.tie_broken("harness:history-open-raised", "%s opening a %s connection with %r in %r" % (C.exc_enum(e), svc, upd, ops))
                    return
                conns.append(conn)
                if d != before:
                    bad("isolation:user-config-dict-mutated", "opening a connection changed the configuration dict it was given", d, before)
                pr = project(conn._config)
                if svc == "void":
                    want = project(dict(DEFAULT_SNAPSHOT, **upd_to_dict(upd)))      # what the caller asked for, not what the dict has become
                    if pr != want:
                        bad("isolation:new-connection-not-default-plus-own", "a new connection's policy is not the defaults plus its own configuration",
                            {"step": step, "config": pr}, want)
                else:
                    if not all(conn._config[k] for k in ("allow_all_attrs", "allow_getattr", "allow_setattr", "allow_delattr")):
                        bad("isolation:classic-own-grant-missing", "a classic-mode service did not grant itself blanket permissions on its own connection",
                            {"step": step, "config": pr}, "allow_all/get/set/del on its own connection")
                snaps.append(pr)
            elif op[0] == "close":
                conns[op[1]].close()
            else:
                c = conns[op[1]]
                if not c.closed:
                    any_request(c, pick)
            # after every step: nobody else's policy moved, the defaults did not move
            now = [project(c._config) for c in conns]
            steps.append((now, project(P.DEFAULT_CONFIG)))
            for j, (a, b) in enumerate(zip(now, snaps)):
                if a != b:
                    bad("isolation:config-changed-by-other-connection", "connection %d's policy changed at step %d (%s) although it was given at open" % (j, step, op[0]),
                        {"step": step, "conn": j, "config": a}, b)
            if P.DEFAULT_CONFIG != DEFAULT_SNAPSHOT or id(P.DEFAULT_CONFIG.get("safe_attrs")) != DEFAULT_SAFE_ID:
                diff = {k: P.DEFAULT_CONFIG.get(k) for k in set(P.DEFAULT_CONFIG) | set(DEFAULT_SNAPSHOT)
                        if P.DEFAULT_CONFIG.get(k) != DEFAULT_SNAPSHOT.get(k)}
                bad("isolation:default-config-changed", "DEFAULT_CONFIG changed at step %d (%s)" % (step, op[0]), repr(diff), "unchanged")
            alive = [j for j, c in enumerate(conns) if not c.closed]
            if step < len(ops) - 1 and len(alive) > 3:      # every live connection at the end, the newest + two others in between
                alive = [alive[-1]] + pick.sample(alive[:-1], 2)
            for j in alive:
                w = decisions(conns[j], snaps[j], shared_objs)
                if w:
                    bad("isolation:decision-differs-from-own-policy", "connection %d decides differently from the policy it was given (step %d)" % (j, step), w, snaps[j])
        case["closed_at_end"] = [int(bool(c.closed)) for c in conns]
    finally:
        for c in conns:
            try:
                c.close()
            except Exception:
                pass
        # whatever happened, leave the process-wide defaults as they were for the next history
        if P.DEFAULT_CONFIG != DEFAULT_SNAPSHOT:
            sa = P.DEFAULT_CONFIG.get("safe_attrs")
            P.DEFAULT_CONFIG.clear()
            P.DEFAULT_CONFIG.update(copy.deepcopy(DEFAULT_SNAPSHOT))
            if isinstance(sa, set) and id(sa) == DEFAULT_SAFE_ID:
                sa.clear()
                sa.update(DEFAULT_SNAPSHOT["safe_attrs"])
                P.DEFAULT_CONFIG["safe_attrs"] = sa
    nopen = sum(1 for o in ops if o[0] == "open")
    ctx.case(("history", repr(ops)), nontrivial=nopen >= 2, sample={"history": [o[0] if o[0] != "open" else "open:" + o[2] for o in ops]})
    ctx.count("history:ops", len(ops))
    ctx.count("history:connections", nopen)
    mops = []
    for op in ops:
        if op[0] == "open":
            mops.append([0, upd_sx(op[1]), int(op[2] != "void")])
        elif op[0] == "close":
            mops.append([1, op[1]])
        else:
            mops.append([2, op[1]])
    f = [int(facts["init_copies_defaults"] and facts["init_updates_own"]), int(facts["on_connect_updates_own"]),
         int(facts["requests_leave_config"])]
    model_cases.append((case, steps, ["history", f, proj_sx(project(DEFAULT_SNAPSHOT)), mops]))


def history_phase(ctx, model, facts, n, maxops):
    r = ctx.rng
    pending = []
    fixed = [
        [["open", [], "void", False], ["open", [["allow_all_attrs", True]], "void", False], ["access", 0]],
        [["open", [], "classic", False], ["open", [], "void", False], ["close", 0], ["open", [], "void", False]],
        [["open", [["allow_public_attrs", True]], "void", True], ["open", [["allow_public_attrs", True]], "slave", True], ["open", [["allow_public_attrs", True]], "void", True]],
        [["open", [["safe_attrs", ["pub"]]], "void", False], ["open", [], "void", False], ["open", [["exposed_prefix", ""]], "classic", False], ["open", [], "void", False]],
        # one caller-supplied non-empty dict object reused for several connections, one of them classic
        [["open", [["allow_public_attrs", False]], "void", True], ["open", [["allow_public_attrs", False]], "classic", True], ["access", 0],
         ["open", [["allow_public_attrs", False]], "void", True], ["close", 1], ["access", 2]],
        [["open", [["allow_setattr", False], ["exposed_prefix", "x_"]], "classic", True], ["open", [["allow_setattr", False], ["exposed_prefix", "x_"]], "void", True]],
        # a permissive and a restrictive connection reading the same long-lived objects
        [["open", [["allow_all_attrs", True]], "void", False], ["open", [["allow_getattr", False]], "void", False], ["access", 0], ["access", 1],
         ["open", [["allow_public_attrs", True]], "void", False]],
    ]
    for ops in fixed:
        run_history(ctx, ops, facts, pending)
    for i in range(n):
        run_history(ctx, gen_history(r, r.randint(2, maxops)), facts, pending)
    history_model(ctx, model, pending)


def history_model(ctx, model, pending):
    if model is None or not pending:
        return
    outs = model.batch([p[-1] for p in pending])
    for (case, steps, _), out in zip(pending, outs):
        ctx.model_traces += 1
        if not isinstance(out, list) or len(out) != len(steps):
            ctx.tie_broken("correspondence:history", "model answered %d snapshots for %d steps" % (len(out) if isinstance(out, list) else -1, len(steps)))
            continue
        for k, ((now, dnow), snap) in enumerate(zip(steps, out)):
            mdef, mconns = snap
            got = [proj_sx(p) for p in now]
            want = [c[1] for c in mconns]
            closed_m = [1 - c[0] for c in mconns]
            if got != want or mdef != proj_sx(dnow):
                ctx.tie_broken("correspondence:history", "step %d of %r: model %r default %r, implementation %r default %r"
                               % (k, case["ops"], want, mdef, got, proj_sx(dnow)))
                break
            if k == len(steps) - 1 and closed_m != case.get("closed_at_end"):
                ctx.tie_broken("correspondence:history-liveness", "%r: model closed %r, implementation %r" % (case["ops"], closed_m, case.get("closed_at_end")))


# ---------------------------------------------------------------- driver entry points

def run(ctx):
    model = C.Model("attr")
    model = model if model.available() else None
    facts = gen_facts()
    ctx.coverage_extra["generated_facts"] = facts
    ctx.coverage_extra["rule"] = (
        "sweep: every one of the 2^7 switch settings x prefix class (default 'exposed_', empty%s) x name class (prefixed, safe-listed, public, "
        "_private, __dunder__, prefix in the middle, empty, '_', the bare prefix, one short of it) x object shape (has name / has twin / both / neither) "
        "x read/write/delete, plus bytes names (valid and invalid UTF-8), non-text names, own hooks and call-by-name per configuration; "
        "random: seeded configurations with unicode/odd prefixes, real and synthetic safe sets, names built relative to prefix and safe set, "
        "bytes names with multi-byte and malformed UTF-8, hooks, attributes every object has; routes: cmp/ctxexit/oldslicing on plain objects, objects with their own hook and restricted() views, with text, bytes, stray-byte and "
        "non-text names; restricted(): random "
        "read/write lists in five container types; histories: seeded sequences of open (own dict, shared dict object, plain/slave/classic service), "
        "close and requests of every handler kind, all connections of a history reading the same long-lived objects (also on the service root), every connection checked after every step; service roots: every Service "
        "class x read/write/delete x configuration as given / blanket; whole-object handlers (dir/inspect/pickle/repr/str/hash) under random policies. Non-trivial = text name with the operation's switch on (or own hook) for "
        "decisions; >= 2 connections for histories; distinct by the full canonical case.") % ("" if ctx.quick else ", 'x_', '_', 'é_'")
    b = Batch(ctx, model, facts)
    sweep(ctx, b, ["exposed_", ""] if ctx.quick else ["exposed_", "", "x_", "_", "é_"], not ctx.quick)
    random_cases(ctx, b, 4000 if ctx.quick else 120000)
    b.finish()
    routes_phase(ctx, 250 if ctx.quick else 5000)
    restricted_phase(ctx, model, facts, 600 if ctx.quick else 20000)
    service_phase(ctx, model, facts, 500 if ctx.quick else 10000)
    whole_object_phase(ctx, 120 if ctx.quick else 2000)
    history_phase(ctx, model, facts, 150 if ctx.quick else 1500, 12 if ctx.quick else 60)


def replay(ctx, rep):
    case = rep["case"] or {}
    model = C.Model("attr")
    model = model if model.available() else None
    facts = gen_facts()
    kind = case.get("kind")
    if kind == "access":
        b = Batch(ctx, model, facts)
        cfg = cfg_dict(case["switches"], untext(case["prefix"]), [untext(x) for x in case["safe"]])
        b.add(cfg, case["op"], case["name"], [untext(a) for a in case["attrs"]], tuple(case["hooks"]), "replay")
        b.finish()
    elif kind == "restricted":
        pending = []
        cfg = cfg_dict(case["switches"], untext(case["prefix"]), [untext(x) for x in case["safe"]])
        restricted_one(ctx, pending, cfg, case["op"], case["name"], [untext(a) for a in case["rattrs"]],
                       None if case["wattrs"] is None else [untext(a) for a in case["wattrs"]],
                       [untext(a) for a in case["uattrs"]], facts, case.get("container", "set"))
        restricted_model(ctx, model, pending)
    elif kind == "service":
        pending = []
        cfg = cfg_dict(case["switches"], untext(case["prefix"]), [untext(x) for x in case["safe"]])
        service_one(ctx, pending, facts, cfg, case["svc"], case["op"], case["name"], [untext(a) for a in case["attrs"]], case["blanket"])
        service_model(ctx, model, pending)
    elif kind == "whole-object":
        whole_object_phase(ctx, 120)       # cheap and seed-determined: rerun the phase
    elif kind == "history":
        pending = []
        run_history(ctx, case["ops"], facts, pending)
        history_model(ctx, model, pending)
    elif kind == "cmp":
        cfg = cfg_dict(case["switches"], untext(case["prefix"]), [untext(x) for x in case["safe"]])
        route_cmp(ctx, cfg, case["name"], [untext(a) for a in case["have"]], case.get("inst_hook", False))
    elif kind in ("ctxexit", "oldslicing"):
        cfg = cfg_dict(case["switches"], untext(case["prefix"]), [untext(x) for x in case["safe"]])
        route_inst(ctx, cfg, kind, case["names"], [untext(a) for a in case["attrs"]], case.get("okind", "plain"),
                   [untext(a) for a in case.get("rattrs", [])])
