"""C19 — bytes on the wire are those of the published 5.x protocol.
An independent reference codec/peer (harness/refcodec.py, written from the format description) is compared
byte-for-byte with what the real implementation emits, and everything it emits — in every form the format
admits — must be accepted by the real implementation and mean the same."""
import struct, zlib
import os
from harness import common as C
from harness import refcodec as R
from harness.memstream import MemStream

META = {
    "level": "proof",
    "level_text": "props/C19.v: the tables regenerated from brine.py/channel.py/consts.py/protocol.py equal the hand-written published tables (tags, immediates, "
                  "ladders, struct formats, frame parameters and comparison, message/label/handler numbers, handler table, message tuple layout); for every value the "
                  "encoder emits exactly the published encoding written out directly from the format description (c19_emits_the_published_encoding: model/PubCodec.v "
                  "shares no table with the encoder; with the strict UTF-8 text codec for every value without lone surrogates: c19_emits_the_strict_published_encoding, "
                  "and c19_surrogate_extension_refuted for the one deviation, known F67); the frame Channel.send emits is the published frame (c19_frame_is_published); each ladder provably "
                  "picks a shortest admissible header and immediates are used whenever available; every admissible alternative form (one-byte or four-byte counts) "
                  "is accepted by the decoder with the same meaning; any stream of conforming frames (any flag byte, compressed at any size) read through any benign "
                  "fragmentation is delivered payload by payload (c19_accepts_any_conforming_frames); values cross the whole stack encode-frame-fragment-unframe-decode "
                  "unchanged (c19_values_cross_the_wire, gluing the C04 and C05 theorems). The reference "
                  "codec/peer exchanges real frames with a real Connection in both directions.",
    "level_note": "Trusted: Coq kernel, pygen, the hand-written Published.v and harness/refcodec.py as the statement of the published format, harness. zlib output bytes are "
                  "not pinned by the format (compared after inflation).",
    "technique": "Coq: reflexivity on regenerated tables vs hand-written published tables; ladder minimality by case analysis; differential run against an independent reference codec and peer",
    "gen": ["consts", "brine", "channel", "protocol", "vinegar", "netref", "handlers", "calls"],
    "shapes": ["brine.*", "channel.send", "channel.recv", "protocol.Connection._send", "protocol.Connection._dispatch", "protocol.Connection._box",
               "protocol.Connection._unbox", "protocol.Connection._async_request", "protocol.Connection._dispatch_request",
               # what each handler expects as its argument tuple, what proxies put there, the exception record and the id pack:
               # the published argument layouts are pinned as text (a self-consistent change of both ends would still be a different protocol)
               "protocol.Connection._handle_*", "protocol.Connection._request_handlers", "protocol.Connection._box_exc", "protocol.Connection._unbox_exc",
               "protocol.Connection._netref_factory", "protocol.Connection.sync_request", "protocol.Connection.async_request",
               "vinegar.dump_after_fast_path", "vinegar.load", "netref._make_method", "netref.syncreq", "netref.asyncreq", "netref.BaseNetref.*",
               "netref.class_factory", "handlers.lib.get_id_pack", "calls.*"],
    "models": ["brine"],
    "model_files": ["Brine"],
    "assumptions": ["the interpreter's limit on int <-> text conversion (sys.get_int_max_str_digits) is not part of the format: integers beyond it are known finding F66", "harness/refcodec.py and coq/model/Published.v are the reading of 'the published 5.x format'",
                    "the theorems about decoding (4, 4b: admitted encodings at every nesting level) hold at any depth; the real decoder is bounded by the interpreter's recursion limit (C04's stated exclusion)"],
}

from rpyc.core import brine
from rpyc.core.channel import Channel
from rpyc.core.protocol import Connection
import rpyc
from harness.C04 import gen_value, canon, short, to_sx, has_surrogate, too_big_int, MAXD
from harness.C05 import FakeSock, SIZES, payload
from rpyc.core.stream import SocketStream


class Svc(rpyc.Service):
    def exposed_echo(self, x): return x
    def exposed_add(self, a, b): return a + b
    def exposed_boom(self): raise ValueError("boom", 7)
    def exposed_mk(self): return [1, 2, 3]
    def exposed_nt(self):
        import collections
        return collections.namedtuple("Point", "x y")(3, 4)
    def exposed_st(self):
        import time
        return time.gmtime(0)
    def exposed_mixed(self): return (1, [2], "z")
    exposed_attr = 42


MIXED = []


def mixed_forms_against_model(ctx):
    """the model's decoder on the same mixed-form encodings the implementation was given (C04's decode correspondence: same outcome,
    same value); c19_accepts_any_admitted_encoding says the model reads each back, values_phase checked that the implementation does"""
    from harness.C04 import gen_params, check_decode
    model = C.Model("brine")
    if not model.available() or not MIXED:
        return
    check_decode(ctx, model, [b for b, _ in MIXED], gen_params())
    ctx.count("mixed-form-encodings-through-model", len(MIXED))
    del MIXED[:]


def values_phase(ctx, n):
    r = ctx.rng
    for i in range(n):
        v = gen_value(r, r.choice([0, 1, 2, 3]), allow_other=False, big=(i % 40 == 0))
        cv = canon(v)
        ext = has_surrogate(v)          # text UTF-8 cannot express: outside the published value domain (the repaired tree extends the format, F1)
        try:
            real = brine.dump(v)
        except Exception as e:
            if not too_big_int(v) and not ext:
                ctx.violation("published-value-not-encodable:" + cv[0], {"value_sx": C.sx_dumps(to_sx(v)), "repr": short(v, 200)}, observed=C.exc_enum(e),
                              expected="the published encoding", what="a value of the published value domain is not encoded at all")
            continue
        if ext:
            ctx.count("value-outside-published-domain:lone-surrogate-text")
            ctx.violation("text-outside-published-encoding:lone-surrogate", {"value_sx": C.sx_dumps(to_sx(v)), "repr": short(v, 120)}, observed=real[:40].hex(),
                          expected="UTF-8 (which cannot express a lone surrogate): refuse, or pass by reference",
                          what="text containing a lone surrogate is transmitted with surrogatepass bytes that a published 5.x decoder rejects (extension introduced by the F1 repair)")
        try:
            ref = R.enc(v, ext_surrogates=ext)
        except Exception as e:
            ref = None
        ctx.case(("val", cv), nontrivial=cv[0] not in ("none", "bool"), sample={"value": short(v, 80), "bytes": real[:20].hex()})
        ctx.count("value:" + cv[0])
        if ref != real:
            ctx.violation("value-encoding-differs-from-published:" + cv[0], {"value_sx": C.sx_dumps(to_sx(v)), "repr": short(v, 200)},
                          observed=real[:64].hex(), expected=(ref or b"")[:64].hex(), what="emitted bytes differ from the published (shortest-form) encoding")
        # every admissible alternative form must be accepted and mean the same
        for form in ("l1", "l4", "mix", "mix"):
            if form == "mix":       # a fresh choice at every node: the encodings [admits] of proofs/AdmitsP.v describes
                alt = R.enc(v, lambda: r.choice(("short", "l1", "l4")), ext_surrogates=ext)
                if not ext and not too_big_int(v):
                    MIXED.append((alt, cv))
            else:
                alt = R.enc(v, form, ext_surrogates=ext)
            try:
                back = brine.load(alt)
                ok = canon(back) == cv
            except Exception as e:
                back, ok = e, False
            ctx.evaluations += 1
            if not ok:
                ctx.violation("conforming-form-rejected:%s:%s" % (form, cv[0]), {"bytes": alt.hex(), "repr": short(v, 200)}, observed=short(back), expected=short(v),
                              what="a conforming alternative encoding (%s counts) is not accepted with the same meaning" % form)
        # the reference decoder agrees on what the implementation emitted
        try:
            rb, pos = R.dec(real)
            if canon(rb) != cv or pos != len(real):
                ctx.violation("reference-decoder-disagrees:" + cv[0], {"value_sx": C.sx_dumps(to_sx(v))}, observed=short(rb), expected=short(v), what="reference decoder reads emitted bytes differently")
        except Exception as e:
            ctx.violation("reference-decoder-rejects:" + cv[0], {"value_sx": C.sx_dumps(to_sx(v))}, observed=repr(e), expected=short(v), what="reference decoder rejects emitted bytes")


def frames_phase(ctx, n):
    r = ctx.rng
    sizes = SIZES + [r.randint(0, 9000) for _ in range(n)]
    for s in sizes:
        p = payload(r, s)
        for cmp in (True, False):
            fs = FakeSock()
            Channel(SocketStream(fs), compress=cmp).send(p)
            wire = bytes(fs.wire)
            ctx.case(("frame", s, cmp, p[:4]), nontrivial=s > 0, sample={"payload_len": s, "compress": cmp, "header": wire[:5].hex()})
            ctx.count("frame:" + ("compressed" if wire[4] else "plain"))
            want_flag = R.canonical_frame_flag(p, cmp)
            try:
                u = R.unframe(wire)
            except Exception as e:          # e.g. flag says compressed but the body is not a zlib stream
                ctx.violation("frame-not-readable-by-reference:" + type(e).__name__, {"size": s, "compress": cmp, "payload": p.hex() if s < 200 else None},
                              observed=wire[:8].hex() + " " + str(e)[:80], expected="a frame the published format defines", what="the reference decoder cannot read the emitted frame")
                continue
            if u is None or u[2] != b"" or u[3] != b"\n" or u[0] != p or bool(u[1]) != want_flag or wire[4] not in (0, 1):
                ctx.violation("frame-differs-from-published", {"size": s, "compress": cmp, "payload": p.hex() if s < 200 else None}, observed=wire[:8].hex(),
                              expected="!LB header, flag=%d, payload, newline" % want_flag, what="emitted frame is not the published frame for this payload")
            elif not want_flag and wire != R.frame(p, False):
                ctx.violation("frame-bytes-differ", {"size": s, "compress": cmp}, observed=wire[:8].hex(), expected=R.frame(p, False)[:8].hex(), what="uncompressed frame bytes differ")
            # acceptance: both compression choices of a conforming sender, whatever this receiver's own setting
            for flag in (False, True):
                fr = R.frame(p, flag)
                for rc in (True, False):
                    got = Channel(SocketStream(FakeSock(avail=fr)), compress=rc).recv()
                    ctx.evaluations += 1
                    if got != p:
                        ctx.violation("conforming-frame-misread", {"size": s, "flag": flag, "receiver_compress": rc}, observed=len(got), expected=s,
                                      what="a conforming frame is not received as its payload")


class RefPeer:
    """speaks the published protocol in raw frames with a real Connection over a MemStream"""

    def __init__(self, form="short", compress=False):
        self.form, self.compress = form, compress
        self.mine, self.theirs = MemStream.pair("ref", "impl")
        self.conn = Connection(Svc(), Channel(self.theirs, compress=True), config={})
        self.seq = 100
        self.log = []

    def send(self, kind, seq, args):
        data = R.msg(kind, seq, args, self.form)
        self.mine.write(R.frame(data, self.compress))

    def pump(self):
        while self.theirs.inbox and not self.conn.closed:
            try:
                self.conn.serve(0)
            except EOFError:
                break

    def recv_all(self):
        out = []
        while True:
            u = R.unframe(self.mine.inbox)
            if u is None:
                break
            pl, flag, rest, nl = u
            self.mine.inbox[:] = rest
            m, pos = R.dec(pl)
            out.append((m, flag, nl, pl))
        return out

    def request(self, handler, *boxed):
        self.seq += 1
        self.send(R.MSG_REQUEST, self.seq, (handler, (R.LABEL_TUPLE, tuple(boxed))))
        self.pump()
        return self.seq, self.recv_all()


def V(x):
    return (R.LABEL_VALUE, x)


def conversation(ctx, form, compress, r):
    p = RefPeer(form, compress)
    bad = []

    def expect(cond, what, obs=None):
        if not cond:
            bad.append((what, obs))
    seq, rs = p.request(R.H["GETROOT"])
    expect(len(rs) == 1 and rs[0][0][0] == R.MSG_REPLY and rs[0][0][1] == seq and rs[0][0][2][0] == R.LABEL_REMOTE_REF, "getroot reply", rs and rs[0][0])
    if bad:
        return bad
    root = rs[0][0][2][1]
    expect(isinstance(root, tuple) and len(root) == 3 and isinstance(root[0], str), "id pack shape", root)
    rootref = (R.LABEL_LOCAL_REF, root)
    a, b = r.randint(-500, 500), r.randint(-10**30, 10**30)
    seq, rs = p.request(R.H["CALLATTR"], rootref, V("echo"), (R.LABEL_TUPLE, (V(b),)), V(()))
    expect(len(rs) == 1 and rs[0][0] == (R.MSG_REPLY, seq, V(b)), "callattr echo", rs and rs[0][0])
    seq, rs = p.request(R.H["CALLATTR"], rootref, V("add"), (R.LABEL_TUPLE, (V(a), V(b))), V(()))
    expect(len(rs) == 1 and rs[0][0] == (R.MSG_REPLY, seq, V(a + b)), "callattr add", rs and rs[0][0])
    seq, rs = p.request(R.H["GETATTR"], rootref, V("attr"))
    expect(len(rs) == 1 and rs[0][0] == (R.MSG_REPLY, seq, V(42)), "getattr", rs and rs[0][0])
    seq, rs = p.request(R.H["PING"], V("x" * r.choice([1, 10, 3001])))
    expect(len(rs) == 1 and rs[0][0][0] == R.MSG_REPLY and rs[0][0][1] == seq, "ping", rs and rs[0][0][:2])
    if rs:
        m, flag, nl, pl = rs[0]
        expect(bool(flag) == (len(pl) > R.THRESHOLD) and nl == b"\n", "reply frame flag/newline", (flag, len(pl), nl))
    seq, rs = p.request(R.H["CALLATTR"], rootref, V("boom"), (R.LABEL_TUPLE, ()), V(()))
    expect(len(rs) == 1 and rs[0][0][0] == R.MSG_EXCEPTION and rs[0][0][1] == seq, "exception reply kind", rs and rs[0][0][:2])
    if rs and rs[0][0][0] == R.MSG_EXCEPTION:
        ex = rs[0][0][2]
        expect(isinstance(ex, tuple) and len(ex) == 4 and ex[0] == ("builtins", "ValueError") and ex[1] == ("boom", 7), "exception payload", ex[:2] if isinstance(ex, tuple) else ex)
    # the value/reference rule as published: exact tuples are boxed item-wise, instances of tuple SUBCLASSES (namedtuple, struct
    # sequences) are objects and travel by reference
    for meth in ("nt", "st"):
        seq, rs = p.request(R.H["CALLATTR"], rootref, V(meth), (R.LABEL_TUPLE, ()), V(()))
        expect(len(rs) == 1 and rs[0][0][0] == R.MSG_REPLY and rs[0][0][2][0] == R.LABEL_REMOTE_REF, "tuple-subclass instance by reference (%s)" % meth, rs and rs[0][0][2][:1])
    seq, rs = p.request(R.H["CALLATTR"], rootref, V("mixed"), (R.LABEL_TUPLE, ()), V(()))
    expect(len(rs) == 1 and rs[0][0][0] == R.MSG_REPLY and rs[0][0][2][0] == R.LABEL_TUPLE and [x[0] for x in rs[0][0][2][1]] == [R.LABEL_VALUE, R.LABEL_REMOTE_REF, R.LABEL_VALUE],
           "tuple with a by-reference item boxed item-wise", rs and rs[0][0][2])
    seq, rs = p.request(R.H["CALLATTR"], rootref, V("mk"), (R.LABEL_TUPLE, ()), V(()))
    expect(len(rs) == 1 and rs[0][0][0] == R.MSG_REPLY and rs[0][0][2][0] == R.LABEL_REMOTE_REF, "reference reply", rs and rs[0][0])
    if rs and rs[0][0][2][0] == R.LABEL_REMOTE_REF:
        lst = (R.LABEL_LOCAL_REF, rs[0][0][2][1])
        seq, rs2 = p.request(R.H["CALLATTR"], lst, V("__len__"), (R.LABEL_TUPLE, ()), V(()))
        expect(len(rs2) == 1 and rs2[0][0] == (R.MSG_REPLY, seq, V(3)), "len through reference", rs2 and rs2[0][0])
        seq, rs2 = p.request(R.H["REPR"], lst)
        expect(len(rs2) == 1 and rs2[0][0] == (R.MSG_REPLY, seq, V("[1, 2, 3]")), "repr", rs2 and rs2[0][0])
        seq, rs2 = p.request(R.H["STR"], lst)
        expect(len(rs2) == 1 and rs2[0][0] == (R.MSG_REPLY, seq, V("[1, 2, 3]")), "str", rs2 and rs2[0][0])
        seq, rs2 = p.request(R.H["CMP"], lst, lst, V("__eq__"))
        expect(len(rs2) == 1 and rs2[0][0] == (R.MSG_REPLY, seq, V(True)), "cmp", rs2 and rs2[0][0])
        seq, rs2 = p.request(R.H["HASH"], rootref)
        expect(len(rs2) == 1 and rs2[0][0][0] == R.MSG_REPLY and isinstance(rs2[0][0][2][1], int), "hash", rs2 and rs2[0][0])
        seq, rs2 = p.request(R.H["HASH"], lst)
        expect(len(rs2) == 1 and rs2[0][0][0] == R.MSG_EXCEPTION and rs2[0][0][2][0] == ("builtins", "TypeError"), "hash of unhashable", rs2 and rs2[0][0][:2])
        seq, rs2 = p.request(R.H["DIR"], lst)
        expect(len(rs2) == 1 and rs2[0][0][0] == R.MSG_REPLY and "append" in rs2[0][0][2][1], "dir", rs2 and rs2[0][0][:2])
        seq, rs2 = p.request(R.H["INSPECT"], V(rs[0][0][2][1]))
        expect(len(rs2) == 1 and rs2[0][0][0] == R.MSG_REPLY and any(m[0] == "append" for m in rs2[0][0][2][1]), "inspect", rs2 and rs2[0][0][:2])
        seq, rs2 = p.request(R.H["CALLATTR"], lst, V("__iter__"), (R.LABEL_TUPLE, ()), V(()))
        if rs2 and rs2[0][0][0] == R.MSG_REPLY and rs2[0][0][2][0] == R.LABEL_REMOTE_REF:
            it = (R.LABEL_LOCAL_REF, rs2[0][0][2][1])
            seq, rs3 = p.request(R.H["BUFFITER"], it, V(2))
            expect(len(rs3) == 1 and rs3[0][0] == (R.MSG_REPLY, seq, V((1, 2))), "buffiter", rs3 and rs3[0][0])
        else:
            expect(False, "iter reference", rs2 and rs2[0][0])
        seq, rs2 = p.request(R.H["SETATTR"], lst, V("x"), V(1))
        expect(len(rs2) == 1 and rs2[0][0][0] == R.MSG_EXCEPTION and rs2[0][0][2][0] == ("builtins", "AttributeError"), "setattr denied by default", rs2 and rs2[0][0][:2])
        seq, rs2 = p.request(R.H["DELATTR"], lst, V("x"))
        expect(len(rs2) == 1 and rs2[0][0][0] == R.MSG_EXCEPTION and rs2[0][0][2][0] == ("builtins", "AttributeError"), "delattr denied by default", rs2 and rs2[0][0][:2])
        seq, rs2 = p.request(R.H["PICKLE"], lst, V(2))
        expect(len(rs2) == 1 and rs2[0][0][0] == R.MSG_EXCEPTION and rs2[0][0][2][0] == ("builtins", "ValueError"), "pickle disabled by default", rs2 and rs2[0][0][:2])
        seq, rs2 = p.request(R.H["DEL"], lst, V(1))
        expect(len(rs2) == 1 and rs2[0][0] == (R.MSG_REPLY, seq, V(None)), "del", rs2 and rs2[0][0])
    # the implementation as the requester: it asks for our root; we answer in the published format
    impl = p.conn
    holder = {}

    def on_idle():
        for m, flag, nl, pl in p.recv_all():
            holder.setdefault("reqs", []).append(m)
            if m[0] == R.MSG_REQUEST and m[2][0] == R.H["PING"]:
                p.send(R.MSG_REPLY, m[1], V(m[2][1][1][0]))     # echo the datum, boxed by value
                return True
        return False
    p.theirs.on_idle = on_idle
    try:
        impl.ping("hello", timeout=None)
    except Exception as e:
        bad.append(("implementation rejects reference reply to its ping", repr(e)))
    reqs = holder.get("reqs", [])
    expect(len(reqs) == 1 and reqs[0][0] == R.MSG_REQUEST and isinstance(reqs[0][1], int) and reqs[0][2] == (R.H["PING"], V(("hello",))),
           "request emitted by the implementation", reqs[:1])
    p.theirs.on_idle = None
    seq, rs = p.request(R.H["CLOSE"])
    expect(impl.closed, "close request closes the connection", impl.closed)
    return bad


PUBLISHED_NUMBERS = dict(MSG_REQUEST=1, MSG_REPLY=2, MSG_EXCEPTION=3, LABEL_VALUE=1, LABEL_TUPLE=2, LABEL_LOCAL_REF=3, LABEL_REMOTE_REF=4,
                         EXC_STOP_ITERATION=1, **{"HANDLE_" + k: v for k, v in R.H.items()})


# what the published 5.0.1 puts into / expects from the CTXEXIT request: the exception object itself (boxed like any argument: a
# reference to the caller's exception), raised as it is on the owner's side
PUBLISHED_CTXEXIT = {
    ("netref", "BaseNetref", "__exit__"): "def __exit__(self, exc, typ, tb):\n    return syncreq(self, consts.HANDLE_CTXEXIT, exc)",
    ("protocol", "Connection", "_handle_ctxexit"): ("def _handle_ctxexit(self, obj, exc):\n    if exc:\n        try:\n            raise exc\n        except Exception:\n"
                                                    "            exc, typ, tb = sys.exc_info()\n    else:\n        typ = tb = None\n    return self._handle_getattr(obj, '__exit__')(exc, typ, tb)"),
}


def ctxexit_layout_phase(ctx):
    """the argument of the CTXEXIT request: published = the exception by reference; a tree that sends an exception RECORD by value
    (the repair of F14: the target's __exit__ is told the exception that ended the block) does not interoperate with a published peer
    on this one request - in either direction __exit__ is told a TypeError instead (as it was between two published peers)"""
    import ast
    from tools.pygen.core import find_class, find_func, func_shape
    diffs = []
    for (mod, cls, fn), want in PUBLISHED_CTXEXIT.items():
        try:
            tree = ast.parse(open(os.path.join(C.REPO, "rpyc", "core", mod + ".py")).read())
            got = func_shape(find_func(find_class(tree, cls), fn))
        except Exception as e:
            got = "<unreadable: %r>" % (e,)
        if got != want:
            diffs.append({"function": "%s.%s.%s" % (mod, cls, fn), "current": got[:400]})
    ctx.case(("ctxexit-layout",), nontrivial=True, sample={"ctxexit_functions_differing_from_published": [d["function"] for d in diffs]})
    ctx.count("ctxexit-layout-compared")
    if diffs:
        ctx.violation("ctxexit-argument-layout-differs-from-published", {"functions": diffs}, observed=[d["function"] for d in diffs], expected="the published bodies",
                      what="the CTXEXIT request carries an exception record by value (vinegar) where the published 5.0.1 sends the exception by reference: the two do not understand each other on this request")


def numbers_phase(ctx):
    from rpyc.core import consts
    for k, v in PUBLISHED_NUMBERS.items():
        got = getattr(consts, k, None)
        ctx.case(("const", k), nontrivial=True)
        if got != v:
            ctx.violation("protocol-number-differs:" + k, {"const": k}, observed=got, expected=v, what="a protocol number differs from its published value")
    handlers = Connection._request_handlers()
    for k, v in R.H.items():
        fn = handlers.get(v)
        if fn is None or fn.__name__ != "_handle_" + k.lower():
            ctx.violation("handler-table-differs:" + k, {"handler": k}, observed=getattr(fn, "__name__", None), expected="_handle_" + k.lower(),
                          what="published handler number is not routed to its handler")


def overlimit_int_phase(ctx):
    """a conforming peer whose interpreter has no limit on int <-> text conversion (Python <= 3.10, or the limit switched off) sends
    an integer with more decimal digits than THIS interpreter converts. The format has no such limit: the value should be accepted."""
    import sys as _sys
    p = RefPeer("short", False)
    big = 10 ** (MAXD + 700)
    _sys.set_int_max_str_digits(0)
    try:
        data = R.msg(R.MSG_REQUEST, 501, (R.H["PING"], (R.LABEL_TUPLE, (V(big),))))
    finally:
        _sys.set_int_max_str_digits(MAXD)
    p.mine.write(R.frame(data, False))
    outcome = "answered"
    try:
        p.pump()
    except BaseException as e:
        outcome = "serve-raised:" + type(e).__name__
    replies = []
    try:
        replies = p.recv_all()
    except Exception:
        pass
    ok = outcome == "answered" and len(replies) == 1 and replies[0][0][0] == R.MSG_REPLY and replies[0][0][1] == 501
    case = {"overlimit_int_digits": MAXD + 701}
    ctx.case(("overlimit-int",), nontrivial=True, sample={"case": case, "outcome": outcome, "replies": len(replies)})
    ctx.count("conforming-int-beyond-this-interpreters-digit-limit")
    if not ok:
        ctx.violation("conforming-integer-beyond-digit-limit-rejected", case, observed={"outcome": outcome, "replies": [r_[0][:2] for r_ in replies]}, expected="accepted and echoed",
                      what="an integer a conforming peer may send (the format has no digit limit) is rejected by this interpreter's int<->text limit: ValueError escapes serve(), no reply")


def run(ctx):
    numbers_phase(ctx)
    ctxexit_layout_phase(ctx)
    overlimit_int_phase(ctx)
    ctx.coverage_extra["rule"] = ("values from C04's generator (serializable only) compared with the reference encoder byte-for-byte and re-encoded in l1/l4 forms; "
                                  "frames for payload sizes around threshold/chunk with both compression settings on both sides; scripted request/response conversations "
                                  "between the reference peer (each of 3 forms x 2 compression choices) and a real Connection, both directions")
    values_phase(ctx, 700 if ctx.quick else 20000)
    mixed_forms_against_model(ctx)
    frames_phase(ctx, 30 if ctx.quick else 600)
    for i in range(6 if ctx.quick else 120):
        form = ("short", "l1", "l4")[i % 3]
        compress = bool((i // 3) % 2)
        bad = conversation(ctx, form, compress, ctx.rng)
        ctx.case(("conv", form, compress, i), nontrivial=True, sample={"conversation": form, "compress": compress, "problems": bad[:2]})
        ctx.count("conversation:" + form)
        for what, obs in bad:
            ctx.violation("conversation:" + what, {"form": form, "compress": compress}, observed=repr(obs)[:300], expected=what, what="exchange with the reference peer deviates from the published protocol")


def replay(ctx, rep):
    run(ctx)
