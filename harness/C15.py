"""C15 — asynchronous results: one final outcome, callbacks once, timeouts exact.

The real AsyncResult / Timeout / Connection (serve, _dispatch, poll_all, sync_request, async_request) / Channel /
netref.syncreq / timed are driven over a scripted fake byte STREAM (under the real Channel) and a virtual clock
(rpyc.lib.time is replaced by a fake module object, nothing sleeps).  Every generated history is (1) judged by an
oracle that evaluates the property's own statement on what the implementation did and (2) compared observation by
observation with the extracted model/Async.v.

Dimensions of a history: how the result is created (async_request / timed / conn.sync_request / a synchronous proxy
operation), timeout None/0/negative/positive, frames that arrive whole or in two pieces (first byte, completion), replies
whose value is plain or needs a round trip to materialise (a proxy of an unseen class), value / ValueError / TimeoutError
replies, duplicates and strays, unrelated requests with a dispatch duration, callbacks that record or raise, a second
thread caught between add_callback's readiness test and its append, and caller actions in any order."""
import json, re, queue as _queue, threading
from harness import common as C

META = {
    "level": "proof",
    "level_text": "Theorems over ALL event histories in virtual time (props/C15.v) about a model that includes what the code really does: "
                  "frames visible at their first byte but received without deadline, reply values unboxed (possibly over a round trip) "
                  "before the expiry is looked at, callbacks that raise, and a registration by a second thread split into test and append. "
                  "Proved for every history: a value once there is final; expiry is final between set_expiry calls; the outcome is Got iff "
                  "the reply was DECIDED (frame complete + value materialised) before the expiry; wait raises at exactly max(start, expiry, "
                  "end of the last receive+dispatch) and never before the expiry; sync_request / proxy operations = async_request with the "
                  "configured timeout then value; timed = async then set_expiry. The statement's own clauses hold under explicit hypotheses "
                  "(whole frames, instantly materialised replies; isolated callbacks or none raising an Exception; atomic registration or none "
                  "split) and are REFUTED by witness theorems where the tree violates or violated them; 'late only when serving' is proved in the "
                  "weaker form 'late only when busy with another message: an unrelated request or another pending result's reply and callbacks'. Timeout's arithmetic and the skeletons of "
                  "every anchored method (current or repaired form) are regenerated on every run and tied by reflexivity; the extracted model is "
                  "compared with the real classes on generated histories.",
    "level_note": "Trusted: Coq kernel, pygen, extraction + driver, harness (fake stream, virtual clock, the two-thread schedule is realised with a "
                  "real second thread parked just before it takes the result's lock, or inside list.append when there is no lock). SCOPE: "
                  "'a reply arrives' = its frame has been completely received BY A THREAD OF THE CALLER (a reply left unread in the socket "
                  "until after the expiry has not arrived: the result is expired). The dispatch of a frame including the callbacks it triggers "
                  "is one step of the model: the relative order of a callback registered by a second thread WHILE the callbacks of the arrival "
                  "run and that running loop is not claimed (in the code it runs at once). The model's raising callbacks raise an Exception; "
                  "BaseException-raising and re-entrant callbacks are exercised by the oracle only. Materialising a reply's value is bounded "
                  "by sync_request_timeout in the model (the request then receives the connection's own timeout error as its exception). "
                  "Outside: rounding of real poll()/time.time(); contention on the receive lock (C12-C14); the class of a remote exception "
                  "(a remote TimeoutError is told apart by the remote traceback attribute). set_expiry() called again after the expiry passed "
                  "starts a new expiry (relative to now): finality of 'expired' is stated between set_expiry calls, finality of a value "
                  "unconditionally. Findings: timely-reply-discarded:decided-after-unboxing, wait:late-timeout:blocked-receiving-a-frame, "
                  "value:timeout-error-from-materialising-reply, wait:late-timeout:running-callbacks-of-another-result (no small repair); "
                  "callbacks:aborted-by-raising-callback, callbacks:lost-in-registration-race (fixed in /repo), "
                  "callbacks:aborted-by-baseexception-callback (repair proposed).",
    "technique": "Coq proof by induction over histories with ghost dispatch/registration logs; generated Timeout functions and method "
                 "skeletons tied by reflexivity; refutation witnesses by computation; differential correspondence of the extracted model on a "
                 "virtual clock",
    "gen": ["libinit", "async_"],
    "shapes": ["libinit.*", "async_.*"],
    "models": ["async"],
    "model_files": ["Async"],
    "assumptions": [
        "virtual time: the fake stream's poll(timeout) returns at min(first byte of the next scripted frame, now + timeout.timeleft()) "
        "exactly; read() blocks until the scripted completion instant of the frame; a tie between arrival and deadline is resolved by "
        "a per-case flag (both ways are generated)",
        "one serving thread per history; the only second thread is the one registering a callback (parked between entering add_callback "
        "and taking the lock / appending); it never runs concurrently with a callback loop",
    ],
}

import rpyc
import rpyc.lib
from rpyc.core import brine, consts, vinegar, netref
from rpyc.core.protocol import Connection
from rpyc.core.channel import Channel
from rpyc.core.async_ import AsyncResult, AsyncResultTimeout
from rpyc.lib import Timeout

BASE, TICK = 1000.0, 0.25
K1 = "timely-reply-discarded:decided-after-unboxing"
K2 = "wait:late-timeout:blocked-receiving-a-frame"
F4 = "callbacks:aborted-by-raising-callback"
F9 = "callbacks:lost-in-registration-race"
K3 = "wait:late-timeout:running-callbacks-of-another-result"
K4 = "value:timeout-error-from-materialising-reply"
F5 = "callbacks:aborted-by-baseexception-callback"
TMARK = -999          # model/Async.v tmark: the connection's own timeout error, delivered as a reply's exception
DEFAULT_CFG = 120     # sync_request_timeout = 30 s


class Hang(Exception):
    """the fake stream was asked to block forever (no deadline, nothing scripted)"""


class Spin(Exception):
    """the code under test keeps polling at one virtual instant: a busy loop that only real time passing would end"""


class CbError(Exception):
    """raised by a generated callback"""

    def __init__(self, cid):
        Exception.__init__(self, cid)
        self.cid = cid


class Clock(object):
    """stands in for the `time` module inside rpyc.lib"""

    def __init__(self, tick):
        self.tick = tick

    def time(self):
        return BASE + self.tick * TICK

    def sleep(self, d):
        raise RuntimeError("C15: something tried to sleep")


def to_tick(x):
    """real clock value -> tick (int when exact)"""
    v = (x - BASE) / TICK
    return int(v) if v == int(v) else v


def real_timeout(t):
    if t is None:
        return None
    return t // 4 if t % 8 == 0 else t * TICK   # ints now and then, floats mostly


class Stream(object):
    """scripted byte stream under the real Channel: the first bytes of a frame become readable at its arrival tick, the
    rest at its completion tick; what the connection writes is parsed back into messages"""
    MAX_IO_CHUNK = 64000
    EARLY = 3

    def __init__(self, clock, case):
        self.clock = clock
        self.script = [list(m) for m in case["queue"]]
        self.tie = bool(case["tie"])
        self.send_dur = case["send_dur"]
        self.closed = False
        self.our_seq = None
        self.conn = None
        self.res = None
        self.spin = 0
        self.cur = None            # frame being read: [bytes, pos, early, complete_at]
        self.last = (0, 0)         # (tick first byte seen, tick complete) of the frame read last
        self.unbox_dur = 0
        self.serial = 0
        self.hold_until = None     # the peer is busy with a class inquiry it will not answer in time: nothing else comes before
        self.inspect_seqs = set()
        self.wbuf = b""

    # ---- reading side
    def poll(self, timeout):
        now = self.clock.tick
        if self.cur is not None:
            return True
        if self.hold_until is not None:
            if now >= self.hold_until:
                self.hold_until = None
            else:
                tl = timeout.timeleft()
                if tl is None or tl < 0:
                    raise Hang()
                dl = min(now + tl / TICK, self.hold_until)
                self.clock.tick = int(dl) if dl == int(dl) else dl
                if self.clock.tick >= self.hold_until:
                    self.hold_until = None
                return False
        a = self.script[0][0] if self.script else None
        if a is not None and a <= now:
            return True
        tl = timeout.timeleft()
        if tl is None or tl < 0:          # a real poll() with a negative timeout blocks like one without
            if a is None:
                raise Hang()
            self.clock.tick = a
            return True
        dl = now + tl / TICK
        if a is not None and (a < dl or (a == dl and self.tie)):
            self.clock.tick = a
            return True
        if dl == now:
            self.spin += 1
            if self.spin > 300:
                raise Spin()
        else:
            self.spin = 0
        self.clock.tick = int(dl) if dl == int(dl) else dl
        return False

    def _frame(self, kind, p, q, u):
        if kind == 0:
            seq = self.our_seq if self.our_seq is not None else 424242
            if p == 3:        # a reply whose payload cannot be rebuilt here (no such label): delivered to the request as its error
                data = brine.dump((consts.MSG_REPLY, seq, (("bad", q), None)))
            elif p:
                cls = ValueError if p == 1 else TimeoutError
                data = brine.dump((consts.MSG_EXCEPTION, seq, vinegar.dump(cls, cls(q), None, False, False)))
            elif u:
                self.serial += 1
                self.unbox_dur = u
                data = brine.dump((consts.MSG_REPLY, seq, (consts.LABEL_REMOTE_REF, ("c15.Slow", q, 5000 + self.serial))))
            else:
                data = brine.dump((consts.MSG_REPLY, seq, (consts.LABEL_VALUE, q)))
        elif kind == 1:
            data = brine.dump((consts.MSG_REQUEST, 777000 + len(self.script),
                               (consts.HANDLE_PING, (consts.LABEL_TUPLE, ((consts.LABEL_VALUE, b"D%d" % max(0, p)),)))))
        elif kind == 3:        # the peer's answer to the INSPECT request that unboxing a slow reply issued
            data = brine.dump((consts.MSG_REPLY, p, (consts.LABEL_TUPLE, ())))
        elif p:               # the reply to ANOTHER pending request of this connection, whose callbacks run p ticks
            self.serial += 1
            seq = 900000 + self.serial

            def other(is_exc, obj, p=p):
                self.clock.tick += p
            self.conn._request_callbacks[seq] = other
            data = brine.dump((consts.MSG_REPLY, seq, (consts.LABEL_VALUE, 0)))
        else:
            data = brine.dump((consts.MSG_REPLY, 999999, (consts.LABEL_VALUE, 0)))
        return Channel.FRAME_HEADER.pack(len(data), 0) + data + Channel.FLUSHER

    def read(self, count):
        if self.cur is None:
            if not self.script:
                raise Hang()
            a, c, kind, p, q, u = self.script.pop(0)
            if self.clock.tick < a:
                self.clock.tick = a
            seen = self.clock.tick
            buf = self._frame(kind, p, q, u)
            self.cur = [buf, 0, (self.EARLY if c > seen else len(buf)), c, seen]
        buf, pos, early, c, seen = self.cur
        if pos + count > early and self.clock.tick < c:
            self.clock.tick = c           # blocks, without any deadline, until the rest of the frame is there
        out = buf[pos:pos + count]
        self.cur[1] = pos + count
        if self.cur[1] >= len(buf):
            self.last = (seen, self.clock.tick)
            self.cur = None
        return out

    # ---- writing side
    def write(self, data):
        self.wbuf += data
        hs = Channel.FRAME_HEADER.size
        while len(self.wbuf) >= hs:
            length, comp = Channel.FRAME_HEADER.unpack(self.wbuf[:hs])
            if len(self.wbuf) < hs + length + 1:
                break
            body = self.wbuf[hs:hs + length]
            self.wbuf = self.wbuf[hs + length + 1:]
            if comp:
                import zlib
                body = zlib.decompress(body)
            self._sent(brine.load(body))

    def _sent(self, m):
        msg, seq, args = m
        if msg == consts.MSG_REQUEST and args[0] in (consts.HANDLE_PING, consts.HANDLE_CALL) and self.our_seq is None:
            self.our_seq = seq
            self.res = self.conn._request_callbacks.get(seq)
            self.clock.tick += self.send_dur          # sending takes time; the expiry is armed afterwards
        elif msg == consts.MSG_REQUEST and args[0] == consts.HANDLE_INSPECT:
            self.inspect_seqs.add(seq)
            cfg = self.conn._config["sync_request_timeout"]
            if cfg is not None and cfg >= 0 and self.unbox_dur >= cfg / TICK:
                self.hold_until = self.clock.tick + cfg / TICK      # the peer does not answer before the inquiry times out
            else:
                t = self.clock.tick + self.unbox_dur      # the peer answers the class inquiry unbox_dur ticks later
                self.script.insert(0, [t, t, 3, seq, 0, 0])
        elif msg == consts.MSG_REPLY and isinstance(args[1], bytes) and args[1][:1] == b"D":
            self.clock.tick += int(args[1][1:])       # the unrelated request kept this thread busy

    def close(self):
        self.closed = True

    def fileno(self):
        return -1


def opt_sx(t):
    return [] if t is None else [t]


def gen_flags():
    """the generated facts the model is parameterised with, read from the translator in-process (coq/gen on disk may have
    been rewritten by a concurrent check of another tree)"""
    global DECODE_FAILURE_DELIVERED
    DECODE_FAILURE_DELIVERED = C.gen_fact("async_", "response_decode_failure_delivered", default=False)
    return (int(C.gen_fact("async_", "callbacks_isolated", default=False)),
            int(C.gen_fact("async_", "add_callback_atomic", default=False)))


DECODE_FAILURE_DELIVERED = False


def cfg_of(case):
    """the configured sync_request_timeout (ticks) under which a reply's value is materialised"""
    return case["timeout"] if case["mode"] in (1, 3) else case.get("cfg", DEFAULT_CFG)


def eff_reply(case, m):
    """[exception?, value] a reply stands for, given that materialising it is bounded by the configured timeout"""
    cfg = cfg_of(case)
    if m[3] == 0 and m[5] and finite_of(cfg) and m[5] >= cfg:
        return [1, TMARK]
    return [int(m[3] != 0), m[4]]


def case_sx(case, flags):
    return ["hist", [case["mode"], int(case["tie"]), flags[0], flags[1], opt_sx(cfg_of(case))], case["t0"], opt_sx(case["timeout"]), case["send_dur"],
            [[a, c, k, (int(p != 0) if k == 0 else int(p)), q, u] for a, c, k, p, q, u in case["queue"]],
            [[k, (opt_sx(p) if k in (2, 8) else (p or 0)), int(bool(r))] for k, p, r in case["actions"]]]


def canon_model(out):
    """model answer -> same Python shape as impl_run's"""
    tr, fin = out
    trace = [[[int(x) for x in o], t] for o, t in tr]
    log, ready, exc, obj, cbs, fin_, tmax, reg, qlen, now = fin
    return trace, {"log": [[c, t] for c, t in log], "ready": bool(ready), "is_exc": bool(exc), "obj": obj, "callbacks": list(cbs),
                   "finite": bool(fin_), "tmax": tmax, "registered": bool(reg), "queue": qlen, "now": now}


BAD_LABEL = re.compile(r"^invalid label \('bad', (-?\d+)\)$")


def exc_value(e):
    """the number an exception stands for: a remote exception carries it, the local 'cannot rebuild this payload' error names it"""
    a = e.args[0] if e.args else None
    if isinstance(e, TimeoutError) and not hasattr(e, "_remote_tb") and e.args == ("result expired",):
        return TMARK
    m = BAD_LABEL.match(a) if isinstance(a, str) else None
    return int(m.group(1)) if m else a


def value_of(obj):
    """what a stored / returned reply value stands for in the model"""
    if isinstance(obj, netref.BaseNetref):
        return object.__getattribute__(obj, "____id_pack__")[1]
    if isinstance(obj, Exception):
        return exc_value(obj)
    return obj or 0


class HookList(list):
    """res._callbacks for a split registration: the registering thread parks inside append"""

    def __init__(self, items, run):
        list.__init__(self, items)
        self.run = run

    def append(self, f):
        run = self.run
        if run.b_thread is not None and threading.current_thread() is run.b_thread and not run.b_parked:
            run.b_parked = True
            run.b_q.put("at-append")
            run.b_go.wait(60)
        list.append(self, f)


class ParkLock(object):
    """res._lock for a split registration: the registering thread parks just before it takes the lock (whether it has
    already tested readiness by then is the code's business -- that is what the schedule probes)"""

    def __init__(self, real, run):
        self.real, self.run = real, run

    def _park(self):
        run = self.run
        if run.b_thread is not None and threading.current_thread() is run.b_thread and not run.b_parked:
            run.b_parked = True
            run.b_q.put("at-append")
            run.b_go.wait(60)

    def acquire(self, *a, **k):
        self._park()
        return self.real.acquire(*a, **k)

    def release(self):
        return self.real.release()

    def __enter__(self):
        self._park()
        return self.real.__enter__()

    def __exit__(self, *a):
        return self.real.__exit__(*a)

    def locked(self):
        return self.real.locked()


def _held(lock):
    for nm in ("locked", "_is_owned"):
        f = getattr(lock, nm, None)
        if f is not None:
            try:
                if f():
                    return True
            except Exception:
                pass
    return False


def probe_atomic():
    """does add_callback hold a lock of the result while it appends?  (then its test and append cannot be separated)"""
    res = AsyncResult(None)
    seen = []

    class Probe(list):
        def append(self, f):
            seen.append(any(_held(getattr(res, s, None)) for s in getattr(type(res), "__slots__", ())
                            if hasattr(getattr(res, s, None), "acquire")))
            list.append(self, f)
    try:
        res._callbacks = Probe()
        res.add_callback(lambda r: None)
    except Exception:
        return True
    return (not seen) or bool(seen[0])


class Run(object):
    """one history against the real classes"""

    def __init__(self, case, atomic_impl=False):
        self.case = case
        self.atomic_impl = atomic_impl
        self.clock = Clock(case["t0"])
        self.saved_time = rpyc.lib.time
        rpyc.lib.time = self.clock
        self.chan = Stream(self.clock, case)
        self.conn = Connection(rpyc.VoidService(), Channel(self.chan), {})
        self.chan.conn = self.conn
        self.log = []           # callback invocations [id, tick, right argument]
        self.regs = []          # registrations [id, tick, raises]
        self.disp = []          # dispatches [tick first byte seen, tick complete, tick at end, kind, registered reply?]
        self.res = None
        self.proxy = None
        self.pend = None        # split registration in flight: (id, raises)
        self.b_thread = None
        self.b_q = _queue.Queue()
        self.b_go = threading.Event()
        self.b_parked = False
        self.race = None        # id of a registration during whose split the result became ready
        orig = self.conn._dispatch

        def dispatch(data):
            seen, complete = self.chan.last
            msg, seq, _ = brine.load(data)
            ours = msg in (consts.MSG_REPLY, consts.MSG_EXCEPTION) and seq == self.chan.our_seq \
                and seq in self.conn._request_callbacks
            kind = 1 if msg == consts.MSG_REQUEST else (0 if seq == self.chan.our_seq else
                                                        3 if seq in self.chan.inspect_seqs else 2)
            try:
                orig(data)
            finally:
                self.disp.append([seen, complete, self.clock.tick, kind, ours])
        self.conn._dispatch = dispatch

    def close(self):
        try:
            self.b_go.set()
            if self.b_thread is not None:
                self.b_thread.join(60)
            self.proxy = None
            self.chan.script = []
            self.conn.close()
        finally:
            rpyc.lib.time = self.saved_time

    def cb(self, c, raises):
        def f(r):
            self.log.append([c, self.clock.tick, r is self.res])
            if raises:
                raise CbError(c)
        f.cid = c
        return f

    def start(self):
        case, conn = self.case, self.conn
        t = real_timeout(case["timeout"])
        if case["mode"] in (0, 2):
            conn._config["sync_request_timeout"] = real_timeout(cfg_of(case))
        if case["mode"] == 0:
            self.res = conn.async_request(consts.HANDLE_PING, b"x", timeout=t)
        elif case["mode"] == 2:
            self.proxy = conn._unbox((consts.LABEL_REMOTE_REF, ("builtins.type", 4321, 8765)))
            self.res = rpyc.timed(self.proxy, t)(1)
        elif case["mode"] == 3:
            conn._config["sync_request_timeout"] = t
            self.proxy = conn._unbox((consts.LABEL_REMOTE_REF, ("builtins.type", 4321, 8765)))
            return self.observe(lambda: [2, value_of(self.proxy(1))])     # BaseNetref.__call__ -> netref.syncreq
        else:
            conn._config["sync_request_timeout"] = t
            return self.observe(lambda: [2, value_of(conn.sync_request(consts.HANDLE_PING, b"x"))])
        return None

    def observe(self, f):
        try:
            return f()
        except CbError as e:
            return [7, e.cid]
        except Hang:
            return [5]
        except (ValueError, TimeoutError) as e:
            if hasattr(e, "_remote_tb"):          # the reply's own exception (its class may well be TimeoutError)
                return [3, e.args[0]]
            if isinstance(exc_value(e), int) and e is getattr(self.res or self.chan.res, "_obj", None):
                return [3, exc_value(e)]          # the error met while rebuilding the reply, delivered as the request's exception
            if isinstance(e, AsyncResultTimeout):
                return [4]
            raise

    def act(self, k, p, r):
        res, conn = self.res, self.conn
        if k == 0:
            self.clock.tick += p
            return [0]
        if k == 1:
            self.regs.append([p, self.clock.tick, bool(r)])
            return self.observe(lambda: [0] if res.add_callback(self.cb(p, r)) is None else [99])
        if k == 2:
            res.set_expiry(real_timeout(p))
            return [0]
        if k == 3:
            return self.observe(lambda: [1, int(bool(res.ready))])
        if k == 4:
            return self.observe(lambda: [1, int(bool(res.error))])
        if k == 5:
            return [1, int(bool(res.expired))]
        if k == 6:
            return self.observe(lambda: [2, value_of(res.value)])
        if k == 7:
            return self.observe(lambda: [0] if res.wait() is None else [99])
        if k == 8:
            return self.observe(lambda: [1, int(bool(conn.serve(real_timeout(p))))])
        if k == 9:
            return self.split_test(p, bool(r))
        return self.split_commit()

    def split_test(self, c, raises):
        """another thread enters add_callback now; if it takes the append branch it is parked just before the append"""
        res = self.res
        if self.pend is not None:
            return [0]
        if not isinstance(res._callbacks, HookList):
            res._callbacks = HookList(res._callbacks, self)
        lk = getattr(res, "_lock", None)
        if lk is not None and not isinstance(lk, ParkLock):
            res._lock = ParkLock(lk, self)
        self.b_parked = False
        f = self.cb(c, raises)
        self.b_go.clear()

        def body():
            try:
                res.add_callback(f)
                self.b_q.put("done")
            except CbError as e:
                self.b_q.put(("exc", e.cid))
            except BaseException as e:          # pragma: no cover
                self.b_q.put(("fail", repr(e)))
        t0 = self.clock.tick
        self.b_thread = threading.Thread(target=body, daemon=True)
        self.b_thread.start()
        what = self.b_q.get(timeout=60)
        if what == "at-append":
            self.pend = (c, raises)
            return [0]
        self.b_thread.join(60)
        self.b_thread = None
        self.regs.append([c, t0, raises])
        if what == "done":
            return [0]
        if what[0] == "exc":
            return [7, what[1]]
        raise RuntimeError("C15 split registration: " + str(what))

    def split_commit(self):
        if self.pend is None:
            return [0]
        c, raises = self.pend
        self.pend = None
        self.regs.append([c, self.clock.tick, raises])
        if self.res._is_ready:
            self.race = c            # the result became ready between the test and the append
        self.b_go.set()
        what = self.b_q.get(timeout=60)
        self.b_thread.join(60)
        self.b_thread = None
        if what == "done":
            return [0]
        if what[0] == "exc":
            return [7, what[1]]
        raise RuntimeError("C15 split registration: " + str(what))

    def final(self):
        res = self.res if self.res is not None else self.chan.res
        ttl = res._ttl
        return {"log": [[c, t] for c, t, _ in self.log], "ready": bool(res._is_ready), "is_exc": bool(res._is_exc),
                "obj": value_of(res._obj), "callbacks": [getattr(f, "cid", -1) for f in res._callbacks],
                "finite": bool(ttl.finite), "tmax": to_tick(ttl.tmax) if ttl.finite else 0,
                "registered": self.chan.our_seq in self.conn._request_callbacks, "queue": len(self.chan.script),
                "now": self.clock.tick}


def finite_of(t):
    """the property's reading of a timeout value: None and negative mean 'never'"""
    return t is not None and t >= 0


ACT_NAMES = ["advance", "add_callback", "set_expiry", "ready", "error", "expired", "value", "wait", "serve",
             "add_callback:test(other thread)", "add_callback:append(other thread)"]


class Oracle(object):
    """the property's statement, evaluated on what the implementation did (no model involved).
    A reply ARRIVES when its frame is completely received; its value is available when the dispatch ends."""

    def __init__(self, run, report):
        self.r, self._report = run, report
        self.tmax = None            # tick of the current expiry, None = never
        self.got = None             # tick at which the accepted reply's dispatch ended
        self.reply_seen = False
        self.prev = "pending"
        self.n_disp = 0
        self.root = None            # a finding already identified in this history: later symptoms carry its signature
        self.k1 = False

    def report(self, sig, what, observed, expected, where):
        if self.root is None and self.k1 and sig in ("timely-reply-lost", "wait:timeout-despite-timely-reply", "query:ready-wrong",
                                                     "query:expired-wrong", "query:error-wrong", "wait:late-timeout"):
            self.root = K1
        self._report(self.root or sig, what, observed, expected, where)

    def arm(self, t):
        self.tmax = self.r.clock.tick + t if finite_of(t) else None

    def expired_now(self):
        return self.tmax is not None and self.r.clock.tick >= self.tmax

    def absorb_dispatches(self):
        """update the expected outcome from the dispatches the implementation performed since the last call"""
        new = [d for d in self.r.disp[self.n_disp:] if d[3] != 3]      # answers to nested class inquiries belong to the reply's dispatch
        self.n_disp = len(self.r.disp)
        for seen, complete, end, kind, ours in new:
            if ours and not self.reply_seen:
                self.reply_seen = True
                if self.got is None and not (self.tmax is not None and complete >= self.tmax):
                    self.got = end
                    self.k1 = self.tmax is not None and end >= self.tmax   # arrived in time, value materialised only after the expiry
        return new

    def expected(self):
        if self.got is not None:
            return "got"
        return "expired" if self.expired_now() else "pending"

    def check_state(self, where):
        r, res = self.r, (self.r.res if self.r.res is not None else self.r.chan.res)
        exp = self.expected()
        st = "got" if res._is_ready else ("expired" if res.expired else "pending")
        if st != exp:
            if exp == "expired" and st == "got":
                self.report("late-reply-accepted", "a reply that arrived at or after the expiry was accepted", st, exp, where)
            elif exp == "got" and st != "got":
                self.report("timely-reply-lost", "a reply that arrived before the expiry did not make the result ready", st, exp, where)
            else:
                self.report("outcome-wrong:%s-instead-of-%s" % (st, exp), "outcome differs from first-of(reply, expiry)", st, exp, where)
        if self.prev == "got" and st != "got":
            self.report("final:value-lost", "a result that had its value lost it", st, "got", where)
        # callbacks
        ids = [[c, t] for c, t, _ in r.log]
        if st == "got" and exp == "got":
            want = [[c, max(t, self.got)] for c, t, _ in r.regs]
            if ids != want:
                if self.root is None:
                    have = [c for c, _ in ids]
                    missing = []
                    for c, _ in want:
                        if c in have:
                            have.remove(c)
                        else:
                            missing.append(c)
                    pending = [x for x in r.regs if x[1] <= self.got]
                    idx = next((i for i, x in enumerate(pending) if x[2]), None)
                    after_raiser = [x[0] for x in pending[idx + 1:] if x[0] != r.race] if idx is not None else []
                    if any(c in after_raiser for c in missing):
                        self.root = F4        # a raising callback was waiting at the arrival and the ones behind it never ran
                    elif r.race is not None and r.race in missing:
                        self.root = F9        # registered by a thread that had tested readiness before the arrival and appended after it
                sig = "callbacks:" + ("missing" if len(ids) < len(want) else "extra" if len(ids) > len(want) else
                                      "order" if sorted(ids) == sorted(want) else "time")
                self.report(sig, "callback log is not the registration sequence, each once, at max(registration, arrival)", ids, want, where)
            if any(not ok for _, _, ok in r.log):
                self.report("callbacks:wrong-argument", "a callback was not passed its AsyncResult", None, None, where)
        elif st != "got" and ids:
            self.report("callbacks:ran-without-result", "callbacks ran although the result never became ready", ids, [], where)
        self.prev = st
        return st

    def late_wait(self, t0, T, new, where):
        """wait raised the timeout error at T > max(t0, expiry): only being busy serving a request excuses that"""
        tmax = self.tmax
        last = new[-1] if new else None
        if last is not None and last[2] == T and last[1] > max(last[0], tmax):
            if self.root is None:
                self.root = K2          # at the expiry instant the thread sat in recv() waiting for the rest of a frame
        elif last is not None and last[2] == T and last[3] == 0 and last[2] > last[1]:
            if self.root is None:
                self.root = K1
        elif last is not None and last[2] == T and last[3] == 2 and last[2] > last[1] and last[0] <= tmax:
            if self.root is None:
                self.root = K3          # busy, but not serving a request: running the callbacks of another pending result's reply
        elif last is not None and last[2] == T and last[3] == 1 and last[0] <= tmax:
            return                      # busy serving a request that arrived by the expiry
        self.report("wait:late-timeout", "wait raised the timeout error later than the expiry instant without being busy serving a request",
                    T, max(t0, tmax), where)


def canon_obs(o):
    return [int(x) if isinstance(x, bool) else x for x in o]


def reply_value(m):
    return [int(m[3] != 0), m[4]]


def impl_run(case, report=None, note=None, atomic_impl=False):
    """returns (trace, final) in the model's shape; evaluates the oracle when report is given"""
    r = Run(case, atomic_impl)
    try:
        orc = Oracle(r, report) if report else None
        trace = []
        t_before = r.clock.tick
        if case["mode"] in (1, 3):
            first = r.start()
            trace.append([canon_obs(first), r.clock.tick])
            if orc:
                sync_oracle(case, first, r, report, atomic_impl)
            return trace, r.final()
        r.start()
        if orc:
            if r.res is None or not isinstance(r.res, AsyncResult):
                report("no-async-result", "async_request/timed did not return an AsyncResult", repr(r.res), "AsyncResult", "start")
                return trace, {}
            want_arm = t_before + case["send_dur"]
            orc.tmax = want_arm + case["timeout"] if finite_of(case["timeout"]) else None
            got = (to_tick(r.res._ttl.tmax) if r.res._ttl.finite else None)
            if got != orc.tmax:
                report("expiry-armed-wrong", "the expiry armed by the request is not 'clock after sending + timeout'", got, orc.tmax, "start")
            orc.check_state("start")
        for i, (k, p, rz) in enumerate(case["actions"]):
            t0 = r.clock.tick
            before = orc.expected() if orc else None
            n_log = len(r.log)
            o = canon_obs(r.act(k, p, rz))
            trace.append([o, r.clock.tick])
            if not orc:
                continue
            where = "action %d %s" % (i, ACT_NAMES[k])
            if k == 2:
                if before == "expired" and note:
                    note("set_expiry-after-expiry" + (":revives" if not (finite_of(p) and p == 0) else ""))
                orc.arm(p)
            new = orc.absorb_dispatches()
            after = orc.expected()
            T = r.clock.tick
            res = r.res
            busy_end = max([t0] + [d[2] for d in new])
            if o[0] == 7:
                # a callback's exception came out of this call: it must have run during it; the result has its value
                if not any(c == o[1] for c, _, _ in r.log[n_log:]):
                    orc.report("callback-exception:from-nowhere", "a call raised the exception of a callback that did not run during it", o, None, where)
            elif k == 5 and o != [1, int(before == "expired")]:
                orc.report("query:expired-wrong", "expired query disagrees with first-of(reply, expiry)", o, [1, int(before == "expired")], where)
            elif k == 3:
                want = [1, int(after == "got")]
                if o != want:
                    orc.report("query:ready-wrong", "ready query disagrees with first-of(reply, expiry)", o, want, where)
            elif k == 4:
                want = [1, int(after == "got" and bool(res._is_exc))]
                if o != want:
                    orc.report("query:error-wrong", "error query disagrees with the outcome", o, want, where)
            elif k in (6, 7):
                val = [0] if k == 7 else ([3, value_of(res._obj)] if res._is_exc else [2, value_of(res._obj)])
                if o == [3, TMARK] and orc.root is None:
                    # .value raised the connection's own timeout error although the result is not expired: it is the reply's
                    # exception, produced when materialising the reply's value timed out under sync_request_timeout
                    orc.root = K4
                    orc.report(K4, "value raised the timeout error before the expiry / without one: materialising the reply timed out",
                               [o, T], "the reply's value, or the timeout error at the expiry", where)
                if before == "got":
                    if o != val or T != busy_end:
                        orc.report("wait:value-not-available", "wait/value on a ready result did not return its value without waiting",
                                   [o, T - t0], [val, busy_end - t0], where)
                elif before == "expired":
                    if o != [4] or T != busy_end:
                        orc.report("wait:expired-not-raised-at-once", "wait/value on an expired result did not raise the timeout error without waiting",
                                   [o, T - t0], [[4], busy_end - t0], where)
                else:
                    tmax = orc.tmax
                    if o == [4]:
                        if after == "got":
                            orc.report("wait:timeout-despite-timely-reply", "wait raised the timeout error although the reply arrived before the expiry", o, "value", where)
                        elif tmax is None:
                            orc.report("wait:timeout-without-expiry", "wait raised the timeout error although no finite expiry is set", o, "wait", where)
                        elif T < tmax:
                            orc.report("wait:early-timeout", "wait raised the timeout error before the expiry instant", T, tmax, where)
                        elif T != max(t0, tmax, busy_end):
                            orc.report("wait:late-timeout", "wait raised the timeout error later than the expiry instant without being busy",
                                       T, max(t0, tmax, busy_end), where)
                        elif T > max(t0, tmax):
                            orc.late_wait(t0, T, new, where)
                    elif o == [5]:
                        if tmax is not None or r.chan.script:
                            orc.report("wait:blocked-forever", "wait blocked with a finite expiry or with messages still to come", o, "return/raise", where)
                    else:
                        if after != "got":
                            orc.report("wait:returned-without-reply", "wait/value returned although no reply was accepted", o, after, where)
                        elif o != val:
                            orc.report("wait:wrong-value", "value returned something else than the reply", o, val, where)
                        elif T != new[-1][2] or not new[-1][4]:
                            orc.report("wait:returned-late", "wait did not return when the reply had been dispatched", T, new[-1][2], where)
            st = orc.check_state(where)
            if st == "got":
                msgs = [m for m in case["queue"] if m[2] == 0]
                if msgs and [int(bool(res._is_exc)), value_of(res._obj)] != eff_reply(case, msgs[0]):
                    orc.report("final:value-changed", "the value is not the one of the (first) reply", repr(res._obj), msgs[0], where)
        return trace, r.final()
    finally:
        r.close()


def sync_oracle(case, first, r, report, atomic_impl):
    """a synchronous request / proxy operation behaves as async_request(timeout=configured).value"""
    twin = dict(case, mode=0, cfg=case["timeout"], actions=[[6, None, 0]])
    tr2, fin2 = impl_run(twin, atomic_impl=atomic_impl)
    mine = [canon_obs(first), r.clock.tick]
    name = "sync_request" if case["mode"] == 1 else "proxy operation (netref.syncreq)"
    if canon_obs(first) == [3, TMARK] and tr2[0] == mine:
        report(K4, "%s raised the timeout error before the configured expiry: materialising the reply timed out" % name,
               mine, "the reply's value, or the timeout error at the expiry", name)
        return
    if tr2[0] != mine:
        report("sync-differs-from-async", "%s does not behave as async_request with the configured timeout followed by .value" % name,
               mine, tr2[0], name)
    t = case["timeout"]
    if finite_of(t):
        tmax = case["t0"] + case["send_dur"] + t
        timely = [d for d in r.disp if d[4] and d[1] < tmax]
        if first == [4] and r.clock.tick < tmax:
            report("wait:early-timeout", "%s raised the timeout error before the configured expiry" % name, r.clock.tick, tmax, name)
        if first != [4] and not timely:
            report("sync:timeout-not-applied", "%s returned/blocked although no reply arrived before the configured expiry" % name,
                   first, [4], name)


# ---------------------------------------------------------------------------------------------------- generation

def gen_timeout(r):
    c = r.random()
    if c < 0.14:
        return None
    if c < 0.22:
        return 0
    if c < 0.29:
        return -r.choice([1, 2, 5, 40])
    return r.choice([1, 2, 3, 4, 5, 6, 8, 12, 16, 40])


def gen_case(r, max_actions):
    t0 = r.choice([0, 0, 3, 17, 100])
    mode = r.choice([0, 0, 0, 0, 0, 2, 2, 1, 3])
    timeout = gen_timeout(r)
    send_dur = r.choice([0, 0, 0, 1, 3])
    tmax = t0 + send_dur + timeout if finite_of(timeout) else t0 + send_dur + 6
    cfg = r.choice([DEFAULT_CFG] * 6 + [2, 4, 8, None])      # the configured sync_request_timeout (modes 0 and 2)
    cfg_eff = timeout if mode in (1, 3) else cfg
    queue = []
    have_reply = False
    for _ in range(r.choice([0, 1, 1, 2, 2, 3, 4, 6])):
        a = max(t0 - 1, tmax + r.choice([-4, -3, -2, -1, -1, 0, 0, 0, 1, 1, 2, 5]))
        cpl = a + (r.choice([1, 2, 3, 6]) if r.random() < 0.10 else 0)
        c = r.random()
        if c < (0.25 if have_reply else 0.6):
            p = r.choice([0, 0, 0, 0, 0, 0, 1, 1, 2, 3])
            u = 0
            if p == 0 and r.random() < 0.15:                  # the value needs a round trip; now and then longer than allowed
                u = r.choice([1, 2, 3, 6] + ([max(1, cfg_eff), cfg_eff + 2, max(1, cfg_eff - 1)] if finite_of(cfg_eff) and cfg_eff < 50 else []))
            queue.append([a, cpl, 0, p, r.choice([0, 1, 7, -5, 123456789]), u])
            have_reply = True
        elif c < 0.9:
            queue.append([a, cpl, 1, r.choice([0, 1, 1, 2, 3, 7]), 0, 0])
        else:
            queue.append([a, cpl, 2, r.choice([0, 0, 0, 1, 3, 10]), 0, 0])     # another pending result's reply; its callbacks run p ticks
    if r.random() < 0.93:
        queue.sort(key=lambda m: m[0])
    actions = []
    if mode in (0, 2):
        n = r.randint(1, max_actions)
        now_est = t0 + send_dur
        cid = 0
        commit_in = None
        for _ in range(n):
            if commit_in is not None:
                commit_in -= 1
                if commit_in < 0:
                    actions.append([10, None, 0])
                    commit_in = None
                    continue
            c = r.random()
            if c < 0.22:
                d = r.choice([0, 1, 1, 2, 3, max(0, tmax - now_est), max(0, tmax - now_est - 1), max(0, tmax - now_est + 1)])
                actions.append([0, d, 0])
                now_est += d
            elif c < 0.37:
                cid += 1
                actions.append([1, cid if r.random() < 0.9 else 1, int(r.random() < 0.15)])
            elif c < 0.42:
                cid += 1
                actions.append([9, cid, int(r.random() < 0.1)])
                if commit_in is None:
                    commit_in = r.choice([0, 1, 1, 2, 3])
            elif c < 0.48:
                t = gen_timeout(r)
                actions.append([2, t, 0])
                if finite_of(t):
                    tmax = now_est + t
            elif c < 0.57:
                actions.append([3, None, 0])
            elif c < 0.64:
                actions.append([4, None, 0])
            elif c < 0.74:
                actions.append([5, None, 0])
            elif c < 0.82:
                actions.append([6, None, 0])
            elif c < 0.92:
                actions.append([7, None, 0])
            else:
                actions.append([8, r.choice([0, 0, 1, 2, 5, -1, None]), 0])
        if commit_in is not None or r.random() < 0.02:
            actions.append([10, None, 0])
    case = {"mode": mode, "tie": int(r.random() < 0.5), "t0": t0, "timeout": timeout, "send_dur": send_dur,
            "queue": queue, "actions": actions}
    if mode in (0, 2) and cfg != DEFAULT_CFG:
        case["cfg"] = cfg
    return case


def directed_cases():
    """the four findings and their neighbours, always present"""
    A = lambda *acts: [list(a) for a in acts]
    base = {"mode": 0, "tie": 0, "t0": 0, "send_dur": 0}
    out = []
    for u in (0, 1, 3):
        for a in (2, 4, 5):                      # expiry 5: slow reply received at a, value materialised at a+u
            out.append(dict(base, timeout=5, queue=[[a, a, 0, 0, 42, u]], actions=A([1, 1, 0], [7, None, 0], [5, None, 0], [3, None, 0])))
    for a, c in ((1, 9), (4, 7), (4, 4), (6, 9)):  # expiry 5: a frame whose first byte is there at a, complete at c
        for kind in (2, 1, 0):
            out.append(dict(base, timeout=5, queue=[[a, c, kind, 0, 7, 0]], actions=A([7, None, 0], [5, None, 0], [8, 0, 0], [3, None, 0])))
    for rz in ((1, 0, 0), (0, 1, 0), (0, 0, 1), (1, 1, 0), (0, 0, 0)):   # raising callbacks before / after the arrival
        out.append(dict(base, timeout=40, queue=[[3, 3, 0, 0, 42, 0]],
                        actions=A([1, 1, rz[0]], [1, 2, rz[1]], [7, None, 0], [1, 3, rz[2]], [6, None, 0], [1, 4, 0], [3, None, 0])))
    for mid in ([7, None, 0], [8, None, 0], [3, None, 0], [0, 1, 0], [6, None, 0]):   # registration split around the arrival
        out.append(dict(base, timeout=None, queue=[[3, 3, 0, 0, 42, 0]],
                        actions=A([1, 1, 0], [9, 2, 0], mid, [10, None, 0], [6, None, 0], [9, 3, 0], [10, None, 0], [5, None, 0])))
    for p in (1, 2, 3):                          # exception replies (one of class TimeoutError) and an undecodable reply, before the expiry
        out.append(dict(base, timeout=40, queue=[[3, 3, 0, p, 11, 0]], actions=A([7, None, 0], [4, None, 0], [6, None, 0], [5, None, 0])))
    for mode in (1, 3):
        for a in (2, 3, 4):
            out.append(dict(base, mode=mode, timeout=3, queue=[[a, a, 0, 0, 5, 0]], actions=[]))
        for u in (1, 2, 5):                      # synchronous request, timeout 3 (also bounds the class inquiry), reply at 1 needs u ticks
            out.append(dict(base, mode=mode, timeout=3, queue=[[1, 1, 0, 0, 5, u]], actions=[]))
    for timeout in (None, 40):                   # the class inquiry is never answered: configured timeout 8 / the default
        for cfg, u in ((8, 130), (8, 8), (8, 7), (DEFAULT_CFG, 130), (None, 130)):
            out.append(dict(base, timeout=timeout, cfg=cfg, queue=[[4, 4, 0, 0, 42, u]],
                            actions=A([1, 1, 0], [6, None, 0], [5, None, 0], [3, None, 0], [4, None, 0])))
    for d in (0, 1, 10):                         # expiry 5: the reply to another pending request at 3, its callbacks run d ticks
        out.append(dict(base, timeout=5, queue=[[3, 3, 2, d, 0, 0]], actions=A([7, None, 0], [5, None, 0])))
    return out


def grid_cases():
    """boundary enumeration: timeout in {None,-1,0,3} x reply {none, before, at, after the expiry} x value/exception
    x tie flag x traffic {none, ends before, straddles the expiry} x action words"""
    out = []
    menus = [[1, 1, 0], [3, None, 0], [5, None, 0], [7, None, 0], [6, None, 0], [0, 3, 0], [0, 4, 0], [8, 0, 0], [4, None, 0]]
    words = []
    for a in menus:
        for b in menus:
            words.append([a, b, [1, 2, 0], [5, None, 0], [3, None, 0]])
    for timeout in (None, -1, 0, 3):
        for rep in (None, 2, 3, 4):
            for exc in (0, 1):
                if rep is None and exc:
                    continue
                for tie in (0, 1):
                    for traffic in (None, [1, 1], [2, 2], [3, 2]):
                        q = []
                        if traffic:
                            q.append([traffic[0], traffic[0], 1, traffic[1], 0, 0])
                        if rep is not None:
                            q.append([rep, rep, 0, exc, 41 + rep, 0])
                        q.sort(key=lambda m: m[0])
                        for i, wd in enumerate(words):
                            if (i + len(out)) % 3:
                                continue
                            out.append({"mode": 0, "tie": tie, "t0": 0, "timeout": timeout, "send_dur": 0,
                                        "queue": [list(m) for m in q], "actions": [list(x) for x in wd]})
    return out


def nontrivial(case):
    return (len(case["actions"]) >= 3 or case["mode"] in (1, 3)) and (bool(case["queue"]) or finite_of(case["timeout"]))


def check_cases(ctx, model, cases, atomic_impl, flags):
    outs = model.batch([case_sx(c, flags) for c in cases]) if model else None
    for i, case in enumerate(cases):
        seen = []

        def report(sig, what, observed, expected, where, case=case, seen=seen):
            if not seen:          # the first failure of a history is the cause; what follows in the same history is consequence
                seen.append(sig)
                ctx.violation(sig, case, observed=observed, expected=expected, what="%s (%s)" % (what, where))
        try:
            trace, fin = impl_run(case, report, ctx.count, atomic_impl)
        except Exception as e:   # the implementation must not fail in any other way on these histories
            ctx.violation("unexpected-exception:" + type(e).__name__, case, observed=repr(e), expected="an observation",
                          what="the implementation raised something the property does not allow")
            continue
        key = json.dumps(case, sort_keys=True)
        ctx.case(key, nontrivial=nontrivial(case),
                 sample={"case": case, "trace": trace[:6], "log": fin.get("log")})
        ctx.count("mode:%d" % case["mode"])
        ctx.count("timeout:" + ("none" if case["timeout"] is None else "negative" if case["timeout"] < 0 else
                                "zero" if case["timeout"] == 0 else "positive"))
        for o, _ in trace:
            ctx.count("obs:" + ["none", "bool", "value", "remote-exception", "timeout-error", "would-block-forever", "fuel",
                                "callback-exception"][o[0]])
        if seen:
            ctx.count("oracle-failed:" + seen[0])
        if any(m[1] > m[0] for m in case["queue"]):
            ctx.count("with:fragmented-frame")
        if any(m[5] for m in case["queue"]):
            ctx.count("with:slow-reply")
        if any(m[2] == 0 and m[3] == 3 for m in case["queue"]):
            ctx.count("with:undecodable-reply")
        if any(a[0] in (1, 9) and a[2] for a in case["actions"]):
            ctx.count("with:raising-callback")
        if any(a[0] == 9 for a in case["actions"]):
            ctx.count("with:split-registration")
        if fin.get("ready"):
            ctx.count("final:got")
        elif fin.get("finite") and fin.get("now") >= fin.get("tmax"):
            ctx.count("final:expired")
            if not fin.get("registered") and any(m[2] == 0 for m in case["queue"]):
                ctx.count("late-reply-discarded")
        else:
            ctx.count("final:pending")
        if outs is not None:
            ctx.model_traces += 1
            try:
                mtrace, mfin = canon_model(outs[i])
            except Exception:
                ctx.tie_broken("correspondence:model-output", "case %s model %r" % (key, outs[i]))
                continue
            if mtrace != trace:
                j = next((j for j in range(min(len(trace), len(mtrace))) if trace[j] != mtrace[j]), min(len(trace), len(mtrace)))
                ctx.tie_broken("correspondence:trace", "case %s first difference at observation %d: model %r impl %r"
                               % (key, j, mtrace[j:j + 1], trace[j:j + 1]))
            elif mfin != fin:
                ctx.tie_broken("correspondence:final-state", "case %s model %r impl %r" % (key, mfin, fin))


def check_reentrant(ctx):
    """oracle only (not in the model): callbacks that touch the result while they run -- register another callback, read the
    value, wait -- still give 'each once, in registration order'"""
    for variant in range(4):
        case = {"mode": 0, "tie": 0, "t0": 0, "timeout": 40, "send_dur": 0, "queue": [[3, 3, 0, 0, 42, 0]], "actions": [],
                "reentrant": variant}
        r = Run(case)
        try:
            r.start()
            res, log = r.res, []

            def inner(x):
                log.append("inner")

            def outer(x):
                log.append("outer")
                if variant == 0:
                    x.add_callback(inner)
                elif variant == 1:
                    log.append(("value", x.value))
                elif variant == 2:
                    x.wait()
                    log.append(("ready", x.ready))
                else:
                    x.add_callback(inner)
                    x.add_callback(inner)

            def last(x):
                log.append("last")
            res.add_callback(outer)
            res.add_callback(last)
            res.wait()
            want = {0: ["outer", "inner", "last"], 1: ["outer", ("value", 42), "last"], 2: ["outer", ("ready", True), "last"],
                    3: ["outer", "inner", "inner", "last"]}[variant]
            ctx.case(("reentrant", variant), nontrivial=True)
            ctx.count("reentrant-callback")
            if log != want:
                ctx.violation("callbacks:reentrant", case, observed=log, expected=want,
                              what="a callback that uses its result while running broke 'each once, in registration order'")
        finally:
            r.close()


def check_baseexception(ctx):
    """oracle only (the model's raising callbacks raise an Exception): a callback that raises KeyboardInterrupt / SystemExit /
    GeneratorExit must not make the callbacks behind it disappear"""
    for i, exc in enumerate((KeyboardInterrupt, SystemExit, GeneratorExit)):
        case = {"mode": 0, "tie": 0, "t0": 0, "timeout": 40, "send_dur": 0, "queue": [[3, 3, 0, 0, 42, 0]], "actions": [],
                "baseexception": exc.__name__}
        r = Run(case)
        try:
            r.start()
            res, log = r.res, []

            def cb1(x, exc=exc):
                log.append(1)
                raise exc("from a callback")
            res.add_callback(cb1)
            res.add_callback(lambda x: log.append(2))
            try:
                res.wait()
                got = "returned"
            except BaseException as e:
                got = type(e).__name__
            res.add_callback(lambda x: log.append(3))
            ctx.case(("baseexception", exc.__name__), nontrivial=True)
            ctx.count("baseexception-callback")
            if log != [1, 2, 3] or not res._is_ready:
                ctx.violation(F5, case, observed={"log": log, "wait": got, "still registered": len(res._callbacks)}, expected=[1, 2, 3],
                              what="a callback raising %s at the arrival made the callbacks registered behind it disappear: "
                                   "they never run, a later one does" % exc.__name__)
        finally:
            r.close()


def check_publication(ctx):
    """oracle only: the readers (ready / error / value) take no lock, so the order in which the arrival PUBLISHES the outcome matters:
    a thread that looks between any two lines of AsyncResult.__call__ and finds the result ready must find the outcome that was
    delivered. The delivery is stepped line by line (sys.settrace on that one code object) and the result is read through its public
    properties at every stop - exactly what a polling thread scheduled there would see."""
    import sys as _sys
    from rpyc.core.async_ import AsyncResult

    class _Conn(object):
        def poll_all(self): return None
        def serve(self, *a, **k): raise Hang("a reader of a ready result must not serve")
    code = AsyncResult.__call__.__code__
    for is_exc in (False, True):
        outcome = ValueError("delivered") if is_exc else 42
        res = AsyncResult(_Conn())
        bad, stops = [], [0]
        case = {"publication": "exception" if is_exc else "value"}

        def look(line):
            stops[0] += 1
            if not res.ready:
                return
            err = bool(res.error)
            try:
                got = ("value", res.value)
            except BaseException as e:
                got = ("raised", e)
            want = ("raised", outcome) if is_exc else ("value", outcome)
            if err != is_exc or got[0] != want[0] or got[1] is not want[1]:
                bad.append({"line": line, "ready": True, "error": err, "got": "%s %r" % (got[0], got[1])[:120]})

        def local(frame, event, arg):
            if event in ("line", "return"):
                look(frame.f_lineno)
            return local

        def tracer(frame, event, arg):
            return local if frame.f_code is code else None
        old = _sys.gettrace()
        _sys.settrace(tracer)
        try:
            res(is_exc, outcome)
        finally:
            _sys.settrace(old)
        ctx.case(("publication", is_exc), nontrivial=stops[0] >= 3, sample={"case": case, "stops": stops[0]})
        ctx.count("publication-order")
        if bad:
            ctx.violation("ready-before-outcome-stored", case, observed=bad[:3], expected="a result that reports ready shows the delivered outcome",
                          what="between two lines of the arrival the result reports ready while value / error still show the previous "
                               "(empty) outcome: a polling thread scheduled there reads None or misses the exception")


def check_timeouts(ctx, model, r, n, triples=None):
    """the Timeout class alone: finite / tmax / expired / timeleft, and Timeout(Timeout) copies"""
    cases = list(triples or [])
    for _ in range(0 if triples else n):
        t = gen_timeout(r) if r.random() < 0.8 else r.choice([0, 1, -1, None])
        tc = r.choice([0, 5, 100])
        tq = tc + r.choice([0, 0, 1, 2, 3]) if t is None or t < 0 else tc + t + r.choice([-2, -1, 0, 0, 1, 2, 7])
        cases.append((t, tc, max(tq, tc)))
    outs = model.batch([["tmo", opt_sx(t), tc, tq] for t, tc, tq in cases]) if model else None
    saved = rpyc.lib.time
    try:
        for i, (t, tc, tq) in enumerate(cases):
            clk = Clock(tc)
            rpyc.lib.time = clk
            tt = Timeout(real_timeout(t))
            cp = Timeout(tt)
            clk.tick = tq
            tl = tt.timeleft()
            got = [int(bool(tt.finite)), to_tick(tt.tmax) if tt.finite else 0, int(bool(tt.expired())), [] if tl is None else [tl / TICK]]
            case = {"timeout_case": [t, tc, tq]}
            ctx.case(("tmo", t, tc, tq), nontrivial=t is not None, sample={"timeout": t, "created": tc, "queried": tq, "impl": got})
            ctx.count("timeout-class")
            fin = finite_of(t)
            want = [int(fin), tc + t if fin else 0, int(fin and tq >= tc + t), [max(0, tc + t - tq)] if fin else []]
            if got != want:
                ctx.violation("timeout-class:" + ("finite" if got[0] != want[0] else "tmax" if got[1] != want[1] else
                                                  "expired" if got[2] != want[2] else "timeleft"),
                              case, observed=got, expected=want, what="Timeout(%r) created at %d, asked at %d" % (t, tc, tq))
            if (cp.finite, cp.tmax, cp.expired(), cp.timeleft()) != (tt.finite, tt.tmax, tt.expired(), tt.timeleft()):
                ctx.violation("timeout-class:copy", case, observed=(cp.finite, cp.tmax), expected=(tt.finite, tt.tmax),
                              what="Timeout(Timeout) is not a copy")
            if outs is not None:
                ctx.model_traces += 1
                m = [int(outs[i][0]), outs[i][1], int(outs[i][2]), list(outs[i][3])]
                if m != got:
                    ctx.tie_broken("correspondence:timeout-class", "Timeout(%r) at %d asked at %d: model %r impl %r" % (t, tc, tq, m, got))
    finally:
        rpyc.lib.time = saved


def setup(ctx):
    model = C.Model("async")
    model = model if model.available() else None
    atomic_impl = probe_atomic()
    flags = gen_flags()
    ctx.coverage_extra["generated_facts"] = {"callbacks_isolated": bool(flags[0]), "add_callback_atomic": bool(flags[1]),
                                             "implementation_appends_under_a_lock": bool(atomic_impl)}
    return model, atomic_impl, flags


def run(ctx):
    r = ctx.rng
    model, atomic_impl, flags = setup(ctx)
    ctx.coverage_extra["rule"] = (
        "histories = (how the result is created: async_request(timeout) / timed(proxy, timeout) / conn.sync_request / a synchronous "
        "proxy operation with configured timeout; stream script of (first-byte tick, completion tick, reply value|ValueError|TimeoutError "
        "reply with an unboxing duration|unrelated request with a dispatch duration|stray reply), sorted mostly, duplicates and unsorted "
        "now and then, 10% fragmented frames, 15% slow replies; tie flag; send duration; up to 12 (quick) / 60 (thorough) caller actions "
        "out of advance, add_callback (15% raising), add_callback split over a second thread, set_expiry, ready, error, expired, value, "
        "wait, serve), timeouts None/0/negative/positive, arrivals placed at expiry-4..expiry+5 with weight on -1/0/+1; plus directed "
        "cases for every finding, a boundary grid (timeout x reply position x tie x traffic x action words), re-entrant callbacks "
        "(oracle only) and the Timeout class alone; non-trivial = at least 3 actions (or a sync request) and a message or a finite "
        "timeout; distinct by the whole case")
    cases = directed_cases() + grid_cases()[::(2 if ctx.quick else 1)]
    n = 2500 if ctx.quick else 100000
    maxa = 12 if ctx.quick else 60
    for i in range(n):
        cases.append(gen_case(r, maxa if i % 4 else 6))
    if not DECODE_FAILURE_DELIVERED:       # the older _dispatch lets a decode failure escape the serving loop: outside the model
        for c in cases:
            for m in c["queue"]:
                if m[2] == 0 and m[3] == 3:
                    m[3] = 1
    for i in range(0, len(cases), 20000):
        check_cases(ctx, model, cases[i:i + 20000], atomic_impl, flags)
    check_reentrant(ctx)
    check_baseexception(ctx)
    check_publication(ctx)
    check_timeouts(ctx, model, r, 400 if ctx.quick else 5000)


def replay(ctx, rep):
    case = rep["case"] or {}
    model, atomic_impl, flags = setup(ctx)
    if "timeout_case" in case:
        check_timeouts(ctx, model, ctx.rng, 0, [tuple(case["timeout_case"])])
    elif "reentrant" in case:
        check_reentrant(ctx)
    elif "baseexception" in case:
        check_baseexception(ctx)
    elif "publication" in case:
        check_publication(ctx)
    else:
        check_cases(ctx, model, [case], atomic_impl, flags)
