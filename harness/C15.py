"""C15 — asynchronous results: one final outcome, callbacks once, timeouts exact.

The real AsyncResult / Timeout / Connection.serve / poll_all / sync_request / async_request / timed are driven
over a scripted fake channel and a virtual clock (rpyc.lib.time is replaced by a fake module object, nothing
sleeps).  Every generated history is (1) judged by an oracle that evaluates the property's own statement on what
the implementation did and (2) compared observation by observation with the extracted model/Async.v."""
import json
from harness import common as C

META = {
    "level": "proof",
    "level_text": "Theorems over ALL event histories in virtual time (props/C15.v): the outcome is the first of 'reply dispatched' and "
                  "'expiry passed' and is final; with a value every registered callback ran exactly once, in registration order, at "
                  "max(registration, arrival); with expiry none ever runs and a late reply changes nothing; wait raises at exactly "
                  "max(start, expiry, end of the dispatch the waiting thread was busy with) and never before the expiry; sync_request = "
                  "async_request with the configured timeout then value; timed = async then set_expiry.  Timeout's arithmetic and the "
                  "control skeletons of every anchored method are regenerated from the source on every run and tied by reflexivity; "
                  "the extracted model is compared with the real classes on generated histories. Proof is the right level: the "
                  "property quantifies over all orderings and all timeout values.",
    "level_note": "Trusted: Coq kernel, pygen, extraction + driver, harness (fake channel, virtual clock). Outside: rounding of real "
                  "poll()/time.time(), multi-threaded serving (C13/C14), callbacks that raise or re-enter the result (excluded by the "
                  "property's side condition). 'Reply arrives' means 'is dispatched by the serving thread'. set_expiry() called again "
                  "after the expiry passed starts a new expiry by the API's own definition (relative to now); finality of 'expired' "
                  "is stated between set_expiry calls, finality of a value unconditionally.",
    "technique": "Coq proof by induction over histories with ghost dispatch/registration logs; generated Timeout functions and method "
                 "skeletons tied by reflexivity; differential correspondence of the extracted model on a virtual clock",
    "gen": ["libinit", "async_"],
    "shapes": ["libinit.*", "async_.*"],
    "models": ["async"],
    "model_files": ["Async"],
    "assumptions": [
        "virtual time: the fake channel's poll(timeout) returns at min(next scripted arrival, now + timeout.timeleft()) exactly; a tie "
        "between arrival and deadline is resolved by a per-case flag (both ways are generated)",
        "callbacks only record (they do not raise and do not touch the result), as the property's side condition says",
        "single serving thread per history (contention on the receive lock is C12-C14)",
    ],
}

import rpyc
import rpyc.lib
from rpyc.core import brine, consts, vinegar
from rpyc.core.protocol import Connection
from rpyc.core.async_ import AsyncResult, AsyncResultTimeout
from rpyc.lib import Timeout

BASE, TICK = 1000.0, 0.25


class Hang(Exception):
    """the fake channel was asked to block forever (no deadline, nothing scripted)"""


class Spin(Exception):
    """the code under test keeps polling at one virtual instant: a busy loop that only real time passing would end"""


class Clock(object):
    """stands in for the `time` module inside rpyc.lib"""

    def __init__(self, tick):
        self.tick = tick

    def time(self):
        return BASE + self.tick * TICK

    def sleep(self, d):
        raise RuntimeError("C15: something tried to sleep")


def to_tick(x):
    """real clock value -> tick (int when exact)"""
    v = (x - BASE) / TICK
    return int(v) if v == int(v) else v


def real_timeout(t):
    if t is None:
        return None
    return t // 4 if t % 4 == 0 and t % 8 == 0 else t * TICK   # ints now and then, floats mostly


class Chan(object):
    """scripted channel: messages become readable at their arrival tick"""

    def __init__(self, clock, case):
        self.clock = clock
        self.script = [list(m) for m in case["queue"]]
        self.tie = bool(case["tie"])
        self.send_dur = case["send_dur"]
        self.closed = False
        self.our_seq = None
        self.conn = None
        self.res = None
        self.n_sent = 0
        self.spin = 0

    def poll(self, timeout):
        now = self.clock.tick
        a = self.script[0][0] if self.script else None
        if a is not None and a <= now:
            return True
        tl = timeout.timeleft()
        if tl is None or tl < 0:          # a real poll() with a negative timeout blocks like one without
            if a is None:
                raise Hang()
            self.clock.tick = a
            return True
        dl = now + tl / TICK
        if a is not None and (a < dl or (a == dl and self.tie)):
            self.clock.tick = a
            return True
        if dl == now:
            self.spin += 1
            if self.spin > 300:
                raise Spin()
        else:
            self.spin = 0
        self.clock.tick = int(dl) if dl == int(dl) else dl
        return False

    def recv(self):
        a, kind, p, q = self.script.pop(0)
        if kind == 0:
            seq = self.our_seq if self.our_seq is not None else 424242
            if p:
                raw = vinegar.dump(ValueError, ValueError(q), None, False, False)
                return brine.dump((consts.MSG_EXCEPTION, seq, raw))
            return brine.dump((consts.MSG_REPLY, seq, (consts.LABEL_VALUE, q)))
        if kind == 1:
            return brine.dump((consts.MSG_REQUEST, 777000 + len(self.script),
                               (consts.HANDLE_PING, (consts.LABEL_TUPLE, ((consts.LABEL_VALUE, b"D%d" % max(0, p)),)))))
        return brine.dump((consts.MSG_REPLY, 999999, (consts.LABEL_VALUE, 0)))

    def send(self, data):
        self.n_sent += 1
        msg, seq, args = brine.load(data)
        if msg == consts.MSG_REQUEST and args[0] in (consts.HANDLE_PING, consts.HANDLE_CALL) and self.our_seq is None:
            self.our_seq = seq
            self.res = self.conn._request_callbacks.get(seq)
            self.clock.tick += self.send_dur          # sending takes time; the expiry is armed afterwards
        elif msg == consts.MSG_REPLY and isinstance(args[1], bytes) and args[1][:1] == b"D":
            self.clock.tick += int(args[1][1:])       # the unrelated request kept this thread busy

    def close(self):
        self.closed = True

    def fileno(self):
        return -1


def opt_sx(t):
    return [] if t is None else [t]


def case_sx(case):
    return ["hist", case["mode"], int(case["tie"]), case["t0"], opt_sx(case["timeout"]), case["send_dur"],
            [[a, k, int(p), q] for a, k, p, q in case["queue"]],
            [[k, (opt_sx(p) if k in (2, 8) else (p or 0))] for k, p in case["actions"]]]


def canon_model(out):
    """model answer -> same Python shape as impl_run's"""
    tr, fin = out
    trace = [[[int(x) for x in o], t] for o, t in tr]
    log, ready, exc, obj, cbs, fin_, tmax, reg, qlen, now = fin
    return trace, {"log": [[c, t] for c, t in log], "ready": bool(ready), "is_exc": bool(exc), "obj": obj, "callbacks": list(cbs),
                   "finite": bool(fin_), "tmax": tmax, "registered": bool(reg), "queue": qlen, "now": now}


class Run(object):
    """one history against the real classes"""

    def __init__(self, case):
        self.case = case
        self.clock = Clock(case["t0"])
        self.saved_time = rpyc.lib.time
        rpyc.lib.time = self.clock
        self.chan = Chan(self.clock, case)
        self.conn = Connection(rpyc.VoidService(), self.chan, {})
        self.chan.conn = self.conn
        self.log = []           # callback invocations [id, tick]
        self.regs = []          # registrations [id, tick]
        self.disp = []          # dispatches [tick at receipt, tick at end, kind, was_registered_reply]
        self.res = None
        self.proxy = None
        orig = self.conn._dispatch

        def dispatch(data):
            t0 = self.clock.tick
            msg, seq, _ = brine.load(data)
            ours = msg in (consts.MSG_REPLY, consts.MSG_EXCEPTION) and seq == self.chan.our_seq \
                and seq in self.conn._request_callbacks
            kind = 1 if msg == consts.MSG_REQUEST else (0 if seq == self.chan.our_seq else 2)
            orig(data)
            self.disp.append([t0, self.clock.tick, kind, ours])
        self.conn._dispatch = dispatch

    def close(self):
        try:
            self.proxy = None
            self.chan.script = []
            self.conn.close()
        finally:
            rpyc.lib.time = self.saved_time

    def cb(self, c):
        def f(r):
            self.log.append([c, self.clock.tick, r is self.res])
        f.cid = c
        return f

    def start(self):
        case, conn = self.case, self.conn
        t = real_timeout(case["timeout"])
        if case["mode"] == 0:
            self.res = conn.async_request(consts.HANDLE_PING, b"x", timeout=t)
        elif case["mode"] == 2:
            self.proxy = conn._unbox((consts.LABEL_REMOTE_REF, ("builtins.type", 4321, 8765)))
            self.res = rpyc.timed(self.proxy, t)(1)
        else:
            conn._config["sync_request_timeout"] = t
            return self.observe(lambda: [2, conn.sync_request(consts.HANDLE_PING, b"x")])
        return None

    def observe(self, f):
        try:
            return f()
        except AsyncResultTimeout:
            return [4]
        except Hang:
            return [5]
        except ValueError as e:
            return [3, e.args[0]]

    def act(self, k, p):
        res, conn = self.res, self.conn
        if k == 0:
            self.clock.tick += p
            return [0]
        if k == 1:
            self.regs.append([p, self.clock.tick])
            res.add_callback(self.cb(p))
            return [0]
        if k == 2:
            res.set_expiry(real_timeout(p))
            return [0]
        if k == 3:
            return [1, int(bool(res.ready))]
        if k == 4:
            return [1, int(bool(res.error))]
        if k == 5:
            return [1, int(bool(res.expired))]
        if k == 6:
            return self.observe(lambda: [2, res.value])
        if k == 7:
            return self.observe(lambda: [0] if res.wait() is None else [99])
        return self.observe(lambda: [1, int(bool(conn.serve(real_timeout(p))))])

    def final(self):
        res = self.res if self.res is not None else self.chan.res
        ttl = res._ttl
        return {"log": [[c, t] for c, t, _ in self.log], "ready": bool(res._is_ready), "is_exc": bool(res._is_exc),
                "obj": (res._obj.args[0] if isinstance(res._obj, Exception) else (res._obj or 0)),
                "callbacks": [getattr(f, "cid", -1) for f in res._callbacks],
                "finite": bool(ttl.finite), "tmax": to_tick(ttl.tmax) if ttl.finite else 0,
                "registered": self.chan.our_seq in self.conn._request_callbacks, "queue": len(self.chan.script),
                "now": self.clock.tick}


def finite_of(t):
    """the property's reading of a timeout value: None and negative mean 'never'"""
    return t is not None and t >= 0


class Oracle(object):
    """the property's statement, evaluated on what the implementation did (no model involved)"""

    def __init__(self, run, report):
        self.r, self.report = run, report
        self.tmax = None            # tick of the current expiry, None = never
        self.got = None             # (e, v, tick) once the reply was dispatched before the expiry
        self.reply_seen = False
        self.prev = "pending"
        self.n_disp = 0

    def arm(self, t):
        self.tmax = self.r.clock.tick + t if finite_of(t) else None

    def expired_now(self):
        return self.tmax is not None and self.r.clock.tick >= self.tmax

    def absorb_dispatches(self):
        """update the expected outcome from the dispatches the implementation performed since the last call"""
        new = self.r.disp[self.n_disp:]
        self.n_disp = len(self.r.disp)
        for t0, t1, kind, ours in new:
            if ours and not self.reply_seen:
                self.reply_seen = True
                if self.got is None and not (self.tmax is not None and t0 >= self.tmax):
                    self.got = t0
        return new

    def expected(self):
        if self.got is not None:
            return "got"
        return "expired" if self.expired_now() else "pending"

    def check_state(self, where):
        r, res = self.r, (self.r.res if self.r.res is not None else self.r.chan.res)
        exp = self.expected()
        st = "got" if res._is_ready else ("expired" if res.expired else "pending")
        if st != exp:
            if exp == "expired" and st == "got":
                self.report("late-reply-accepted", "a reply dispatched at or after the expiry was accepted", st, exp, where)
            elif exp == "got" and st != "got":
                self.report("timely-reply-lost", "a reply dispatched before the expiry did not make the result ready", st, exp, where)
            else:
                self.report("outcome-wrong:%s-instead-of-%s" % (st, exp), "outcome differs from first-of(reply, expiry)", st, exp, where)
        # finality
        if self.prev == "got" and st != "got":
            self.report("final:value-lost", "a result that had its value lost it", st, "got", where)
        # callbacks
        ids = [[c, t] for c, t, _ in r.log]
        if st == "got" and exp == "got":
            want = [[c, max(t, self.got)] for c, t in r.regs]
            if ids != want:
                sig = "callbacks:" + ("missing" if len(ids) < len(want) else "extra" if len(ids) > len(want) else
                                      "order" if sorted(ids) == sorted(want) else "time")
                self.report(sig, "callback log is not the registration sequence, each once, at max(registration, arrival)", ids, want, where)
            if any(not ok for _, _, ok in r.log):
                self.report("callbacks:wrong-argument", "a callback was not passed its AsyncResult", None, None, where)
        elif st != "got" and ids:
            self.report("callbacks:ran-without-result", "callbacks ran although the result never became ready", ids, [], where)
        self.prev = st
        return st


def canon_obs(o):
    return [int(x) if isinstance(x, bool) else x for x in o]


def impl_run(case, report=None, note=None):
    """returns (trace, final) in the model's shape; evaluates the oracle when report is given"""
    r = Run(case)
    try:
        orc = Oracle(r, report) if report else None
        trace = []
        first = None
        t_before = r.clock.tick
        if case["mode"] == 1:
            if orc:
                # the expiry of a synchronous request is armed right after sending, with the configured timeout
                pass
            first = r.start()
            trace.append([canon_obs(first), r.clock.tick])
            if orc:
                sync_oracle(case, first, r, report)
            return trace, r.final()
        r.start()
        if orc:
            if r.res is None or not isinstance(r.res, AsyncResult):
                report("no-async-result", "async_request/timed did not return an AsyncResult", repr(r.res), "AsyncResult", "start")
                return trace, {}
            want_arm = t_before + case["send_dur"]
            orc.tmax = want_arm + case["timeout"] if finite_of(case["timeout"]) else None
            got = (to_tick(r.res._ttl.tmax) if r.res._ttl.finite else None)
            if got != orc.tmax:
                report("expiry-armed-wrong", "the expiry armed by the request is not 'clock after sending + timeout'", got, orc.tmax, "start")
            orc.check_state("start")
        for i, (k, p) in enumerate(case["actions"]):
            t0 = r.clock.tick
            before = orc.expected() if orc else None
            o = canon_obs(r.act(k, p))
            trace.append([o, r.clock.tick])
            if not orc:
                continue
            where = "action %d %s" % (i, ACT_NAMES[k])
            if k == 2:
                if before == "expired" and note:
                    note("set_expiry-after-expiry" + (":revives" if not (finite_of(p) and p == 0) else ""))
                orc.arm(p)
            new = orc.absorb_dispatches()
            after = orc.expected()
            T = r.clock.tick
            res = r.res
            if k in (0, 1, 2, 5) and (new or (k != 0 and T != t0)):
                report("passive-call-served", "a call that must not serve the connection or take time did", [new, T - t0], [[], 0], where)
            if k == 5 and o != [1, int(before == "expired")]:
                report("query:expired-wrong", "expired query disagrees with first-of(reply, expiry)", o, [1, int(before == "expired")], where)
            if k == 3:
                want = [1, int(after == "got")]
                if o != want:
                    report("query:ready-wrong", "ready query disagrees with first-of(reply, expiry)", o, want, where)
                if before != "pending" and (new or T != t0):
                    report("query:ready-served-after-decision", "ready served the connection although the outcome was decided", new, [], where)
            if k == 4:
                want = [1, int(after == "got" and bool(res._is_exc))]
                if o != want:
                    report("query:error-wrong", "error query disagrees with the outcome", o, want, where)
            if k in (6, 7):
                if before == "got":
                    want = [0] if k == 7 else ([3, res._obj.args[0]] if res._is_exc else [2, res._obj])
                    if o != want or T != t0 or new:
                        report("wait:value-not-available-at-once", "wait/value on a ready result did not return its value immediately",
                               [o, T - t0], [want, 0], where)
                elif before == "expired":
                    if o != [4] or T != t0 or new:
                        report("wait:expired-not-raised-at-once", "wait/value on an expired result did not raise the timeout error immediately",
                               [o, T - t0], [[4], 0], where)
                else:
                    tmax = orc.tmax
                    if o == [4]:
                        if after == "got":
                            report("wait:timeout-despite-timely-reply", "wait raised the timeout error although the reply was dispatched before the expiry", o, "value", where)
                        if tmax is None:
                            report("wait:timeout-without-expiry", "wait raised the timeout error although no finite expiry is set", o, "wait", where)
                        elif T < tmax:
                            report("wait:early-timeout", "wait raised the timeout error before the expiry instant", T, tmax, where)
                        else:
                            busy_end = new[-1][1] if new else t0
                            want_T = max(t0, tmax, busy_end)
                            if T != want_T:
                                report("wait:late-timeout", "wait raised the timeout error later than the expiry instant without being busy serving",
                                       T, want_T, where)
                            if T > max(t0, tmax) and not (new and new[-1][2] == 1 and new[-1][0] <= tmax and new[-1][1] == T):
                                report("wait:late-timeout", "wait raised the timeout error later than the expiry instant without being busy serving",
                                       T, max(t0, tmax), where)
                            if any(d[0] > tmax for d in new):
                                report("wait:served-after-expiry", "wait kept serving after the expiry instant", new, tmax, where)
                    elif o == [5]:
                        if tmax is not None or r.chan.script:
                            report("wait:blocked-forever", "wait blocked with a finite expiry or with messages still to come", o, "return/raise", where)
                    else:
                        if after != "got":
                            report("wait:returned-without-reply", "wait/value returned although no reply was accepted", o, after, where)
                        else:
                            want = [0] if k == 7 else ([3, res._obj.args[0]] if res._is_exc else [2, res._obj])
                            if o != want:
                                report("wait:wrong-value", "value returned something else than the reply", o, want, where)
                            if T != new[-1][1] or not new[-1][3]:
                                report("wait:returned-late", "wait did not return when the reply had been dispatched", T, new[-1][1], where)
            st = orc.check_state(where)
            if st == "got":
                msgs = [m for m in case["queue"] if m[1] == 0]
                if msgs:
                    first_reply = msgs[0]
                    if [int(bool(res._is_exc)), (res._obj.args[0] if res._is_exc else res._obj)] != [int(bool(first_reply[2])), first_reply[3]]:
                        report("final:value-changed", "the value is not the one of the (first) reply", repr(res._obj), first_reply, where)
        return trace, r.final()
    finally:
        r.close()


ACT_NAMES = ["advance", "add_callback", "set_expiry", "ready", "error", "expired", "value", "wait", "serve"]


def sync_oracle(case, first, r, report):
    """a synchronous request behaves as async_request(timeout=configured).value"""
    twin = dict(case, mode=0, actions=[[6, None]])
    tr2, fin2 = impl_run(twin)
    mine = [canon_obs(first), r.clock.tick]
    if tr2[0] != mine:
        report("sync-differs-from-async", "sync_request does not behave as async_request with the configured timeout followed by .value",
               mine, tr2[0], "sync_request")
    # and independently: a configured finite timeout with no timely reply must raise exactly at the expiry
    t = case["timeout"]
    if finite_of(t):
        tmax = case["t0"] + case["send_dur"] + t
        timely = [d for d in r.disp if d[3] and d[0] < tmax]
        if first == [4] and r.clock.tick < tmax:
            report("wait:early-timeout", "sync_request raised the timeout error before the configured expiry", r.clock.tick, tmax, "sync_request")
        if first != [4] and not timely:
            report("sync:timeout-not-applied", "sync_request returned/blocked although no reply was dispatched before the configured expiry",
                   first, [4], "sync_request")


# ---------------------------------------------------------------------------------------------------- generation

def gen_timeout(r):
    c = r.random()
    if c < 0.14:
        return None
    if c < 0.22:
        return 0
    if c < 0.29:
        return -r.choice([1, 2, 5, 40])
    return r.choice([1, 2, 3, 4, 5, 6, 8, 12, 16, 40])


def gen_case(r, max_actions):
    t0 = r.choice([0, 0, 3, 17, 100])
    mode = r.choice([0, 0, 0, 0, 2, 2, 1])
    timeout = gen_timeout(r)
    send_dur = r.choice([0, 0, 0, 1, 3])
    tmax = t0 + send_dur + timeout if finite_of(timeout) else t0 + send_dur + 6
    queue = []
    have_reply = False
    for _ in range(r.choice([0, 1, 1, 2, 2, 3, 4, 6])):
        a = max(t0 - 1, tmax + r.choice([-4, -3, -2, -1, -1, 0, 0, 0, 1, 1, 2, 5]))
        c = r.random()
        if c < (0.25 if have_reply else 0.6):
            queue.append([a, 0, int(r.random() < 0.3), r.choice([0, 1, 7, -5, 123456789])])
            have_reply = True
        elif c < 0.9:
            queue.append([a, 1, r.choice([0, 1, 1, 2, 3, 7]), 0])
        else:
            queue.append([a, 2, 0, 0])
    if r.random() < 0.93:
        queue.sort(key=lambda m: m[0])
    actions = []
    if mode != 1:
        n = r.randint(1, max_actions)
        now_est = t0 + send_dur
        cid = 0
        for _ in range(n):
            c = r.random()
            if c < 0.22:
                d = r.choice([0, 1, 1, 2, 3, max(0, tmax - now_est), max(0, tmax - now_est - 1), max(0, tmax - now_est + 1)])
                actions.append([0, d])
                now_est += d
            elif c < 0.40:
                cid += 1
                actions.append([1, cid if r.random() < 0.9 else 1])
            elif c < 0.47:
                t = gen_timeout(r)
                actions.append([2, t])
                if finite_of(t):
                    tmax = now_est + t
            elif c < 0.57:
                actions.append([3, None])
            elif c < 0.64:
                actions.append([4, None])
            elif c < 0.74:
                actions.append([5, None])
            elif c < 0.82:
                actions.append([6, None])
            elif c < 0.92:
                actions.append([7, None])
            else:
                actions.append([8, r.choice([0, 0, 1, 2, 5, -1, None])])
    return {"mode": mode, "tie": int(r.random() < 0.5), "t0": t0, "timeout": timeout, "send_dur": send_dur,
            "queue": queue, "actions": actions}


def grid_cases():
    """boundary enumeration: timeout in {None,-1,0,3} x reply {none, before, at, after the expiry} x value/exception
    x tie flag x traffic {none, ends before, straddles the expiry} x every 3-action word over a 7-letter menu subset"""
    out = []
    menus = [[1, 1], [3, None], [5, None], [7, None], [6, None], [0, 3], [0, 4], [8, 0], [4, None]]
    words = []
    for a in menus:
        for b in menus:
            words.append([a, b, [1, 2], [5, None], [3, None]])
    for timeout in (None, -1, 0, 3):
        for rep in (None, 2, 3, 4):
            for exc in (0, 1):
                if rep is None and exc:
                    continue
                for tie in (0, 1):
                    for traffic in (None, [1, 1], [2, 2], [3, 2]):
                        q = []
                        if traffic:
                            q.append([traffic[0], 1, traffic[1], 0])
                        if rep is not None:
                            q.append([rep, 0, exc, 41 + rep])
                        q.sort(key=lambda m: m[0])
                        for i, wd in enumerate(words):
                            if (i + len(out)) % 3:
                                continue
                            out.append({"mode": 0, "tie": tie, "t0": 0, "timeout": timeout, "send_dur": 0,
                                        "queue": [list(m) for m in q], "actions": [list(x) for x in wd]})
    return out


def nontrivial(case):
    return (len(case["actions"]) >= 3 or case["mode"] == 1) and (bool(case["queue"]) or finite_of(case["timeout"]))


def check_cases(ctx, model, cases):
    outs = model.batch([case_sx(c) for c in cases]) if model else None
    for i, case in enumerate(cases):
        seen = []

        def report(sig, what, observed, expected, where, case=case, seen=seen):
            if not seen:          # the first failure of a history is the cause; what follows in the same history is consequence
                seen.append(sig)
                ctx.violation(sig, case, observed=observed, expected=expected, what="%s (%s)" % (what, where))
        try:
            trace, fin = impl_run(case, report, ctx.count)
        except Exception as e:   # the implementation must not fail in any other way on these histories
            ctx.violation("unexpected-exception:" + type(e).__name__, case, observed=repr(e), expected="an observation",
                          what="the implementation raised something the property does not allow")
            continue
        key = json.dumps(case, sort_keys=True)
        ctx.case(key, nontrivial=nontrivial(case),
                 sample={"case": case, "trace": trace[:6], "log": fin.get("log")})
        ctx.count("mode:%d" % case["mode"])
        ctx.count("timeout:" + ("none" if case["timeout"] is None else "negative" if case["timeout"] < 0 else
                                "zero" if case["timeout"] == 0 else "positive"))
        for o, _ in trace:
            ctx.count("obs:" + ["none", "bool", "value", "remote-exception", "timeout-error", "would-block-forever", "fuel"][o[0]])
        if fin.get("ready"):
            ctx.count("final:got")
        elif fin.get("finite") and fin.get("now") >= fin.get("tmax"):
            ctx.count("final:expired")
            if not fin.get("registered") and any(m[1] == 0 for m in case["queue"]):
                ctx.count("late-reply-discarded")
        else:
            ctx.count("final:pending")
        if outs is not None:
            ctx.model_traces += 1
            try:
                mtrace, mfin = canon_model(outs[i])
            except Exception:
                ctx.tie_broken("correspondence:model-output", "case %s model %r" % (key, outs[i]))
                continue
            if mtrace != trace:
                j = next((j for j in range(min(len(trace), len(mtrace))) if trace[j] != mtrace[j]), min(len(trace), len(mtrace)))
                ctx.tie_broken("correspondence:trace", "case %s first difference at observation %d: model %r impl %r"
                               % (key, j, mtrace[j:j + 1], trace[j:j + 1]))
            elif mfin != fin:
                ctx.tie_broken("correspondence:final-state", "case %s model %r impl %r" % (key, mfin, fin))


def check_timeouts(ctx, model, r, n):
    """the Timeout class alone: finite / tmax / expired / timeleft, and Timeout(Timeout) copies"""
    cases = []
    for _ in range(n):
        t = gen_timeout(r) if r.random() < 0.8 else r.choice([0, 1, -1, None])
        tc = r.choice([0, 5, 100])
        tq = tc + r.choice([0, 0, 1, 2, 3]) if t is None or t < 0 else tc + t + r.choice([-2, -1, 0, 0, 1, 2, 7])
        cases.append((t, tc, max(tq, tc)))
    outs = model.batch([["tmo", opt_sx(t), tc, tq] for t, tc, tq in cases]) if model else None
    saved = rpyc.lib.time
    try:
        for i, (t, tc, tq) in enumerate(cases):
            clk = Clock(tc)
            rpyc.lib.time = clk
            tt = Timeout(real_timeout(t))
            cp = Timeout(tt)
            clk.tick = tq
            tl = tt.timeleft()
            got = [int(bool(tt.finite)), to_tick(tt.tmax) if tt.finite else 0, int(bool(tt.expired())), [] if tl is None else [tl / TICK]]
            case = {"timeout_case": [t, tc, tq]}
            ctx.case(("tmo", t, tc, tq), nontrivial=t is not None, sample={"timeout": t, "created": tc, "queried": tq, "impl": got})
            ctx.count("timeout-class")
            # oracle: the statement's reading of a timeout value
            fin = finite_of(t)
            want = [int(fin), tc + t if fin else 0, int(fin and tq >= tc + t), [max(0, tc + t - tq)] if fin else []]
            if got != want:
                ctx.violation("timeout-class:" + ("finite" if got[0] != want[0] else "tmax" if got[1] != want[1] else
                                                  "expired" if got[2] != want[2] else "timeleft"),
                              case, observed=got, expected=want, what="Timeout(%r) created at %d, asked at %d" % (t, tc, tq))
            if (cp.finite, cp.tmax, cp.expired(), cp.timeleft()) != (tt.finite, tt.tmax, tt.expired(), tt.timeleft()):
                ctx.violation("timeout-class:copy", case, observed=(cp.finite, cp.tmax), expected=(tt.finite, tt.tmax),
                              what="Timeout(Timeout) is not a copy")
            if outs is not None:
                ctx.model_traces += 1
                m = [int(outs[i][0]), outs[i][1], int(outs[i][2]), list(outs[i][3])]
                if m != got:
                    ctx.tie_broken("correspondence:timeout-class", "Timeout(%r) at %d asked at %d: model %r impl %r" % (t, tc, tq, m, got))
    finally:
        rpyc.lib.time = saved


def run(ctx):
    r = ctx.rng
    model = C.Model("async")
    model = model if model.available() else None
    ctx.coverage_extra["rule"] = (
        "histories = (how the result is created: async_request(timeout) / timed(proxy, timeout) / sync_request with configured timeout; "
        "channel script of (arrival tick, reply value|reply exception|unrelated request with a dispatch duration|stray reply), sorted "
        "mostly, duplicates and unsorted now and then; tie flag; send duration; up to 12 (quick) / 60 (thorough) caller actions out of "
        "advance, add_callback, set_expiry, ready, error, expired, value, wait, serve), timeouts None/0/negative/positive, arrivals "
        "placed at expiry-4..expiry+5 with weight on -1/0/+1; plus a boundary grid (timeout x reply position x tie x traffic x action "
        "words) and the Timeout class alone; non-trivial = at least 3 actions (or a sync request) and a message or a finite timeout; "
        "distinct by the whole case")
    cases = grid_cases()
    if ctx.quick:
        cases = cases[::2]
    n = 2500 if ctx.quick else 100000
    maxa = 12 if ctx.quick else 60
    for i in range(n):
        cases.append(gen_case(r, maxa if i % 4 else 6))
    for i in range(0, len(cases), 20000):
        check_cases(ctx, model, cases[i:i + 20000])
    check_timeouts(ctx, model, r, 400 if ctx.quick else 5000)


def replay(ctx, rep):
    case = rep["case"] or {}
    model = C.Model("async")
    model = model if model.available() else None
    if "timeout_case" in case:
        t, tc, tq = case["timeout_case"]

        class One(object):
            def random(self): return 0.0
            def choice(self, l): return l[0]
        # re-evaluate exactly this triple
        outs = model.batch([["tmo", opt_sx(t), tc, tq]]) if model else None
        saved = rpyc.lib.time
        try:
            clk = Clock(tc)
            rpyc.lib.time = clk
            tt = Timeout(real_timeout(t))
            clk.tick = tq
            tl = tt.timeleft()
            got = [int(bool(tt.finite)), to_tick(tt.tmax) if tt.finite else 0, int(bool(tt.expired())), [] if tl is None else [tl / TICK]]
            fin = finite_of(t)
            want = [int(fin), tc + t if fin else 0, int(fin and tq >= tc + t), [max(0, tc + t - tq)] if fin else []]
            ctx.case(("tmo", t, tc, tq))
            if got != want:
                ctx.violation("timeout-class:" + ("finite" if got[0] != want[0] else "tmax" if got[1] != want[1] else
                                                  "expired" if got[2] != want[2] else "timeleft"),
                              case, observed=got, expected=want, what="Timeout(%r) created at %d, asked at %d" % (t, tc, tq))
        finally:
            rpyc.lib.time = saved
        return
    check_cases(ctx, model, [case])
