"""C14 — a waiter returns as soon as its reply has been processed by any thread.
Same machinery as C13 (harness/C13.py); the oracle measures, in virtual time, how long after the dispatch of its reply a waiter returns."""
from harness import common as C
from harness import C13 as base

META = {
    "level": "proof",
    "level_text": "props/C14.v proves both directions on the model of serve/wait shared with C13: the refutation c14_prompt_refuted (an explicit 2-thread schedule reaching a state "
                  "where the waiter's reply is ready while it polls an empty stream: serve releases the receive lock and notifies before it dispatches) and c14_only_this_window "
                  "(in every reachable state a waiter whose reply has been processed and that cannot move is either polling an empty stream itself or sleeping behind a thread "
                  "that holds / has just released the receive lock). The check replays random schedules of the real code under a virtual clock and reports any lateness; the two "
                  "window shapes are the known finding F5, anything else is a new violation.",
    "level_note": "Trusted: Coq kernel, pygen, extraction+driver, the virtual Lock/Condition/poll/clock (harness/vsched.py). Lateness is measured in virtual time; wall-clock "
                  "scheduling is outside the model.",
    "technique": "Coq: refutation by explicit schedule + invariant-based classification of every blocked waiter; virtual-clock schedule replay of the real code",
    "gen": ["serve", "stream", "protocol"],
    "shapes": ["serve.*", "stream.Stream.poll", "protocol.Connection.serve", "protocol.Connection._dispatch", "protocol.Connection._dispatch_response"],
    "models": ["serve"],
    "model_files": ["Serve"],
    "assumptions": ["threading.Condition semantics", "virtual time: the clock advances only when no thread is enabled"],
}


def run(ctx):
    base.run_plans(ctx, "C14")


replay = base.replay
