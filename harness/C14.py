"""C14 — a waiter returns as soon as its reply has been processed by any thread.
Same machinery as C13 (harness/C13.py); the oracle measures, in virtual time, how long after the dispatch of its reply a waiter returns."""
from harness import common as C
from harness import C13 as base

META = {
    "level": "proof",
    "level_text": "props/C14.v proves both directions on the model of serve/wait shared with C13: the refutation c14_prompt_refuted (an explicit 2-thread schedule reaching a state "
                  "where the waiter's reply is ready while it polls an empty stream: serve releases the receive lock and notifies before it dispatches) and c14_only_this_window "
                  "(in every reachable state a waiter whose reply has been processed and that cannot move is either polling an empty stream itself or sleeping behind a thread "
                  "that holds / has just released the receive lock), and c14_window_entered_from_the_test (a ghost layer over the same system, proofs/ServeG.v: in every execution a waiter "
                  "past its readiness test made that test when its reply had not been dispatched yet and has not slept since - a woken sleeper goes back to the test first). The bounded half (proofs/ServeL.v): c14_late_waiter_returns_alone (from every reachable state in which its reply has been processed, the waiter's own moves - program steps, and its own poll/wait timeout only where it has no step - take it to Returned within six moves with at most ONE timeout; no other thread, traffic or notification is needed: the hold-up is bounded and never a deadlock) and c14_timeout_needed_only_near_the_window (a timeout is needed only asleep / polling an empty stream / one step before those; everywhere else it returns by program steps alone). The check replays random schedules of the real code under a virtual clock and reports any lateness; the two "
                  "window shapes are the known finding F5, anything else is a new violation. The schedule of the refutation theorem itself is also driven deterministically on the real code (witness phase).",
    "level_note": "Trusted: Coq kernel, pygen, extraction+driver, the virtual Lock/Condition/poll/clock (harness/vsched.py). Lateness is measured in virtual time; wall-clock "
                  "scheduling is outside the model.",
    "technique": "Coq: refutation by explicit schedule + invariant-based classification of every blocked waiter + rank argument bounding the hold-up by one own timeout; virtual-clock schedule replay of the real code",
    "gen": ["serve", "stream", "protocol"],
    "shapes": ["serve.*", "stream.Stream.poll", "protocol.Connection.__init__", "protocol.Connection._get_seq_id", "protocol.Connection.serve", "protocol.Connection._dispatch", "protocol.Connection._dispatch_response"],
    "models": ["serve"],
    "model_files": ["Serve"],
    "assumptions": ["threading.Condition semantics", "virtual time: the clock advances only when no thread is enabled"],
}


def scripted_chooser(events, phases):
    """phases: list of (thread, done) - run `thread` until done(events, enabled) holds; while `thread` is not enabled run the lowest other
    thread; after the last phase: first enabled thread"""
    st = {"k": 0}

    def chooser(en, step):
        while st["k"] < len(phases):
            th, done = phases[st["k"]]
            if done(events, en):
                st["k"] += 1
                continue
            if th in en:
                return th
            rest = [t for t in en if t != th]
            return rest[0] if rest else en[0]
        return en[0]
    return chooser


def witness_phase(ctx):
    """the schedule of c14_prompt_refuted (props/C14.v: stall_schedule) driven on the REAL code: W = client 0, B = background serving
    thread 1. B reads W's reply and releases the receive lock; W, not ready yet, takes the free lock and polls an empty stream; B
    notifies and dispatches. On a tree with this window W returns only when its poll times out (lateness > 0: finding F5); on a tree
    without it W returns at once."""
    ev = []
    has = lambda pred: (lambda events, en: any(pred(e) for e in events))
    phases = [(0, has(lambda e: e[0] == "issue" and e[1] == 0)),
              ("P", has(lambda e: e[0] == "answer")),
              (1, has(lambda e: e[0] == "step" and e[1] == 1 and e[2] == "release")),
              (0, lambda events, en: 0 not in en),                                   # W runs until it blocks (in poll, holding the lock)
              (1, has(lambda e: e[0] == "step" and e[1] == 1 and e[2] == "dispatch"))]
    out = base.scenario(1, True, [0], scripted_chooser(ev, phases), events_out=ev)
    case = {"witness": "stall_schedule", "clients": 1, "bg": True, "order": [0], "seed": 0, "stick": 0.0}
    ctx.case(("witness", "stall_schedule"), nontrivial=True, sample={"case": case, "late": out["late"], "results": out["results"]})
    ctx.count("witness-schedule-of-c14_prompt_refuted")
    kinds = [(e[1], e[2]) for e in ev if e[0] == "step" and e[1] in (0, 1)]
    want_prefix = [(1, "looptest"), (1, "acquire"), (1, "read"), (1, "release"), (0, "looptest"), (0, "acquire")]
    followed = [k for k in kinds if k in want_prefix][:len(want_prefix)] == want_prefix
    ctx.coverage_extra["witness_schedule_followed"] = followed
    if not followed:
        ctx.tie_broken("correspondence:witness-schedule", "the real code did not follow the schedule of stall_schedule: steps %s" % kinds[:14])
    base.oracle14(ctx, case, out, 1)


def two_sleepers_phase(ctx):
    """two waiters asleep on the condition while a third thread holds the receive lock and receives the reply of the one that went to
    sleep LAST: whoever receives must wake every sleeper (the condition stands for 'something was received, look again' as well as for
    'the lock is free'). Three client threads: R = client 2 issues, takes the lock and waits in poll; W0 then W1 issue their requests
    and go to sleep; the peer answers W1 first; R reads, releases, notifies and dispatches before any waiter runs (so the known window
    F5 is not entered). W1 must return with no lateness."""
    ev = []
    has = lambda pred: (lambda events, en: any(pred(e) for e in events))
    phases = [(2, lambda events, en: any(e[0] == "step" and e[1] == 2 and e[2] == "acquire" and e[3] for e in events) and 2 not in en),   # R holds the lock and waits in poll
              (0, lambda events, en: any(e[0] == "issue" and e[1] == 0 for e in events) and 0 not in en),
              (1, lambda events, en: any(e[0] == "issue" and e[1] == 1 for e in events) and 1 not in en),
              ("P", has(lambda e: e[0] == "answer")),
              (2, has(lambda e: e[0] == "step" and e[1] == 2 and e[2] == "dispatch"))]
    # the other two replies come half a (virtual) second later: a waiter left asleep has to sit that time out
    out = base.scenario(3, False, [1, 0, 2], scripted_chooser(ev, phases), events_out=ev, answer_delay={0: 0.5, 2: 0.5})
    case = {"witness": "two_sleepers", "clients": 3, "bg": False, "order": [1, 0, 2], "seed": 0, "stick": 0.0}
    ctx.case(("witness", "two_sleepers"), nontrivial=True, sample={"case": case, "late": out["late"], "results": out["results"]})
    ctx.count("witness-two-sleepers")
    kinds = [tuple(e[1:4]) for e in ev if e[0] == "step"]
    # the schedule was really followed: both waiters failed to get the lock (and went to sleep) before R read anything
    first_read = next((k for k, e in enumerate(kinds) if e[0] == 2 and e[1] == "read"), len(kinds))
    followed = all((w, "acquire", False) in kinds[:first_read] for w in (0, 1)) and first_read < len(kinds) and kinds[first_read][2] == out["seq_of"].get(1)
    ctx.coverage_extra["two_sleepers_schedule_followed"] = followed
    if not followed:
        ctx.tie_broken("correspondence:two-sleepers-schedule", "the real code did not follow the two-sleepers schedule: steps %s" % kinds[:24])
    base.oracle14(ctx, case, out, 3)


def run(ctx):
    base.run_plans(ctx, "C14")
    witness_phase(ctx)
    two_sleepers_phase(ctx)


def replay(ctx, rep):
    if rep["case"].get("witness") == "two_sleepers":
        two_sleepers_phase(ctx)
        return
    if rep["case"].get("witness"):
        witness_phase(ctx)
        return
    base.replay(ctx, rep)
