"""C01 — remote calls compute what a local call would, at any nesting depth.
Random call trees are executed three ways: inside one process, across two real Connections (nested callbacks in both
directions, exceptions raised and caught at any level, arguments/results of every shape, keyword arguments) and by the
extracted machine of model/CallTree.v; outermost result/exception and per-node invocation logs must coincide."""
import sys
from harness import common as C
from harness.memstream import connect_pair

META = {
    "level": "proof",
    "level_text": "props/C01.v, for ALL finite call trees over two peers (any fan-out, any depth of nested callbacks in both directions, exceptions raised and caught at any level): the "
                  "two-endpoint machine (request/reply frames with sequence numbers, re-entrant serving while waiting, idle serving loop) reaches a quiescent state whose result and "
                  "invocation log are those of the one-process evaluation; EVERY execution that delivers a result delivers that one (at most one peer can move at any time and its "
                  "move is determined), and no execution deadlocks or diverges before the result. The theorem is named _partial because values are naturals in the model: that "
                  "arguments/results of every shape cross unchanged or as references is C03/C04 plus this check's differential run over real connections.",
    "level_note": "Trusted: Coq kernel, pygen (call-path facts), extraction+driver, harness (single-thread pumping of two real Connections; when a connection is re-entered while it "
                  "waits, its frame is dispatched on the waiting stack as its own serve loop would). Multi-threaded callers are C13, timeouts C15.",
    "technique": "Coq proof by induction on call trees (frame lemma generalised over the stack context) + token invariant giving determinism of all executions; differential execution local / two real connections / extracted machine",
    "gen": ["calls"],
    "shapes": ["calls.*", "protocol.Connection.sync_request", "protocol.Connection.async_request", "protocol.Connection._handle_call", "protocol.Connection._handle_callattr"],
    "models": ["calltree"],
    "model_files": ["CallTree"],
    "assumptions": ["value/reference fidelity of arguments and results is carried by C03/C04 and the differential run, not by the call-tree model"],
}

import rpyc
from harness.C04 import gen_value, canon


class NodeError(ValueError):
    pass


import collections
Point = collections.namedtuple("Point", "x y")


def make_handler(kind):
    """two DIFFERENT classes with the same qualified name and different special methods"""
    if kind == 0:
        class Handler:
            def __call__(self, z):
                return ("called", z)
    else:
        class Handler:
            def __len__(self):
                return 3

            def __iter__(self):
                return iter([1, 2, 3])
    return Handler()


def use_handler(kind, h):
    if h is None:
        return None
    return h(2) if kind == 0 else (len(h), list(h))


def gen_tree(r, depth, counter, side=None):
    counter[0] += 1
    nid = counter[0]
    side = r.choice("AB") if side is None else side
    kids = []
    if depth > 0:
        for _ in range(r.choice([0, 1, 1, 2, 2, 3, 4]) if depth > 1 else r.choice([0, 1, 2])):
            kids.append((gen_tree(r, depth - r.choice([1, 1, 2]), counter), r.random() < 0.5))
    return {"side": side, "id": nid, "kids": kids, "raises": r.random() < 0.25,
            "payload_seed": r.randrange(10**6), "kw": r.random() < 0.5}


def tree_sx(t):
    return [t["side"] == "B", t["id"], [[tree_sx(k), c] for k, c in t["kids"]], t["raises"]]


def depth_of(t):
    return 1 + max([depth_of(k) for k, _ in t["kids"]] or [0])


def size_of(t):
    return 1 + sum(size_of(k) for k, _ in t["kids"])


class World:
    """executes a tree; `remote(side)` tells how to reach the other side (None = same process)"""

    def __init__(self):
        self.log = []
        self.shapes = []       # observations about argument shapes made by callees

    def payload(self, t):
        import random
        return gen_value(random.Random(t["payload_seed"]), 2, allow_other=False, surrogates=False)


def run_local(root):
    w = World()

    def run(t, value, ref, pt=None, fn=None, h=None, **kw):
        w.log.append(t["id"])
        w.shapes.append((t["id"], canon(value), list(ref), sorted(kw.items()), (pt.x, pt.y, pt.__class__.__name__) if pt is not None else None, fn(3) if fn is not None else None,
                         use_handler(t["id"] % 2, h)))
        ref.append(t["id"])                     # a change through the reference is a change to the caller's object
        acc = 0
        for k, c in t["kids"]:
            box = [k["id"] * 7]
            try:
                kwargs = {"extra": k["id"], "flag": True} if k["kw"] else {}
                v = run(k, w.payload(k), box, Point(k["id"], -1), (lambda z, kid=k["id"]: z + kid), make_handler(k["id"] % 2), **kwargs)
                acc += v
                assert box[-1] == k["id"]
            except ValueError as e:
                if not c:
                    raise
                acc += 0
        if t["raises"]:
            raise ValueError(t["id"])
        return t["id"] + acc
    try:
        return ("value", run(root, w.payload(root), [0])), w
    except ValueError as e:
        return ("exc", type(e).__name__, e.args), w


def run_remote(root):
    """side A = connection end ca (its service is SvcA), side B = cb"""
    w = World()
    trees = {}

    def index(t):
        trees[t["id"]] = t
        for k, _ in t["kids"]:
            index(k)
    index(root)
    ends = {}

    def make_service(side):
        class Svc(rpyc.Service):
            def exposed_run(self, nid, value, ref, pt=None, fn=None, h=None, **kw):
                return run(trees[nid], side, value, ref, pt, fn, h, **kw)
        return Svc()

    def run(t, side, value, ref, pt=None, fn=None, h=None, **kw):
        w.log.append(t["id"])
        try:
            hres = use_handler(t["id"] % 2, h)
        except Exception as e:
            hres = ("raised", type(e).__name__)
        w.shapes.append((t["id"], canon(value), list(ref), sorted(kw.items()), (pt.x, pt.y, pt.__class__.__name__) if pt is not None else None, fn(3) if fn is not None else None, hres))
        ref.append(t["id"])
        acc = 0
        for k, c in t["kids"]:
            box = [k["id"] * 7]
            try:
                kwargs = {"extra": k["id"], "flag": True} if k["kw"] else {}
                pt, fn, h = Point(k["id"], -1), (lambda z, kid=k["id"]: z + kid), make_handler(k["id"] % 2)
                if k["side"] == side:
                    v = run(k, side, w.payload(k), box, pt, fn, h, **kwargs)
                else:
                    v = ends[side].root.run(k["id"], w.payload(k), box, pt, fn, h, **kwargs)
                acc += v
                if box[-1] != k["id"]:
                    raise AssertionError("mutation through the reference did not reach the caller's object")
            except ValueError as e:
                if not c:
                    raise
        if t["raises"]:
            raise ValueError(t["id"])
        return t["id"] + acc
    sa, sb = make_service("A"), make_service("B")
    cfg = {"allow_public_attrs": True, "sync_request_timeout": 10}
    ca, cb, _, _ = connect_pair(sa, sb, cfg, cfg)
    ends["A"], ends["B"] = ca, cb
    try:
        if root["side"] == "A":
            out = ("value", run(root, "A", w.payload(root), [0]))
        else:
            out = ("value", ca.root.run(root["id"], w.payload(root), [0]))
            w_first = None
    except ValueError as e:
        out = ("exc", "ValueError", e.args)
    except BaseException as e:
        out = ("fail", type(e).__name__, str(e)[:200])
    finally:
        try:
            ca.close()
        except Exception:
            pass
    return out, w


def run(ctx):
    model = C.Model("calltree"); model = model if model.available() else None
    r = ctx.rng
    n = 250 if ctx.quick else 8000
    ctx.coverage_extra["rule"] = ("random call trees (depth <= 6 quick / 12 thorough, fan-out <= 4, each node on either peer, 25% of nodes raise, 50% of call sites catch), each call passing an "
                                  "immutable payload from C04's generator, a mutable list by reference and optional keyword arguments; executed locally, over two real connections and by the "
                                  "extracted machine; non-trivial = at least one cross-peer call; distinct by tree")
    mcases, meta = [], []
    for i in range(n):
        depth = r.choice([1, 2, 3, 4, 5, 6] if ctx.quick else [2, 4, 6, 8, 10, 12])
        root = gen_tree(r, depth, [0], side="A")
        if size_of(root) > 400:
            continue
        lo, lw = run_local(root)
        ro, rw = run_remote(root)
        cross = any(True for _ in _cross(root))
        ctx.case(("tree", repr(tree_sx(root))), nontrivial=cross, sample={"size": size_of(root), "depth": depth_of(root), "local": lo[:2], "remote": ro[:2]})
        ctx.count("depth:%d" % depth_of(root)); ctx.count("outcome:" + lo[0])
        case = {"tree": root}
        if lo[0] == "exc" and ro[0] == "exc":
            same = (lo[1] == ro[1] and tuple(lo[2]) == tuple(ro[2]))
        else:
            same = lo == ro
        if not same:
            ctx.violation("distributed-result-differs-from-local", case, observed=ro, expected=lo, what="the outermost result/exception of the two-peer run differs from the one-process run")
        if lw.log != rw.log:
            ctx.violation("invocation-log-differs", case, observed=rw.log[:40], expected=lw.log[:40], what="callees were not invoked exactly once each in the local order")
        elif lw.shapes != rw.shapes:
            bad = [(a, b) for a, b in zip(lw.shapes, rw.shapes) if a != b][:1]
            ctx.violation("argument-shape-differs", case, observed=repr(bad)[:300], expected="equal", what="a callee saw different arguments (value, reference content or keywords) than in the local run")
        if model:
            mcases.append([20 * size_of(root) + 50, depth_of(root) + 2, tree_sx(root)]); meta.append((root, lo, lw))
    if model and mcases:
        outs = model.batch(mcases)
        for (root, lo, lw), m in zip(meta, outs):
            ctx.model_traces += 1
            llog, lout, mlog, mres, left = m
            exp = [0, lo[1]] if lo[0] == "value" else [1, lo[2][0]]
            if llog != lw.log or lout != exp:
                ctx.tie_broken("correspondence:local-semantics", "tree %s model eval %s %s python %s %s" % (tree_sx(root), llog, lout, lw.log, exp))
            if mlog != lw.log or mres != [exp] or left != 0:
                ctx.tie_broken("correspondence:machine", "tree %s machine log %s result %s leftover %s python %s %s" % (tree_sx(root), mlog, mres, left, lw.log, exp))


def _cross(t):
    for k, _ in t["kids"]:
        if k["side"] != t["side"]:
            yield True
        yield from _cross(k)


def replay(ctx, rep):
    root = rep["case"]["tree"]

    def fix(t):
        t["kids"] = [(fix(k), c) for k, c in t["kids"]]
        return t
    root = fix(root)
    lo, lw = run_local(root)
    ro, rw = run_remote(root)
    ctx.case(("replay", repr(tree_sx(root))), True)
    if (lo[0], tuple(lo[1:]) if lo[0] != "exc" else (lo[1], tuple(lo[2]))) != (ro[0], tuple(ro[1:]) if ro[0] != "exc" else (ro[1], tuple(ro[2]))):
        ctx.violation("distributed-result-differs-from-local", rep["case"], observed=ro, expected=lo, what="the outermost result/exception of the two-peer run differs from the one-process run")
    if lw.log != rw.log:
        ctx.violation("invocation-log-differs", rep["case"], observed=rw.log[:40], expected=lw.log[:40], what="callees were not invoked exactly once each in the local order")
