"""C01 — remote calls compute what a local call would, at any nesting depth.
Random call trees are executed three ways: inside one process, across two real Connections (nested callbacks in both
directions, exceptions raised and caught at any level, arguments/results of every shape, keyword arguments) and by the
extracted machine of model/CallTree.v; outermost result/exception and per-node invocation logs must coincide."""
import sys
from harness import common as C
from harness.memstream import connect_pair

META = {
    "level": "proof",
    "level_text": "props/C01.v, for ALL finite call trees over two peers (any fan-out, any depth of nested callbacks in both directions, exceptions raised and caught at any level): the "
                  "two-endpoint machine (request/reply frames with sequence numbers, re-entrant serving while waiting, idle serving loop) reaches a quiescent state whose result and "
                  "invocation log are those of the one-process evaluation; EVERY execution that delivers a result delivers that one (at most one peer can move at any time and its "
                  "move is determined), and no execution deadlocks or diverges before the result. The theorem is named _partial because values are naturals in the model: that "
                  "arguments/results of every shape cross unchanged or as references is C03/C04 plus this check's differential run over real connections. Exceptions carry "
                  "the ancestry of their class and call sites catch everything, nothing or the classes they name (isinstance on the ancestry); what the connection does to a class is a "
                  "parameter xw of the machine, one function per RECEIVING peer (differently configured ends are instances; the harness generates them): for EVERY xw the machine computes the evaluation seen through the connection (c01_machine_is_evaluation_through_connection), which is the "
                  "one-process evaluation when classes are reproduced (builtin classes; user-defined ones with the switches on). Under the default configuration a user-defined class "
                  "arrives as a stand-in derived from Exception (C09's gating): selective catching then differs from the local run - theorem "
                  "c01_selective_catch_refuted_when_class_replaced, known finding F46; the second harness phase (five exception classes incl. two user-defined, one outside Exception; "
                  "sites catching Exception / ValueError / KeyError / BaseException / nothing; results that are ints, tuples mixing a value with a mutable list and a callable, bare "
                  "callables, bare lists - the caller uses every part) runs every tree locally, over real connections under both configurations AND through the machine with that "
                  "configuration's table: a deviation is filed under F46 only if it is exactly the one the machine predicts.",
    "level_note": "Trusted: Coq kernel, pygen (call-path facts), extraction+driver, harness (single-thread pumping of two real Connections; when a connection is re-entered while it "
                  "waits, its frame is dispatched on the waiting stack as its own serve loop would). Multi-threaded callers are C13, timeouts C15. Depth is bounded by the interpreter stack in the real code (each remote hop costs frames): ping-pong depth ~120 works, "
                  "200 raises RecursionError remotely; the theorems speak of the protocol, the harness stays far below that bound.",
    "technique": "Coq proof by induction on call trees (frame lemma generalised over the stack context) + token invariant giving determinism of all executions; differential execution local / two real connections / extracted machine",
    "gen": ["calls", "protocol", "serve", "vinegar"],
    "gen_note": "the whole request/response path is pinned (text snapshots): what the typed call-path facts do not read is still tied",
    "shapes": ["calls.*", "protocol.Connection.sync_request", "protocol.Connection.async_request", "protocol.Connection._handle_call", "protocol.Connection._handle_callattr",
               "protocol.Connection._dispatch", "protocol.Connection._dispatch_request", "protocol.Connection._dispatch_response", "protocol.Connection._send_exc",
               "protocol.Connection._seq_request_callback", "protocol.Connection.serve", "protocol.Connection._box_exc", "protocol.Connection._unbox_exc",
               "protocol.Connection._async_request", "serve.AsyncResult.*", "vinegar.load"],
    "models": ["calltree"],
    "model_files": ["CallTree"],
    "assumptions": ["value/reference fidelity of arguments and results is carried by C03/C04 and the differential run, not by the call-tree model", "which classes the connection reproduces (the table xw) is C09's subject; here the default table is the harness's reading of it, validated by every generated tree"],
}

import rpyc
from harness.C04 import gen_value, canon


class NodeError(ValueError):
    pass


import collections
Point = collections.namedtuple("Point", "x y")


def make_handler(kind):
    """two DIFFERENT classes with the same qualified name and different special methods"""
    if kind == 0:
        class Handler:
            def __call__(self, z):
                return ("called", z)
    else:
        class Handler:
            def __len__(self):
                return 3

            def __iter__(self):
                return iter([1, 2, 3])
    return Handler()


def use_handler(kind, h):
    if h is None:
        return None
    return h(2) if kind == 0 else (len(h), list(h))


def kwargs_for(k):
    """keyword operands of the call to node k: none / two plain ones / a wider set (names that look like parameters of rpyc's own
    wrappers, a value by reference, a nested tuple) / one named like the proxy method's own first parameter"""
    if not k["kw"]:
        return {}
    if k["kw"] is True:
        return {"extra": k["id"], "flag": True}
    if k["kw"] == "wide":
        return {"extra": k["id"], "args": (k["id"], "x"), "kwargs": None, "callback": [k["id"]], "timeout": 0, "name": "n%d" % k["id"], "zeta": 1, "alpha": 2}
    return {"_self": k["id"], "extra": 1}


def has_self_kw(t):
    return any(k["kw"] == "_self" and k["side"] != t["side"] or has_self_kw(k) for k, _ in t["kids"])


def gen_tree(r, depth, counter, side=None, self_kw=None):
    """`_self` (the keyword that collides with the proxy method's own first parameter: known finding F70) is generated only in a
    dedicated share of the trees (8%): every other tree is compared in full"""
    if self_kw is None:
        self_kw = r.random() < 0.08
    counter[0] += 1
    nid = counter[0]
    side = r.choice("AB") if side is None else side
    kids = []
    if depth > 0:
        for _ in range(r.choice([0, 1, 1, 2, 2, 3, 4]) if depth > 1 else r.choice([0, 1, 2])):
            kids.append((gen_tree(r, depth - r.choice([1, 1, 2]), counter, self_kw=self_kw), r.random() < 0.5))
    return {"side": side, "id": nid, "kids": kids, "raises": r.random() < 0.25,
            "payload_seed": r.randrange(10**6), "kw": r.choice([False, True, True, "wide", "wide"] + (["_self", "_self"] if self_kw else []))}


# class numbers of the model (model/CallTree.v: an exception carries the ancestry of its class, most derived first)
MRO = {"ValueError": [2, 1, 0], "KeyError": [4, 3, 1, 0], "NodeError": [5, 2, 1, 0], "GeneratorExit": [6, 0], "Abort": [7, 0],
       "OSError": [12, 11, 1, 0]}        # FileNotFoundError (12) < OSError (11) < Exception < BaseException
CATCH_SX = {None: [0, []], "all": [0, [1]], "ValueError": [0, [2]], "KeyError": [0, [4]], "base": [0, [0]], "OSError": [0, [11]]}
# what the connection does to a class the receiver is configured not to rebuild (the default): a stand-in derived from vinegar's
# GenericException (9), itself an Exception - also for a class that was NOT an Exception
DEFAULT_TABLE = [[5, [8, 9, 1, 0]], [7, [10, 9, 1, 0]]]


def tree_sx(t):
    """phase-1 trees: a node raises ValueError or nothing, a call site catches ValueError or nothing"""
    return [t["side"] == "B", t["id"], [[tree_sx(k), CATCH_SX["ValueError" if c else None]] for k, c in t["kids"]], MRO["ValueError"] if t["raises"] else []]


def tree2_sx(t):
    return [t["side"] == "B", t["id"], [[tree2_sx(k), CATCH_SX[c]] for k, c in t["kids"]], MRO[t["raises"]] if t["raises"] else []]


def outcome2_sx(out):
    """a phase-2 outcome in the model's terms: [0, number] or [1, raiser, (is ValueError, is KeyError, is Exception, is GeneratorExit)]"""
    if out[0] == "value":
        v = out[2]
        return [0, v if out[1] in ("int", "callable") else v[0]]
    return [1, out[5][0] if out[5] else None, tuple(bool(x) for x in out[1:5])]


def model_outcome2(m):
    if m[0] == 0:
        return [0, m[1]]
    return [1, m[1], (2 in m[2], 4 in m[2], 1 in m[2], 6 in m[2])]


def depth_of(t):
    return 1 + max([depth_of(k) for k, _ in t["kids"]] or [0])


def size_of(t):
    return 1 + sum(size_of(k) for k, _ in t["kids"])


class World:
    """executes a tree; `remote(side)` tells how to reach the other side (None = same process)"""

    def __init__(self):
        self.log = []
        self.shapes = []       # observations about argument shapes made by callees

    def payload(self, t):
        import random
        return gen_value(random.Random(t["payload_seed"]), 2, allow_other=False, surrogates=False)


def run_local(root):
    w = World()

    def run(t, value, ref, pt=None, fn=None, h=None, **kw):
        w.log.append(t["id"])
        w.shapes.append((t["id"], canon(value), list(ref), [(a_, list(b_) if isinstance(b_, list) or hasattr(b_, "____id_pack__") else b_) for a_, b_ in kw.items()], (pt.x, pt.y, pt.__class__.__name__) if pt is not None else None, fn(3) if fn is not None else None,
                         use_handler(t["id"] % 2, h)))
        ref.append(t["id"])                     # a change through the reference is a change to the caller's object
        acc = 0
        for k, c in t["kids"]:
            box = [k["id"] * 7]
            try:
                kwargs = kwargs_for(k)
                v = run(k, w.payload(k), box, Point(k["id"], -1), (lambda z, kid=k["id"]: z + kid), make_handler(k["id"] % 2), **kwargs)
                acc += v
                assert box[-1] == k["id"]
            except ValueError as e:
                if not c:
                    raise
                acc += 0
        if t["raises"]:
            raise ValueError(t["id"])
        return t["id"] + acc
    try:
        return ("value", run(root, w.payload(root), [0])), w
    except ValueError as e:
        return ("exc", type(e).__name__, e.args), w


def run_remote(root):
    """side A = connection end ca (its service is SvcA), side B = cb"""
    w = World()
    trees = {}

    def index(t):
        trees[t["id"]] = t
        for k, _ in t["kids"]:
            index(k)
    index(root)
    ends = {}

    def make_service(side):
        class Svc(rpyc.Service):
            def exposed_run(self, nid, value, ref, pt=None, fn=None, h=None, **kw):
                return run(trees[nid], side, value, ref, pt, fn, h, **kw)
        return Svc()

    def run(t, side, value, ref, pt=None, fn=None, h=None, **kw):
        w.log.append(t["id"])
        try:
            hres = use_handler(t["id"] % 2, h)
        except Exception as e:
            hres = ("raised", type(e).__name__)
        w.shapes.append((t["id"], canon(value), list(ref), [(a_, list(b_) if isinstance(b_, list) or hasattr(b_, "____id_pack__") else b_) for a_, b_ in kw.items()], (pt.x, pt.y, pt.__class__.__name__) if pt is not None else None, fn(3) if fn is not None else None, hres))
        ref.append(t["id"])
        acc = 0
        for k, c in t["kids"]:
            box = [k["id"] * 7]
            try:
                kwargs = kwargs_for(k)
                pt, fn, h = Point(k["id"], -1), (lambda z, kid=k["id"]: z + kid), make_handler(k["id"] % 2)
                if k["side"] == side:
                    v = run(k, side, w.payload(k), box, pt, fn, h, **kwargs)
                else:
                    v = ends[side].root.run(k["id"], w.payload(k), box, pt, fn, h, **kwargs)
                acc += v
                if box[-1] != k["id"]:
                    raise AssertionError("mutation through the reference did not reach the caller's object")
            except ValueError as e:
                if not c:
                    raise
        if t["raises"]:
            raise ValueError(t["id"])
        return t["id"] + acc
    sa, sb = make_service("A"), make_service("B")
    cfg = {"allow_public_attrs": True, "sync_request_timeout": 30}
    ca, cb, _, _ = connect_pair(sa, sb, cfg, cfg)
    ends["A"], ends["B"] = ca, cb
    try:
        if root["side"] == "A":
            out = ("value", run(root, "A", w.payload(root), [0]))
        else:
            out = ("value", ca.root.run(root["id"], w.payload(root), [0]))
            w_first = None
    except ValueError as e:
        out = ("exc", "ValueError", e.args)
    except BaseException as e:
        out = ("fail", type(e).__name__, str(e)[:200])
    finally:
        w.crashes = list(getattr(ca, "_harness_crashes", []))
        try:
            ca.close()
        except Exception:
            pass
    return out, w



# ------------------------------------------------------------------------------------------------ phase 2: exception classes, selective catching, result shapes
class Halt(BaseException):
    """a user-defined exception outside the Exception hierarchy"""


EXC = {"ValueError": ValueError, "KeyError": KeyError, "NodeError": NodeError,      # NodeError: a user-defined subclass of ValueError
       "GeneratorExit": GeneratorExit, "Abort": Halt,                                # outside the Exception hierarchy
       # a built-in class whose data lives in C-level fields beside args (errno, strerror, filename): the catching side reads them
       "OSError": (lambda i: FileNotFoundError(i, "missing", "/n/%d" % i))}
CATCH = {"all": Exception, "ValueError": ValueError, "KeyError": KeyError, "base": BaseException, "OSError": OSError}


def exc_data(e):
    """what catching code reads off an exception beside its class and args"""
    return (e.errno, e.strerror, e.filename) if isinstance(e, OSError) else None
CUSTOM_OK = {"import_custom_exceptions": True, "instantiate_custom_exceptions": True, "instantiate_oldstyle_exceptions": True}


def gen_tree2(r, depth, counter, side=None):
    counter[0] += 1
    nid = counter[0]
    side = r.choice("AB") if side is None else side
    kids = []
    if depth > 0:
        for _ in range(r.choice([0, 1, 1, 2, 2, 3])):
            kids.append([gen_tree2(r, depth - r.choice([1, 1, 2]), counter), r.choice([None, None, "all", "ValueError", "ValueError", "KeyError", "base", "OSError"])])
    return {"side": side, "id": nid, "kids": kids, "raises": r.choice([None, None, None, None, "ValueError", "KeyError", "NodeError", "NodeError", "GeneratorExit", "Abort", "OSError"]),
            "shape": r.choice(["int", "mixed", "mixed", "callable", "list"])}


def has_custom(t):
    return t["raises"] in ("NodeError", "Abort") or any(has_custom(k) for k, _ in t["kids"])


def run_tree2(root, remote, cfg_extra, cfg_extra_b=None):
    """one executor for both runs: a child on the other side is called through the connection when `remote`, directly otherwise.
    A node returns a result whose SHAPE varies: an int, a tuple mixing a value with a mutable list (a reference) and a callable, a bare
    callable, a bare list; the caller uses every part (reads the value, appends to the list, calls the callable) and the callee keeps its
    list, so a copy where a reference was due shows in the callee's kept objects."""
    log, kept = [], {}
    trees, ends = {}, {}

    def index(t):
        trees[t["id"]] = t
        for k, _ in t["kids"]:
            index(k)
    index(root)

    def result_of(t, acc):
        lst = [t["id"]]
        kept[t["id"]] = lst
        fn = (lambda z, i=t["id"]: z * 2 + i)
        return {"int": t["id"] + acc, "mixed": (t["id"] + acc, lst, fn), "callable": (lambda z, v=t["id"] + acc: v + 0 * z), "list": [t["id"] + acc]}[t["shape"]]

    def use(k, v, me):
        """what the caller does with the child's result; returns the number it adds to its accumulator"""
        sh = k["shape"]
        if sh == "int":
            return v
        if sh == "mixed":
            v[1].append(("seen-by", me))
            return v[0] + (v[2](1) - 2 - k["id"])
        if sh == "callable":
            return v(7)
        v.append(("seen-by", me))
        return v[0]

    def run(t, side):
        log.append(t["id"])
        acc = 0
        for k, catch in t["kids"]:
            try:
                v = run(k, side) if (k["side"] == side or not remote) else ends[side].root.run(k["id"])
                acc += use(k, v, t["id"])
            except BaseException as e:
                if isinstance(e, (C.Hang, KeyboardInterrupt, SystemExit, MemoryError)) or catch is None or not isinstance(e, CATCH[catch]):
                    raise
                log.append(("caught", t["id"], k["id"], exc_data(e)))
        if t["raises"]:
            raise EXC[t["raises"]](t["id"])
        return result_of(t, acc)

    def final(v, t):
        sh = t["shape"]
        return ("value", sh, v if sh == "int" else (v[0], list(v[1])) if sh == "mixed" else v(7) if sh == "callable" else list(v))

    ca = None
    try:
        if remote:
            def make_service(side):
                class Svc(rpyc.Service):
                    def exposed_run(self, nid):
                        return run(trees[nid], side)
                return Svc()
            cfg = dict({"allow_public_attrs": True, "sync_request_timeout": 30}, **cfg_extra)
            cfg_b = cfg if cfg_extra_b is None else dict({"allow_public_attrs": True, "sync_request_timeout": 30}, **cfg_extra_b)
            ca, cb, _, _ = connect_pair(make_service("A"), make_service("B"), cfg, cfg_b)
            ends["A"], ends["B"] = ca, cb
        try:
            out = final(run(root, "A"), root)
        except C.Hang:
            raise
        except BaseException as e:
            if isinstance(e, (KeyboardInterrupt, SystemExit, MemoryError)):
                raise
            out = ("exc", isinstance(e, ValueError), isinstance(e, KeyError), isinstance(e, Exception), isinstance(e, GeneratorExit), tuple(e.args), exc_data(e))
        return out, log, {k: list(v) for k, v in kept.items()}
    finally:
        run_tree2.last_crashes = [repr(e)[:80] for _, e in getattr(ca, "_harness_crashes", [])] if ca is not None else []
        if ca is not None:
            try:
                ca.close()
            except Exception:
                pass


def exception_phase(ctx, n, model=None):
    r = ctx.rng
    runs = []
    for i in range(n):
        root = gen_tree2(r, r.choice([1, 2, 3, 4] if ctx.quick else [2, 3, 4, 5, 6]), [0], side="A")
        lo = run_tree2(root, False, {})
        for mode, extra, extra_b in (("default", {}, None), ("custom-allowed", CUSTOM_OK, None), ("A-default/B-allowed", {}, CUSTOM_OK), ("A-allowed/B-default", CUSTOM_OK, {})):
            if "/" in mode and i % 2:
                continue                    # the differently configured pairs on every other tree
            ro = run_tree2(root, True, extra, extra_b)
            if run_tree2.last_crashes:
                ctx.violation("serving-ended-by-exception", {"tree2": root, "mode": mode}, observed=run_tree2.last_crashes[:3], expected="every request answered",
                              what="an exception other than EOFError left one side's serving (its serving thread would have died with it)")
            cross = any(True for _ in _cross(root))
            ctx.case(("tree2", mode, repr(root)), nontrivial=cross, sample={"mode": mode, "local": repr(lo[0])[:80], "remote": repr(ro[0])[:80], "custom": has_custom(root)})
            ctx.count("exceptions:" + mode + (":custom-class" if has_custom(root) else ":builtin-only"))
            runs.append((root, mode, lo, ro))
    # the same trees through the model: local evaluation, and the machine with the crossing table of the configuration in force
    outs = None
    if model:
        tbl = {"default": (DEFAULT_TABLE, DEFAULT_TABLE), "custom-allowed": ([], []), "A-default/B-allowed": (DEFAULT_TABLE, []), "A-allowed/B-default": ([], DEFAULT_TABLE)}
        outs = model.batch([[20 * size_of(root) + 50, depth_of(root) + 2, tree2_sx(root), tbl[mode][0], tbl[mode][1]] for root, mode, lo, ro in runs])
    for i, (root, mode, lo, ro) in enumerate(runs):
        predicted = None
        if outs is not None:
            ctx.model_traces += 1
            llog, lout, mlog, mres, left = outs[i]
            ids = lambda log: [x for x in log if not isinstance(x, tuple)]
            if llog != ids(lo[1]) or model_outcome2(lout) != outcome2_sx(lo[0]):
                ctx.tie_broken("correspondence:local-semantics", "tree2 %s model eval %s %s python %s %s" % (tree2_sx(root), llog, lout, ids(lo[1]), lo[0]))
            predicted = (len(mres) == 1 and left == 0 and mlog == ids(ro[1]) and model_outcome2(mres[0]) == outcome2_sx(ro[0]))
            if predicted:
                ctx.count("exceptions:machine-predicts-the-two-peer-run:" + mode)
        if ro == lo:
            if predicted is False:
                ctx.tie_broken("correspondence:machine", "tree2 %s mode %s machine %s %s python %s %s" % (tree2_sx(root), mode, mlog, mres, ids(ro[1]), ro[0]))
            continue
        case = {"tree2": root, "mode": mode}
        which = "result" if ro[0] != lo[0] else ("invocations-or-catches" if ro[1] != lo[1] else "callee-kept-objects")
        # the known deviation is exactly the one the model predicts from the default table (a user-defined class replaced by a stand-in
        # that is an Exception): anything else - also on a tree with user-defined classes - is a different violation
        if mode != "custom-allowed" and has_custom(root) and predicted is not False and which != "callee-kept-objects":
            ctx.violation("custom-exception-class-lost:default-config", case, observed=repr(ro)[:300], expected=repr(lo)[:300],
                          what="a user-defined exception class raised on one peer is not caught by `except <its base class>` on the other under the default configuration (%s differ)" % which)
        else:
            ctx.violation("distributed-differs-from-local:" + which, case, observed=repr(ro)[:300], expected=repr(lo)[:300],
                          what="exception classes / selective catching / result shapes: the two-peer run differs from the one-process run (%s)%s" % (which, "" if predicted is not False else "; nor is it what the model predicts for this configuration"))

def run(ctx):
    model = C.Model("calltree"); model = model if model.available() else None
    r = ctx.rng
    n = 250 if ctx.quick else 8000
    ctx.coverage_extra["rule"] = ("random call trees (depth <= 6 quick / 12 thorough, fan-out <= 4, each node on either peer, 25% of nodes raise, 50% of call sites catch), each call passing an "
                                  "immutable payload from C04's generator, a mutable list by reference and optional keyword arguments; executed locally, over two real connections and by the "
                                  "extracted machine; non-trivial = at least one cross-peer call; distinct by tree")
    mcases, meta = [], []
    for i in range(n):
        depth = r.choice([1, 2, 3, 4, 5, 6] if ctx.quick else [2, 4, 6, 8, 10, 12])
        root = gen_tree(r, depth, [0], side="A")
        if size_of(root) > 400:
            continue
        lo, lw = run_local(root)
        ro, rw = run_remote(root)
        cross = any(True for _ in _cross(root))
        ctx.case(("tree", repr(tree_sx(root))), nontrivial=cross, sample={"size": size_of(root), "depth": depth_of(root), "local": lo[:2], "remote": ro[:2]})
        ctx.count("depth:%d" % depth_of(root)); ctx.count("outcome:" + lo[0])
        case = {"tree": root}
        if lo[0] == "exc" and ro[0] == "exc":
            same = (lo[1] == ro[1] and tuple(lo[2]) == tuple(ro[2]))
        else:
            same = lo == ro
        self_collision = has_self_kw(root) and ro[0] == "fail" and ro[1] == "TypeError" and "_self" in str(ro[2])
        if not same and self_collision:
            ctx.violation("keyword-named-_self-collides-with-the-proxy-method", case, observed=ro, expected=lo,
                          what="a remote call with a keyword operand named `_self` fails with TypeError (the proxy's method wrapper takes its own first parameter by that name); locally it is an ordinary keyword")
        elif not same:
            ctx.violation("distributed-result-differs-from-local", case, observed=ro, expected=lo, what="the outermost result/exception of the two-peer run differs from the one-process run")
        crashed = [repr(e)[:80] for _, e in rw.crashes]
        if crashed and not self_collision:
            ctx.violation("serving-ended-by-exception", case, observed=crashed[:3], expected="every request answered", what="an exception other than EOFError left one side's serving (its serving thread would have died with it)")
        if self_collision:
            pass          # everything downstream of the refused call differs too: reported once, above
        elif lw.log != rw.log:
            ctx.violation("invocation-log-differs", case, observed=rw.log[:40], expected=lw.log[:40], what="callees were not invoked exactly once each in the local order")
        elif lw.shapes != rw.shapes:
            bad = [(a, b) for a, b in zip(lw.shapes, rw.shapes) if a != b][:1]
            ctx.violation("argument-shape-differs", case, observed=repr(bad)[:300], expected="equal", what="a callee saw different arguments (value, reference content or keywords) than in the local run")
        if model:
            mcases.append([20 * size_of(root) + 50, depth_of(root) + 2, tree_sx(root), []]); meta.append((root, lo, lw))
    exception_phase(ctx, 150 if ctx.quick else 4000, model)
    if model and mcases:
        outs = model.batch(mcases)
        for (root, lo, lw), m in zip(meta, outs):
            ctx.model_traces += 1
            llog, lout, mlog, mres, left = m
            exp = [0, lo[1]] if lo[0] == "value" else [1, lo[2][0], MRO["ValueError"]]
            if llog != lw.log or lout != exp:
                ctx.tie_broken("correspondence:local-semantics", "tree %s model eval %s %s python %s %s" % (tree_sx(root), llog, lout, lw.log, exp))
            if mlog != lw.log or mres != [exp] or left != 0:
                ctx.tie_broken("correspondence:machine", "tree %s machine log %s result %s leftover %s python %s %s" % (tree_sx(root), mlog, mres, left, lw.log, exp))


def _cross(t):
    for k, _ in t["kids"]:
        if k["side"] != t["side"]:
            yield True
        yield from _cross(k)


def replay(ctx, rep):
    if "tree2" in rep["case"]:
        root, mode = rep["case"]["tree2"], rep["case"]["mode"]
        lo = run_tree2(root, False, {})
        cfgs = {"default": ({}, None), "custom-allowed": (CUSTOM_OK, None), "A-default/B-allowed": ({}, CUSTOM_OK), "A-allowed/B-default": (CUSTOM_OK, {})}[mode]
        ro = run_tree2(root, True, cfgs[0], cfgs[1])
        ctx.case(("replay2", repr(root)), True)
        if ro != lo:
            sig = "custom-exception-class-lost:default-config" if (mode != "custom-allowed" and has_custom(root)) else "distributed-differs-from-local:replay"
            ctx.violation(sig, rep["case"], observed=repr(ro)[:300], expected=repr(lo)[:300], what="the two-peer run differs from the one-process run")
        return
    root = rep["case"]["tree"]

    def fix(t):
        t["kids"] = [(fix(k), c) for k, c in t["kids"]]
        return t
    root = fix(root)
    lo, lw = run_local(root)
    ro, rw = run_remote(root)
    ctx.case(("replay", repr(tree_sx(root))), True)
    if (lo[0], tuple(lo[1:]) if lo[0] != "exc" else (lo[1], tuple(lo[2]))) != (ro[0], tuple(ro[1:]) if ro[0] != "exc" else (ro[1], tuple(ro[2]))):
        ctx.violation("distributed-result-differs-from-local", rep["case"], observed=ro, expected=lo, what="the outermost result/exception of the two-peer run differs from the one-process run")
    if lw.log != rw.log:
        ctx.violation("invocation-log-differs", rep["case"], observed=rw.log[:40], expected=lw.log[:40], what="callees were not invoked exactly once each in the local order")
