(* Generic line driver for every extracted model: parse an s-expression per line,
   call Model.run, print the resulting s-expression.  No model logic lives here.
   tokens:  (  )  i<hex> / i-<hex>  (integer)   x<hex>  (byte string, maybe empty) *)
open Model
type str = Stdlib.String.t

let byte_arr : byte array = Array.of_list all_bytes
let byte_tbl : (byte, int) Hashtbl.t =
  let t = Hashtbl.create 512 in Array.iteri (fun i b -> Hashtbl.replace t b i) byte_arr; t

let hexval c = match c with
  | '0'..'9' -> Char.code c - 48 | 'a'..'f' -> Char.code c - 87 | 'A'..'F' -> Char.code c - 55
  | _ -> failwith "bad hex"

(* hex digits (most significant first) -> positive *)
let pos_of_hex (s : Stdlib.String.t) (start : int) : z =
  let n = Stdlib.String.length s in
  (* collect bits most-significant first *)
  let acc = ref None in
  for i = start to n - 1 do
    let v = hexval s.[i] in
    for k = 3 downto 0 do
      let bit = (v lsr k) land 1 in
      acc := (match !acc with
        | None -> if bit = 1 then Some XH else None
        | Some p -> Some (if bit = 1 then XI p else XO p))
    done
  done;
  match !acc with None -> Z0 | Some p -> Zpos p

let hex_of_pos (p : positive) : Stdlib.String.t =
  (* bits least-significant first *)
  let rec bits p acc = match p with
    | XH -> 1 :: acc | XO q -> bits q (0 :: acc) | XI q -> bits q (1 :: acc) in
  let msb_first = bits p [] in   (* msb first because we cons going up *)
  let l = Stdlib.List.length msb_first in
  let pad = (4 - l mod 4) mod 4 in
  let arr = Array.of_list (Stdlib.List.init pad (fun _ -> 0) @ msb_first) in
  let b = Buffer.create (Array.length arr / 4 + 1) in
  let i = ref 0 in
  while !i < Array.length arr do
    let v = arr.(!i) * 8 + arr.(!i+1) * 4 + arr.(!i+2) * 2 + arr.(!i+3) in
    Buffer.add_char b "0123456789abcdef".[v]; i := !i + 4
  done; Buffer.contents b

let parse_line (s : Stdlib.String.t) : sx =
  let n = Stdlib.String.length s in
  let pos = ref 0 in
  let skip () = while !pos < n && (s.[!pos] = ' ' || s.[!pos] = '\t' || s.[!pos] = '\r') do incr pos done in
  let tok_end () = let e = ref !pos in
    while !e < n && s.[!e] <> ' ' && s.[!e] <> '(' && s.[!e] <> ')' do incr e done; !e in
  let rec item () : sx =
    skip ();
    if !pos >= n then failwith "eol" else
    match s.[!pos] with
    | '(' -> incr pos; let acc = ref [] in
        let fin = ref false in
        while not !fin do
          skip ();
          if !pos >= n then failwith "unclosed" else
          if s.[!pos] = ')' then (incr pos; fin := true) else acc := item () :: !acc
        done; SL (Stdlib.List.rev !acc)
    | 'i' -> let e = tok_end () in
        let neg = (!pos + 1 < e && s.[!pos+1] = '-') in
        let st = if neg then !pos + 2 else !pos + 1 in
        let t = Stdlib.String.sub s st (e - st) in
        pos := e;
        let z = pos_of_hex t 0 in
        SI (if neg then (match z with Zpos p -> Zneg p | o -> o) else z)
    | 'x' -> let e = tok_end () in
        let st = !pos + 1 in
        let cnt = (e - st) / 2 in
        let l = ref [] in
        for k = cnt - 1 downto 0 do
          let v = hexval s.[st + 2*k] * 16 + hexval s.[st + 2*k + 1] in
          l := byte_arr.(v) :: !l
        done; pos := e; SB !l
    | c -> failwith (Printf.sprintf "bad token %c" c)
  in item ()

let rec print_sx (b : Buffer.t) (x : sx) : unit =
  match x with
  | SI Z0 -> Buffer.add_string b "i0"
  | SI (Zpos p) -> Buffer.add_char b 'i'; Buffer.add_string b (hex_of_pos p)
  | SI (Zneg p) -> Buffer.add_string b "i-"; Buffer.add_string b (hex_of_pos p)
  | SB l -> Buffer.add_char b 'x';
      Stdlib.List.iter (fun y -> let v = Hashtbl.find byte_tbl y in
                 Buffer.add_char b "0123456789abcdef".[v lsr 4];
                 Buffer.add_char b "0123456789abcdef".[v land 15]) l
  | SL l -> Buffer.add_char b '(';
      Stdlib.List.iteri (fun i y -> if i > 0 then Buffer.add_char b ' '; print_sx b y) l;
      Buffer.add_char b ')'

let () =
  try
    while true do
      let line = input_line stdin in
      if Stdlib.String.length line > 0 then begin
        let out = Buffer.create 256 in
        (try print_sx out (run (parse_line line))
         with Failure m -> Buffer.clear out; Buffer.add_string out ("(x6472697665726572726f72)"); ignore m
            | Stack_overflow -> Buffer.clear out; Buffer.add_string out "(x737461636b6f766572666c6f77)");
        print_string (Buffer.contents out); print_newline ()
      end
    done
  with End_of_file -> ()
