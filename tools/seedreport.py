#!/usr/bin/env python3
"""Markdown table of the seeded changes under /verif/seeded and which checks flag them."""
import glob, json, os
V = os.path.dirname(os.path.dirname(os.path.abspath(__file__)))
rows = []
for d in sorted(glob.glob(os.path.join(V, "seeded", "*"))):
    try:
        m = json.load(open(os.path.join(d, "meta.json")))
    except Exception:
        continue
    notes = open(os.path.join(d, "notes.md")).read() if os.path.exists(os.path.join(d, "notes.md")) else ""
    first = next((l.strip("# *-").strip() for l in notes.splitlines() if l.strip() and not l.startswith("```")), "")[:110]
    chk = []
    for c, r in (m.get("checks") or {}).items():
        kinds = []
        for l in r.get("lines", []):
            if "no-failing-input-found" in l:
                kinds.append("broken obligation/tie (no failing input found)")
            elif l.startswith("VIOLATION"):
                kinds.append(l.split("(", 1)[-1].split(":")[0].strip() if "(" in l else "violation")
        chk.append("%s: %s" % (c, ("; ".join(sorted(set(kinds))) or ("exit %s, no VIOLATION" % r.get("exit")))))
    rows.append("| %s | %s | %s | demo %s/%s, tests %s/57 | %s |" % (m["seed"], m["property"], first, m.get("demo_patched_exit"), m.get("demo_clean_exit"),
                                                                   m.get("baseline_tests_passing_with_patch", "n/a"), "<br>".join(chk)))
print("| seed | property | change | confirmed (demo exit with patch / clean; pinned tests passing with patch) | what our checks report |")
print("|---|---|---|---|---|")
print("\n".join(rows))
