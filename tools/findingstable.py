#!/usr/bin/env python3
"""print the findings table for DESIGN.md from known_findings.json"""
import json, os
V = os.path.dirname(os.path.dirname(os.path.abspath(__file__)))
k = json.load(open(os.path.join(V, "known_findings.json")))
print("| id | prop | signature | handling |")
print("|---|---|---|---|")
for e in k:
    what = e["what"]
    if e["status"] == "fixed":
        what = what.split(e.get("commit", "") + " ", 1)[-1]
        h = "fix `%s`: %s" % (e.get("commit"), what[:230])
    else:
        h = "**known**: " + what[:300]
    print("| %s | %s | `%s` | %s |" % (e["id"], e["property"], e["signature"], h.replace("|", "/").replace("\n", " ")))
