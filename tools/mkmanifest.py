#!/usr/bin/env python3
"""Regenerate MANIFEST.json from harness/Cxx.py META blocks (static parse; nothing is imported)."""
import ast, glob, json, os, subprocess
V = os.path.dirname(os.path.dirname(os.path.abspath(__file__)))
props = [json.loads(l) for l in open(os.path.join(V, "properties.jsonl"))]
base = json.load(open("/root/.vp/BASELINE.json")) if os.path.exists("/root/.vp/BASELINE.json") else {}
checks, na = [], []
for p in props:
    pid = p["id"]
    f = os.path.join(V, "harness", pid + ".py")
    meta = None
    if os.path.exists(f):
        for n in ast.parse(open(f).read()).body:
            if isinstance(n, ast.Assign) and getattr(n.targets[0], "id", "") == "META":
                meta = ast.literal_eval(n.value)
    ready = set(open(os.path.join(V, "tools", "ready.txt")).read().split())
    if pid not in ready:
        meta = None
    if not meta or meta.get("disabled"):
        na.append({"property_id": pid, "reason": (meta or {}).get("disabled") or
                   "check not built yet (model and proof planned in DESIGN.md section 6; not claimed until its check runs green)"})
        continue
    checks.append({
        "property_id": pid,
        "quick_cmd": "./check %s --tier quick" % pid,
        "thorough_cmd": "./check %s --tier thorough" % pid,
        "evidence_file": "/verif/evidence/%s.json" % pid,
        "replay_cmd_template": "./check %s --replay {path}" % pid,
        "engine": "coq+pygen+model-runner+harness",
        "level_claimed": {"category": meta.get("level", "proof"), "text": meta["level_text"], "design_ref": meta.get("design_ref", "DESIGN.md section 6, " + pid)},
        "level_note": meta["level_note"],
        "technique": meta.get("technique", "machine-checked proof in Coq 8.16 over an executable model + translator tie + model/implementation correspondence"),
    })
hooks_commits = []
try:
    out = subprocess.run(["git", "-C", "/repo", "log", "--format=%h %s"], capture_output=True, text=True).stdout
    hooks_commits = [l.split()[0] for l in out.splitlines() if l.split(" ", 1)[1].startswith("verif-hook:")]
except Exception:
    pass
m = {
    "version": 1,
    "setup_cmd": "./check --setup",
    "hooks": {"guard": "RPYC_VERIF", "enable": "checks export RPYC_VERIF=1; no source hook is needed so far: all instrumentation is harness-side (fake sockets, virtual clock, settrace scheduler)",
              "baseline_off_cmd": "cd /repo && /venv/bin/python -m pytest -ra -q -p no:cacheprovider --timeout=900 --continue-on-collection-errors",
              "source_commits": hooks_commits, "add_only": True},
    "engines": [
        {"name": "pygen", "path": "tools/pygen", "kind_free_text": "fail-closed Python-ast -> Gallina translator (constants, tables, ladders, decision functions, shape snapshots), run on every check"},
        {"name": "coq", "path": "coq", "kind_free_text": "Coq 8.16.1 models (coq/model), proofs (coq/proofs), property theorems (coq/props) with Print Assumptions"},
        {"name": "model-runner", "path": "ocaml/driver.ml", "kind_free_text": "ExtrOcamlBasic extraction of the models + generic s-expression driver"},
        {"name": "harness", "path": "harness", "kind_free_text": "correspondence model vs implementation, implementation-level oracles, replay, evidence"},
    ],
    "checks": checks,
    "not_applicable": na,
    "notes": "One development serves the pinned and the repaired tree: generated facts select which of a theorem / refutation pair is live. known_findings.json lists known and fixed findings.",
}
for e in m["engines"]:
    e["serves_properties"] = [c["property_id"] for c in checks]
json.dump(m, open(os.path.join(V, "MANIFEST.json"), "w"), indent=1)
print("checks:", [c["property_id"] for c in checks], "not_applicable:", len(na))
