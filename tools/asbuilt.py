#!/usr/bin/env python3
"""Appendix for DESIGN.md: per property, what is claimed (META level_text / level_note / assumptions), the theorems present in
coq/props/Cxx.v, the generated modules and snapshot patterns of its tie, and its known findings."""
import ast, glob, json, os, re
V = os.path.dirname(os.path.dirname(os.path.abspath(__file__)))
props = {json.loads(l)["id"]: json.loads(l) for l in open(os.path.join(V, "properties.jsonl"))}
known = json.load(open(os.path.join(V, "known_findings.json")))
for pid in sorted(props):
    hp = os.path.join(V, "harness", pid + ".py")
    meta = {}
    if os.path.exists(hp):
        for n in ast.parse(open(hp).read()).body:
            if isinstance(n, ast.Assign) and getattr(n.targets[0], "id", None) == "META":
                try:
                    meta = ast.literal_eval(n.value)
                except Exception:
                    meta = {}
    txt = open(os.path.join(V, "coq", "props", pid + ".v")).read() if os.path.exists(os.path.join(V, "coq", "props", pid + ".v")) else ""
    names = re.findall(r"^\s*(Theorem|Example)\s+(\w+)", txt, flags=re.M)
    print("### %s — %s\n" % (pid, props[pid]["title"]))
    print("*Claimed (%s).* %s\n" % (meta.get("level", "?"), meta.get("level_text", "")))
    print("*Trusted / not in the model.* %s\n" % meta.get("level_note", ""))
    if meta.get("assumptions"):
        print("*Assumptions.* " + "; ".join(meta["assumptions"]) + "\n")
    print("*Theorems (`coq/props/%s.v`).* " % pid + ", ".join("`%s`" % n for k, n in names if k == "Theorem")
          + ("; non-vacuity examples: " + ", ".join("`%s`" % n for k, n in names if k == "Example") if any(k == "Example" for k, _ in names) else "") + "\n")
    print("*Tie.* generated modules: %s; snapshot patterns: %s; extracted models: %s\n" % (
        ", ".join(meta.get("gen", [])) or "-", ", ".join("`%s`" % s for s in meta.get("shapes", [])) or "-", ", ".join(meta.get("models", [])) or "-"))
    fs = [e for e in known if e["property"] == pid]
    if fs:
        print("*Findings.* " + "; ".join("%s (%s%s) `%s`" % (e["id"], e["status"], " " + e["commit"] if e.get("commit") else "", e["signature"]) for e in fs) + "\n")
