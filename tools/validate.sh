#!/bin/sh
# validate MANIFEST.json and every evidence file against the given schemas (needs the tooling venv's jsonschema)
cd "$(dirname "$0")/.." && python3-vt - <<'PY'
import json, jsonschema, glob, sys
jsonschema.validate(json.load(open('MANIFEST.json')), json.load(open('/root/.vp/MANIFEST.schema.json')))
es = json.load(open('/root/.vp/EVIDENCE.schema.json')); bad = 0
for f in sorted(glob.glob('evidence/*.json')):
    try:
        jsonschema.validate(json.load(open(f)), es)
    except jsonschema.ValidationError as e:
        bad += 1; print(f, "INVALID:", e.message[:200], list(e.path))
ps = json.load(open('/root/.vp/PROPERTIES.schema.json'))
print("manifest ok; evidence files invalid:", bad)
sys.exit(1 if bad else 0)
PY
