#!/usr/bin/env python3
"""tools/seedtest.py <src_dir> <seed_id> <property> [check ids...]
Confirm a seeded change (patch.diff + demo.py + notes.md in src_dir) in a scratch copy of /repo and record it under /verif/seeded/<seed_id>/:
 - patch applies to a clean copy of /repo's HEAD
 - demo exits 1 with the patch, 0 without
 - the pinned test-suite still has its 57 baseline tests passing with the patch
 - which of our checks (run with REPO=<scratch>) report a VIOLATION
Nothing is ever applied to /repo itself."""
import json, os, shutil, subprocess, sys, time
src, sid, prop = sys.argv[1:4]
checks = sys.argv[4:] or [prop]
V = os.path.dirname(os.path.dirname(os.path.abspath(__file__)))
scratch = "/tmp/seedtest-%s" % sid
def sh(cmd, cwd=None, env=None, timeout=1800):
    e = dict(os.environ); e.update(env or {})
    p = subprocess.run(cmd, shell=True, cwd=cwd, env=e, stdout=subprocess.PIPE, stderr=subprocess.STDOUT, timeout=timeout)
    return p.returncode, p.stdout.decode(errors="replace")
shutil.rmtree(scratch, ignore_errors=True)
sh("git -C /repo worktree prune; git -C /repo worktree add --detach %s HEAD" % scratch)
meta = {"seed": sid, "property": prop, "repo_head": sh("git -C /repo rev-parse --short HEAD")[1].strip(), "ran": []}
env = {"PYTHONPATH": scratch, "PYTHONHASHSEED": "0"}
try:
    rc0, out0 = sh("timeout 120 /venv/bin/python %s/demo.py" % os.path.abspath(src), cwd=scratch, env=env)
    meta["demo_clean_exit"] = rc0
    rc, out = sh("git apply %s/patch.diff" % os.path.abspath(src), cwd=scratch)
    if rc:
        rc, out = sh("git apply -3 %s/patch.diff && git reset -q" % os.path.abspath(src), cwd=scratch)
        meta["applied_with_3way"] = rc == 0
    meta["patch_applies"] = rc == 0
    if rc:
        meta["apply_error"] = out[-500:]
    else:
        rc1, out1 = sh("timeout 120 /venv/bin/python %s/demo.py" % os.path.abspath(src), cwd=scratch, env=env)
        meta["demo_patched_exit"] = rc1
        meta["demo_patched_tail"] = out1[-400:]
        if "--no-tests" not in sys.argv:
            base = json.load(open("/root/.vp/BASELINE.json"))["stable_pass"]
            rc2, out2 = sh("unshare -n sh -c 'ip link set lo up; ip route add default dev lo 2>/dev/null; timeout 1500 /venv/bin/python -m pytest -q -p no:cacheprovider --timeout=300 --continue-on-collection-errors --ignore=tests/test_gdb.py --junitxml=/tmp/seedtest-%s.xml tests'" % sid, cwd=scratch, env=env, timeout=1600)
            import xml.etree.ElementTree as ET
            passed = set()
            try:
                for tc in ET.parse("/tmp/seedtest-%s.xml" % sid).getroot().iter("testcase"):
                    if not list(tc):
                        passed.add(tc.get("classname") + "::" + tc.get("name"))
            except Exception as e:
                meta["junit_error"] = repr(e)
            missing = [t for t in base if t not in passed]
            meta["baseline_tests_passing_with_patch"] = len(base) - len(missing)
            meta["baseline_tests_missing"] = missing
            meta["ran"].append("pytest (pinned suite) in scratch worktree with patch")
        for c in [c for c in checks if not c.startswith("--")]:
            rc3, out3 = sh("timeout 1500 ./check %s" % c, cwd=V, env={"REPO": scratch}, timeout=1600)
            lines = [l for l in out3.splitlines() if l.startswith("VIOLATION")] + [l for l in out3.splitlines() if l.startswith("KNOWN-FINDING")]
            meta.setdefault("checks", {})[c] = {"exit": rc3, "lines": [l[:300] for l in lines[:6]]}
            meta["ran"].append("REPO=%s ./check %s" % (scratch, c))
finally:
    sh("git -C /repo worktree remove --force %s" % scratch)
    # regenerate gen files from the real repo
    sh("timeout 300 ./check C04 >/dev/null 2>&1", cwd=V)
dst = os.path.join(V, "seeded", sid)
os.makedirs(dst, exist_ok=True)
if "--no-tests" in sys.argv and os.path.exists(os.path.join(dst, "meta.json")):
    # a re-run of the checks only: keep the earlier pytest confirmation and the results of checks not re-run now
    old = json.load(open(os.path.join(dst, "meta.json")))
    for k in ("baseline_tests_passing_with_patch", "baseline_tests_missing"):
        if k in old and k not in meta:
            meta[k] = old[k]
    if "baseline_tests_passing_with_patch" in meta:
        meta["ran"].insert(0, "pytest (pinned suite) in scratch worktree with patch (earlier run, head %s)" % old.get("repo_head"))
    for c, r in old.get("checks", {}).items():
        meta.setdefault("checks", {}).setdefault(c, r)
for f in ("patch.diff", "demo.py", "notes.md"):
    if os.path.exists(os.path.join(src, f)) and os.path.realpath(src) != os.path.realpath(dst):
        shutil.copy(os.path.join(src, f), os.path.join(dst, f))
notes = open(os.path.join(src, "notes.md")).read() if os.path.exists(os.path.join(src, "notes.md")) else ""
meta["needs_to_manifest"] = notes[:1500]
json.dump(meta, open(os.path.join(dst, "meta.json"), "w"), indent=1)
print(json.dumps({k: v for k, v in meta.items() if k not in ("needs_to_manifest", "demo_patched_tail")}, indent=1))
