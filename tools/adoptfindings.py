#!/usr/bin/env python3
"""tools/adoptfindings.py <Cxx> [sig=commit ...] [--known sig ...]
Move the proposals of build/proposed_findings/<Cxx>.json into known_findings.json (development-time tool; checks never write that file).
`known` proposals are adopted as they are; a `fixed-pending` proposal is adopted as `fixed` when its signature is given a commit
(sig=commit), as `known` when listed after --known, and skipped otherwise. Already present (property, signature) pairs are skipped."""
import json, os, re, sys
V = os.path.dirname(os.path.dirname(os.path.abspath(__file__)))
pid = sys.argv[1]
args = sys.argv[2:]
asknown = set(args[args.index("--known") + 1:]) if "--known" in args else set()
commits = dict(a.split("=", 1) for a in args if "=" in a and not a.startswith("--"))
kf = os.path.join(V, "known_findings.json")
known = json.load(open(kf))
have = {(e["property"], e["signature"]) for e in known}
nxt = max(int(re.match(r"F(\d+)", e["id"]).group(1)) for e in known) + 1
for e in json.load(open(os.path.join(V, "build", "proposed_findings", pid + ".json"))):
    key = (e["property"], e["signature"])
    if key in have:
        print("already there:", key); continue
    what = e["what"]
    if e["status"] == "known" or e["signature"] in asknown:
        ent = {"id": "F%d" % nxt, "property": e["property"], "status": "known", "signature": e["signature"], "what": what}
    elif e["signature"] in commits:
        c = commits[e["signature"]]
        ent = {"id": "F%d" % nxt, "property": e["property"], "status": "fixed", "commit": c, "signature": e["signature"],
               "what": "fixed: property=%s %s %s" % (e["property"], c, what)}
    else:
        print("skipped (fixed-pending without a commit):", key); continue
    known.append(ent); have.add(key); nxt += 1
    print("adopted", ent["id"], ent["status"], key)
json.dump(known, open(kf, "w"), indent=1, ensure_ascii=False)
open(kf, "a").write("\n")
