from .core import *

SRC = "rpyc/core/consts.py"


def translate(repo):
    tree = parse(repo, SRC)
    items = []
    names = []
    for n in tree.body:
        if isinstance(n, ast.Assign) and len(n.targets) == 1 and isinstance(n.targets[0], ast.Name):
            nm = n.targets[0].id
            try:
                v = const_int(n.value)
            except Unrecognised:
                continue
            items.append(typed(nm, "Z", coq_z(v)))
            names.append((nm, v))
    items.append(typed("all_consts", "list (string * Z)",
                       coq_list("(%s, %s)" % (coq_string(a), coq_z(b)) for a, b in names)))
    return items
