from .core import *

SRC = "rpyc/core/channel.py"
CMPN = {ast.Eq: "Eq", ast.Lt: "Lt", ast.LtE: "LtE", ast.Gt: "Gt", ast.GtE: "GtE"}


def translate(repo):
    tree = parse(repo, SRC)
    cls = find_class(tree, "Channel")
    items = []
    items.append(typed("COMPRESSION_THRESHOLD", "N", coq_n(const_int(find_assign(cls, "COMPRESSION_THRESHOLD")))))
    items.append(typed("COMPRESSION_LEVEL", "N", coq_n(const_int(find_assign(cls, "COMPRESSION_LEVEL")))))
    fh = find_assign(cls, "FRAME_HEADER")
    if not (isinstance(fh, ast.Call) and ast.unparse(fh.func) == "Struct" and isinstance(fh.args[0], ast.Constant)):
        raise Unrecognised("FRAME_HEADER")
    fmt = fh.args[0].value
    items.append(typed("FRAME_HEADER_format", "string", coq_string(fmt)))
    sizes = {"!LB": 5}
    if fmt in sizes:
        items.append(typed("FRAME_HEADER_size", "N", coq_n(sizes[fmt])))
    fl = find_assign(cls, "FLUSHER")
    if not (isinstance(fl, ast.Call) and ast.unparse(fl.func) == "BYTES_LITERAL" and isinstance(fl.args[0], ast.Constant)
            and isinstance(fl.args[0].value, str)):
        raise Unrecognised("FLUSHER")
    items.append(typed("FLUSHER", "list N", coq_list(coq_n(b) for b in fl.args[0].value.encode("latin1"))))
    send = find_func(cls, "send")
    body = strip_doc(send.body)
    # if self.compress and len(data) > self.COMPRESSION_THRESHOLD:
    t = body[0].test if isinstance(body[0], ast.If) else None
    if not (isinstance(t, ast.BoolOp) and isinstance(t.op, ast.And) and len(t.values) == 2
            and ast.unparse(t.values[0]) == "self.compress" and isinstance(t.values[1], ast.Compare)
            and ast.unparse(t.values[1].left) == "len(data)" and ast.unparse(t.values[1].comparators[0]) == "self.COMPRESSION_THRESHOLD"):
        raise Unrecognised("send: compression test")
    items.append(typed("compress_when_len", "string", coq_string(CMPN[type(t.values[1].ops[0])])))
    # if self.FRAME_HEADER.size + data_size + flush_size <= self.stream.MAX_IO_CHUNK:
    sp = [s for s in body if isinstance(s, ast.If)][1]
    t2 = sp.test
    if not (isinstance(t2, ast.Compare) and ast.unparse(t2.left) == "self.FRAME_HEADER.size + data_size + flush_size"
            and ast.unparse(t2.comparators[0]) == "self.stream.MAX_IO_CHUNK"):
        raise Unrecognised("send: split test")
    items.append(typed("single_write_when_total", "string", coq_string(CMPN[type(t2.ops[0])])))
    items.append(shape("send", func_shape(send)))
    items.append(shape("recv", func_shape(find_func(cls, "recv"))))
    items.append(shape("__init__", func_shape(find_func(cls, "__init__"))))
    for nm in ("close", "poll", "fileno", "closed"):
        items.append(shape(nm, func_shape(find_func(cls, nm))))
    return items
