"""rpyc/utils/classic.py -> Gen_classic.v : the skeletons of upload/upload_file/upload_dir and
download/download_file/download_dir as `Files.skel` values (which side every filesystem operation goes to,
open modes, the statements of the chunk loop, the filter guard, the recursive call's arguments).
Everything else about the six functions is pinned by the templates below (fail closed)."""
from .core import *

SRC = "rpyc/utils/classic.py"
PRELUDE = "From V Require Import model.Files.\n"

# callee text -> (side, operation)
OPS = {}
for _side, _os, _open in (("Local", "os", "open"), ("Remote", "conn.modules.os", "conn.builtin.open")):
    OPS[_os + ".path.isdir"] = (_side, "isdir")
    OPS[_os + ".path.isfile"] = (_side, "isfile")
    OPS[_os + ".path.join"] = (_side, "join")
    OPS[_os + ".listdir"] = (_side, "listdir")
    OPS[_os + ".makedirs"] = (_side, "makedirs")
    OPS[_open] = (_side, "open")


def _op(node, want, nargs):
    """<side prefix>.<want>(a1..an), no keywords -> (side, [args])"""
    if not (isinstance(node, ast.Call) and not node.keywords and len(node.args) == nargs):
        raise Unrecognised("call %s: %s" % (want, ast.unparse(node)))
    key = ast.unparse(node.func)
    if key not in OPS or OPS[key][1] != want:
        raise Unrecognised("expected %s, found %s" % (want, key))
    return OPS[key][0], node.args


def _is_name(node, nm):
    return isinstance(node, ast.Name) and node.id == nm


def _need(cond, what):
    if not cond:
        raise Unrecognised(what)


def _params(fn, names_defaults):
    """positional parameter list [(name-or-None, default text or None)]; returns the actual names"""
    a = fn.args
    _need(not (a.vararg or a.kwarg or a.kwonlyargs or a.posonlyargs), fn.name + ": parameter kinds")
    _need(len(a.args) == len(names_defaults), fn.name + ": parameter count")
    defaults = [None] * (len(a.args) - len(a.defaults)) + [ast.unparse(d) for d in a.defaults]
    out = []
    for arg, dflt, (want, wd) in zip(a.args, defaults, names_defaults):
        _need(want is None or arg.arg == want, "%s: parameter %s" % (fn.name, arg.arg))
        _need(dflt == wd, "%s: default of %s is %s" % (fn.name, arg.arg, dflt))
        out.append(arg.arg)
    return out


def _top(fn, dir_name, file_name):
    _, src, dst, flt, ign, chunk = _params(fn, [("conn", None), (None, None), (None, None), ("filter", "None"),
                                                 ("ignore_invalid", "False"), ("chunk_size", "STREAM_CHUNK")])
    body = strip_doc(fn.body)
    _need(len(body) == 1 and isinstance(body[0], ast.If), fn.name + ": body")
    i1 = body[0]
    s1, a1 = _op(i1.test, "isdir", 1)
    _need(_is_name(a1[0], src), fn.name + ": isdir argument")
    _need(len(i1.body) == 1 and ast.unparse(i1.body[0]) == "%s(conn, %s, %s, filter, chunk_size)" % (dir_name, src, dst),
          fn.name + ": directory branch")
    _need(len(i1.orelse) == 1 and isinstance(i1.orelse[0], ast.If), fn.name + ": elif")
    i2 = i1.orelse[0]
    s2, a2 = _op(i2.test, "isfile", 1)
    _need(_is_name(a2[0], src), fn.name + ": isfile argument")
    _need(s1 == s2, fn.name + ": isdir/isfile on different sides")
    _need(len(i2.body) == 1 and ast.unparse(i2.body[0]) == "%s(conn, %s, %s, chunk_size)" % (file_name, src, dst),
          fn.name + ": file branch")
    raises = False
    if i2.orelse:
        _need(len(i2.orelse) == 1 and isinstance(i2.orelse[0], ast.If) and not i2.orelse[0].orelse
              and ast.unparse(i2.orelse[0].test) == "not ignore_invalid" and len(i2.orelse[0].body) == 1
              and isinstance(i2.orelse[0].body[0], ast.Raise) and isinstance(i2.orelse[0].body[0].exc, ast.Call)
              and ast.unparse(i2.orelse[0].body[0].exc.func) == "ValueError", fn.name + ": else branch")
        raises = True
    return "{| tk_probe := %s; tk_dir_first := true; tk_raise_unless_ignored := %s |}" % (s1, coq_bool(raises))


MODES = {"rb": "RB", "wb": "WB"}


def _with_open(st, path):
    _need(isinstance(st, ast.With) and len(st.items) == 1 and isinstance(st.items[0].optional_vars, ast.Name),
          "with statement")
    side, args = _op(st.items[0].context_expr, "open", 2)
    _need(_is_name(args[0], path), "open path %s" % ast.unparse(args[0]))
    _need(isinstance(args[1], ast.Constant) and args[1].value in MODES, "open mode %s" % ast.unparse(args[1]))
    return side, MODES[args[1].value], st.items[0].optional_vars.id, st.body


def _file(fn):
    _, src, dst, chunk = _params(fn, [("conn", None), (None, None), (None, None), ("chunk_size", "STREAM_CHUNK")])
    body = strip_doc(fn.body)
    _need(len(body) == 1, fn.name + ": body")
    s_side, s_mode, sf, inner = _with_open(body[0], src)
    _need(len(inner) == 1, fn.name + ": outer with body")
    d_side, d_mode, df, inner = _with_open(inner[0], dst)
    _need(sf != df, fn.name + ": file variables")
    _need(len(inner) == 1 and isinstance(inner[0], ast.While) and not inner[0].orelse
          and isinstance(inner[0].test, ast.Constant) and inner[0].test.value is True, fn.name + ": while True")
    stmts = []
    for st in inner[0].body:
        t = ast.unparse(st)
        if t == "buf = %s.read(chunk_size)" % sf:
            stmts.append("SRead")
        elif t == "if not buf:\n    break":
            stmts.append("SBreakIfEmpty")
        elif t == "if len(buf) < chunk_size:\n    break":
            stmts.append("SBreakIfShort")
        elif t == "%s.write(buf)" % df:
            stmts.append("SWrite")
        else:
            raise Unrecognised("%s: loop statement %r" % (fn.name, t))
    return ("{| fk_src := %s; fk_src_mode := %s; fk_dst := %s; fk_dst_mode := %s; fk_body := %s |}"
            % (s_side, s_mode, d_side, d_mode, coq_list(stmts)))


def _dir(fn, top_name):
    _, src, dst, flt, chunk = _params(fn, [("conn", None), (None, None), (None, None), ("filter", "None"),
                                           ("chunk_size", "STREAM_CHUNK")])
    body = strip_doc(fn.body)
    _need(len(body) == 2 and isinstance(body[0], ast.If) and isinstance(body[1], ast.For), fn.name + ": body")
    g = body[0]
    _need(isinstance(g.test, ast.UnaryOp) and isinstance(g.test.op, ast.Not) and not g.orelse and len(g.body) == 1
          and isinstance(g.body[0], ast.Expr), fn.name + ": makedirs guard")
    s_test, a = _op(g.test.operand, "isdir", 1)
    _need(_is_name(a[0], dst), fn.name + ": isdir argument")
    s_mk, a = _op(g.body[0].value, "makedirs", 1)
    _need(_is_name(a[0], dst), fn.name + ": makedirs argument")
    _need(s_test == s_mk, fn.name + ": isdir/makedirs on different sides")
    loop = body[1]
    _need(isinstance(loop.target, ast.Name) and not loop.orelse, fn.name + ": for")
    fnv = loop.target.id
    s_list, a = _op(loop.iter, "listdir", 1)
    _need(_is_name(a[0], src), fn.name + ": listdir argument")
    _need(len(loop.body) == 1 and isinstance(loop.body[0], ast.If) and not loop.body[0].orelse, fn.name + ": loop body")
    fi = loop.body[0]
    guards = {"not filter or filter(%s)" % fnv: "GTruthy", "filter is None or filter(%s)" % fnv: "GIsNone"}
    _need(ast.unparse(fi.test) in guards, fn.name + ": filter guard " + ast.unparse(fi.test))
    guard = guards[ast.unparse(fi.test)]
    _need(len(fi.body) == 3 and all(isinstance(s, ast.Assign) and len(s.targets) == 1 and isinstance(s.targets[0], ast.Name)
                                    for s in fi.body[:2]) and isinstance(fi.body[2], ast.Expr), fn.name + ": guarded block")
    joins = {}
    for s in fi.body[:2]:
        side, a = _op(s.value, "join", 2)
        _need(_is_name(a[1], fnv) and isinstance(a[0], ast.Name) and a[0].id in (src, dst), fn.name + ": join arguments")
        joins[a[0].id] = (side, s.targets[0].id)
    _need(set(joins) == {src, dst} and joins[src][1] != joins[dst][1], fn.name + ": joins")
    call = fi.body[2].value
    _need(isinstance(call, ast.Call) and _is_name(call.func, top_name)
          and [ast.unparse(x) for x in call.args] == ["conn", joins[src][1], joins[dst][1]], fn.name + ": recursive call")
    kw = {k.arg: ast.unparse(k.value) for k in call.keywords}
    _need(set(kw) == {"filter", "ignore_invalid", "chunk_size"} and kw["filter"] == "filter"
          and kw["chunk_size"] == "chunk_size" and kw["ignore_invalid"] in ("True", "False"), fn.name + ": recursive call keywords")
    return ("{| dk_mk := %s; dk_list := %s; dk_guard := %s; dk_src_join := %s; dk_dst_join := %s; "
            "dk_ignore_invalid := %s |}" % (s_mk, s_list, guard, joins[src][0], joins[dst][0], coq_bool(kw["ignore_invalid"] == "True")))


def translate(repo):
    tree = parse(repo, SRC)
    items = []
    # the default chunk is the constant of rpyc.core.consts
    imp = [n for n in tree.body if isinstance(n, ast.ImportFrom) and n.module == "rpyc.core.consts"
           and any(a.name == "STREAM_CHUNK" and a.asname is None for a in n.names)]
    rebound = [n for n in ast.walk(tree) if isinstance(n, (ast.Assign, ast.AugAssign, ast.AnnAssign))
               and any(isinstance(t, ast.Name) and t.id in ("STREAM_CHUNK", "os", "open")
                       for t in (n.targets if isinstance(n, ast.Assign) else [n.target]))]
    rebound += [n for n in tree.body if isinstance(n, (ast.FunctionDef, ast.ClassDef)) and n.name in ("STREAM_CHUNK", "os", "open")]
    has_os = any(isinstance(n, ast.Import) and any(a.name == "os" and a.asname is None for a in n.names) for n in tree.body)
    if imp and has_os and not rebound:
        items.append(typed("default_chunk_is_STREAM_CHUNK", "bool", "true"))
    else:
        items.append(Item("!default_chunk", "failed", text="STREAM_CHUNK / os are not the plain imports"))
    for fam in ("upload", "download"):
        try:
            top = _top(find_func(tree, fam), fam + "_dir", fam + "_file")
            fil = _file(find_func(tree, fam + "_file"))
            dr = _dir(find_func(tree, fam + "_dir"), fam)
            items.append(typed(fam + "_skel", "skel", "{| sk_top := %s;\n  sk_file := %s;\n  sk_dir := %s |}" % (top, fil, dr)))
        except Unrecognised as e:
            items.append(Item("!" + fam + "_skel", "failed", text=str(e)))
    # upload_package: the last two statements decide what is uploaded and how (the directory of the module's source
    # file, no filter, ignore_invalid left at its default, the caller's chunk_size); the remotepath=None branch
    # (site-packages of the peer) is only snapshotted
    try:
        fn = find_func(tree, "upload_package")
        _params(fn, [("conn", None), ("module", None), ("remotepath", "None"), ("chunk_size", "STREAM_CHUNK")])
        body = strip_doc(fn.body)
        _need(len(body) == 3 and isinstance(body[0], ast.If) and ast.unparse(body[0].test) == "remotepath is None"
              and not body[0].orelse, "upload_package: body")
        _need(ast.unparse(body[1]) == "localpath = os.path.dirname(os.path.abspath(inspect.getsourcefile(module)))",
              "upload_package: localpath")
        _need(ast.unparse(body[2]) == "upload(conn, localpath, remotepath, chunk_size=chunk_size)", "upload_package: upload call")
        _need(ast.unparse(find_assign(tree, "upload_module")) == "upload_package", "upload_module alias")
        items.append(typed("upload_package_is_plain_upload", "bool", "true"))
        items.append(shape("upload_package", func_shape(fn)))
    except Unrecognised as e:
        items.append(Item("!upload_package", "failed", text=str(e)))
    # no shape snapshots of the six functions: the templates above match every statement of the six functions (only the text of the
    # ValueError message is free), so an unrecognised edit already fails closed as a missing *_skel definition
    return items
