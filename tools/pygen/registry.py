"""rpyc/utils/registry.py -> Gen_registry.v

typed items
  default_pruning, max_dgram_size, registry_port, udp_timeout_ms, tcp_timeout_ms   constants
  commands            the cmd_* methods of RegistryServer, in source order
  work_skeleton       the statements of the _work loop body with the guard each one sits in
  remove_skeleton     _remove_service: pop / delete-when-empty / notify (always or only when present)
  tcp_recv_skeleton   TCPRegistryServer._recv: calls on the listening / accepted socket in program order
  register_skeleton   cmd_register: names type check / reply-encodability check / add loop / return
  tcp_client_timeout_ms  default timeout of TCPRegistryClient
  cmd_lookup_guarded, remove_notifies_only_present, tcp_accepted_timeout,
  reply_dump_guarded, register_validates_reply, tcp_recv_closes_unanswered, register_requires_self_equal
                      the facts the model takes as parameters (re-derived in Gallina from the
                      skeletons; proofs/RegistryP.v proves that both derivations agree)
shape items (snapshot in expected/registry.json): every other method of the three server classes.
Anything that does not match a template raises Unrecognised (fail closed)."""
from .core import *

SRC = "rpyc/utils/registry.py"
PRELUDE = "From V Require Import model.Registry.\n"

LOG_METHODS = ("debug", "info", "warn", "warning", "error", "exception", "critical")


def _is_logger_call(st):
    """self.logger.<level>(fmt, plain names...) -- inert only when its arguments cannot raise"""
    if not (isinstance(st, ast.Expr) and isinstance(st.value, ast.Call)):
        return False
    f = st.value.func
    if not (isinstance(f, ast.Attribute) and f.attr in LOG_METHODS and ast.unparse(f.value) == "self.logger"):
        return False
    if st.value.keywords:
        return False
    for a in st.value.args:
        if not isinstance(a, (ast.Constant, ast.Name)):
            return False
    return True


def _strip(stmts):
    out = [s for s in stmts if not _is_logger_call(s)
           and not (isinstance(s, ast.Expr) and isinstance(s.value, ast.Constant))]
    return out


def _txt(stmts):
    return [ast.unparse(s) for s in _strip(stmts)]


def _one_handler(t, types):
    if not (isinstance(t, ast.Try) and len(t.handlers) == 1 and not t.finalbody):
        return None
    h = t.handlers[0]
    if h.type is None or ast.unparse(h.type) not in types:
        return None
    return h


SOCK_ERRS = ("(socket.error, socket.timeout)", "(socket.timeout, socket.error)", "OSError", "socket.error",
             "(OSError, socket.timeout)")
LOOKUP = "cmdfunc = getattr(self, 'cmd_%s' % (cmd.lower(),), None)"
LOOKUP_IF = "cmdfunc = getattr(self, 'cmd_%s' % (cmd.lower(),), None) if isinstance(cmd, str) else None"


def _work_stmt(st):
    """one statement of the loop body -> [(wstmt, wguard)]"""
    if isinstance(st, ast.Try):
        body = _txt(st.body)
        if body == ["data, addrinfo = self._recv()"]:
            h = _one_handler(st, SOCK_ERRS)
            if h and _txt(h.body) == ["continue"] and not st.orelse:
                return [("WRecv", "GSock")]
        if body == ["magic, cmd, args = brine.load(data)"]:
            h = _one_handler(st, ("Exception",))
            if h and _txt(h.body) == ["continue"] and not st.orelse:
                return [("WLoadUnpack", "GAny")]
        if body == [LOOKUP]:
            h = _one_handler(st, ("Exception",))
            if h and _txt(h.body) in (["continue"], ["cmdfunc = None"]) and not st.orelse:
                return [("WLookup", "GAny")]
        if body and body[0] == "reply = cmdfunc(addrinfo[0], *args)":
            h = _one_handler(st, ("Exception",))
            if h and _txt(h.body) == []:
                if body[1:] == [] and _txt(st.orelse) == ["self._send(brine.dump(reply), addrinfo)"]:
                    return [("WCall", "GAny"), ("WDump", "GNone"), ("WSendReply", "GNone")]
                if len(body) == 2 and isinstance(st.body[-1], ast.Assign) and len(st.body[-1].targets) == 1 \
                        and isinstance(st.body[-1].targets[0], ast.Name) and ast.unparse(st.body[-1].value) == "brine.dump(reply)" \
                        and _txt(st.orelse) == ["self._send(%s, addrinfo)" % st.body[-1].targets[0].id]:
                    return [("WCall", "GAny"), ("WDump", "GAny"), ("WSendReply", "GNone")]
                if body[1:] == ["self._send(brine.dump(reply), addrinfo)"] and not st.orelse:
                    return [("WCall", "GAny"), ("WDump", "GAny"), ("WSendReply", "GAny")]
        raise Unrecognised("_work try: " + ast.unparse(st)[:80])
    if isinstance(st, ast.If) and not st.orelse and _txt(st.body) == ["continue"]:
        test = ast.unparse(st.test)
        if test in ("magic != 'RPYC'", "not magic == 'RPYC'"):
            return [("WMagicCheck", "GNone")]
        if test in ("not isinstance(cmd, str)", "type(cmd) is not str", "not type(cmd) is str"):
            return [("WTextCheck", "GNone")]
        if test in ("not cmdfunc", "cmdfunc is None"):
            return [("WUnknownCheck", "GNone")]
        raise Unrecognised("_work if: " + test)
    if isinstance(st, ast.Assign):
        t = ast.unparse(st)
        if t == LOOKUP:
            return [("WLookup", "GNone")]
        if t == LOOKUP_IF:
            return [("WLookupIfText", "GNone")]
    if _is_logger_call(st):
        return []
    raise Unrecognised("_work statement: " + ast.unparse(st)[:80])


def _work_skeleton(fn):
    body = _strip(strip_doc(fn.body))
    if not (len(body) == 1 and isinstance(body[0], ast.While) and ast.unparse(body[0].test) == "self.active"
            and not body[0].orelse):
        raise Unrecognised("_work loop")
    out = []
    for st in body[0].body:
        out.extend(_work_stmt(st))
    return out


SKEL = {
    "bare": [("WLookup", "GNone")],
    "textcheck": [("WTextCheck", "GNone"), ("WLookup", "GNone")],
    "iftext": [("WLookupIfText", "GNone")],
    "try": [("WLookup", "GAny")],
}


TAIL = {
    "unguarded": [("WDump", "GNone"), ("WSendReply", "GNone")],
    "dump_guarded": [("WDump", "GAny"), ("WSendReply", "GNone")],
    "all_guarded": [("WDump", "GAny"), ("WSendReply", "GAny")],
}


def _skel_of(lk, tl):
    return [("WRecv", "GSock"), ("WLoadUnpack", "GAny"), ("WMagicCheck", "GNone")] + lk + \
        [("WUnknownCheck", "GNone"), ("WCall", "GAny")] + tl


def _register_skeleton(fn):
    a = [x.arg for x in fn.args.args]
    if a != ["self", "host", "names", "port"]:
        raise Unrecognised("cmd_register arguments")
    out = []
    for st in strip_doc(fn.body):
        t = ast.unparse(st)
        if isinstance(st, ast.Expr) and isinstance(st.value, ast.Constant):
            continue
        if t == "self.logger.debug('registering %s:%s as %s', host, port, ', '.join(names))":
            out.append("GJoinCheck")        # the eager join is the only type check on names
        elif t in ("brine.dump(((host, port),))", "brine.dump(((host, port),),)"):
            out.append("GReplyCheck")
        elif isinstance(st, ast.If) and not st.orelse and len(st.body) == 1 and isinstance(st.body[0], ast.Raise) \
                and ast.unparse(st.test) in ("brine.load(brine.dump(((host, port),))) != ((host, port),)",
                                            "not brine.load(brine.dump(((host, port),))) == ((host, port),)"):
            out.append("GRoundTripCheck")   # encodes like GReplyCheck, then compares the address with a copy of itself
        elif t == "for name in names:\n    self._add_service(name.upper(), (host, port))":
            out.append("GAddLoop")
        elif t == "return 'OK'":
            out.append("GReturnOK")
        elif _is_logger_call(st):
            continue
        else:
            raise Unrecognised("cmd_register statement: " + t[:80])
    if out not in (["GJoinCheck", "GAddLoop", "GReturnOK"], ["GJoinCheck", "GReplyCheck", "GAddLoop", "GReturnOK"],
                   ["GReplyCheck", "GJoinCheck", "GAddLoop", "GReturnOK"], ["GJoinCheck", "GRoundTripCheck", "GAddLoop", "GReturnOK"]):
        raise Unrecognised("cmd_register statement order")
    return out


def _notify_try(st):
    if not isinstance(st, ast.Try):
        return False
    h = _one_handler(st, ("Exception",))
    return bool(h) and _txt(st.body) == ["self.on_service_removed(name, addrinfo)"] and _txt(h.body) == [] \
        and not st.orelse


DEL_EMPTY = "if not self.services[name]:\n    del self.services[name]"
POP = "self.services[name].pop(addrinfo, None)"


def _remove_skeleton(fn):
    a = [x.arg for x in fn.args.args]
    if a != ["self", "name", "addrinfo"]:
        raise Unrecognised("_remove_service arguments")
    body = _strip(strip_doc(fn.body))
    txt = [ast.unparse(s) for s in body]
    # pinned: pop; delete when empty; notify
    if len(body) == 3 and txt[0] == POP and txt[1] == DEL_EMPTY and _notify_try(body[2]):
        return ["RPop", "RDelIfEmpty", "RNotify"]
    # tested: v = addrinfo in services[name]; pop; delete when empty; notify if v
    if len(body) >= 4 and isinstance(body[0], ast.Assign) and len(body[0].targets) == 1 \
            and isinstance(body[0].targets[0], ast.Name) \
            and ast.unparse(body[0].value) == "addrinfo in self.services[name]" \
            and txt[1] == POP and txt[2] == DEL_EMPTY:
        v = body[0].targets[0].id
        if len(body) == 4 and isinstance(body[3], ast.If) and not body[3].orelse \
                and ast.unparse(body[3].test) == v and len(body[3].body) == 1 and _notify_try(body[3].body[0]):
            return ["RTestPresent", "RPop", "RDelIfEmpty", "RNotifyIfPresent"]
        if len(body) == 5 and txt[3] == "if not %s:\n    return" % v and _notify_try(body[4]):
            return ["RTestPresent", "RPop", "RDelIfEmpty", "RNotifyIfPresent"]
    # popped: v = services[name].pop(addrinfo, None); delete when empty; notify if v is not None
    if len(body) == 3 and isinstance(body[0], ast.Assign) and len(body[0].targets) == 1 \
            and isinstance(body[0].targets[0], ast.Name) and ast.unparse(body[0].value) == POP \
            and txt[1] == DEL_EMPTY and isinstance(body[2], ast.If) and not body[2].orelse \
            and ast.unparse(body[2].test) == "%s is not None" % body[0].targets[0].id \
            and len(body[2].body) == 1 and _notify_try(body[2].body[0]):
        return ["RPopKeep", "RDelIfEmpty", "RNotifyIfPresent"]
    raise Unrecognised("_remove_service body")


def _tcp_recv_skeleton(fn):
    out = []
    acc = [None]

    def call_of(st):
        v = None
        if isinstance(st, ast.Assign):
            v = st.value
        elif isinstance(st, ast.Expr):
            v = st.value
        if isinstance(v, ast.Call) and isinstance(v.func, ast.Attribute):
            return v
        return None

    SWEEPS = ("for sock in self._connected_sockets.values():\n    sock.close()",
              "for s in self._connected_sockets.values():\n    s.close()",
              "for sock2 in self._connected_sockets.values():\n    sock2.close()",
              "while self._connected_sockets:\n    self._connected_sockets.popitem()[1].close()")

    def visit(stmts, live):
        for idx, st in enumerate(stmts):
            if live and isinstance(st, (ast.For, ast.While)) and ast.unparse(st) in SWEEPS:
                if isinstance(st, ast.For) and not (idx + 1 < len(stmts)
                                                    and ast.unparse(stmts[idx + 1]) == "self._connected_sockets.clear()"):
                    raise Unrecognised("TCP _recv: sweep without clear()")
                out.append("TSweep")
                continue
            if live and ast.unparse(st) == "self._connected_sockets.clear()" and out and out[-1] == "TSweep":
                continue
            if isinstance(st, ast.Try):
                visit(st.body, live)
                for h in st.handlers:
                    visit(h.body, False)
                visit(st.orelse, live)
                visit(st.finalbody, False)
                continue
            if not live or _is_logger_call(st):
                out.append("TOther")
                continue
            c = call_of(st)
            if c is not None and ast.unparse(c.func) == "self.sock.accept" and isinstance(st, ast.Assign) \
                    and isinstance(st.targets[0], ast.Tuple) and isinstance(st.targets[0].elts[0], ast.Name):
                acc[0] = st.targets[0].elts[0].id
                out.append("TAccept")
            elif c is not None and acc[0] and ast.unparse(c.func) == acc[0] + ".settimeout" and len(c.args) == 1 \
                    and not (isinstance(c.args[0], ast.Constant) and c.args[0].value in (None, 0, 0.0)) \
                    and (isinstance(c.args[0], ast.Constant) or ast.unparse(c.args[0]) in ("self.TIMEOUT", "self.sock.gettimeout()")):
                out.append("TSetTimeout")
            elif c is not None and acc[0] and ast.unparse(c.func) == acc[0] + ".getpeername":
                out.append("TPeerName")
            elif c is not None and acc[0] and ast.unparse(c.func) == acc[0] + ".recv":
                out.append("TRecvData")
            elif isinstance(st, ast.Assign) and acc[0] and ast.unparse(st.targets[0]).startswith("self._connected_sockets[") \
                    and ast.unparse(st.value) == acc[0]:
                out.append("TStore")
            elif isinstance(st, (ast.Return, ast.Raise, ast.Expr, ast.Assign, ast.Pass)):
                if acc[0] and isinstance(st, (ast.Expr, ast.Assign)) and (acc[0] + ".recv") in ast.unparse(st):
                    raise Unrecognised("TCP _recv: recv in an unexpected position")
                out.append("TOther")
            else:
                raise Unrecognised("TCP _recv statement: " + ast.unparse(st)[:60])
    visit(strip_doc(fn.body), True)
    if out.count("TAccept") != 1 or out.count("TRecvData") != 1 or out.count("TStore") != 1:
        raise Unrecognised("TCP _recv: accept/recv/store")
    return out


def _tskel_sweeps(k):
    for x in k:
        if x == "TSweep":
            return True
        if x == "TAccept":
            return False
    return False


def _tskel_timeout(k):
    seen_accept = seen_to = False
    for x in k:
        if x == "TAccept":
            seen_accept, seen_to = True, False
        elif x == "TSetTimeout":
            seen_to = seen_accept
        elif x == "TRecvData":
            return seen_accept and seen_to
    return False


def _num(node):
    if isinstance(node, ast.Constant) and isinstance(node.value, (int, float)) and not isinstance(node.value, bool):
        return node.value
    if isinstance(node, ast.BinOp) and isinstance(node.op, (ast.Mult, ast.Add, ast.Sub)):
        a, b = _num(node.left), _num(node.right)
        return a * b if isinstance(node.op, ast.Mult) else a + b if isinstance(node.op, ast.Add) else a - b
    raise Unrecognised("numeric constant " + ast.dump(node)[:60])


def _client_timeout(cls):
    init = find_func(cls, "__init__")
    names = [a.arg for a in init.args.args]
    if "timeout" not in names:
        raise Unrecognised("client timeout argument")
    i = names.index("timeout") - (len(names) - len(init.args.defaults))
    if i < 0:
        raise Unrecognised("client timeout default")
    return _num(init.args.defaults[i])


def _ms(x):
    v = x * 1000
    if v != int(v):
        raise Unrecognised("timeout not a whole number of ms")
    return int(v)


def translate(repo):
    tree = parse(repo, SRC)
    items = []

    def guarded(f):
        try:
            r = f()
            items.extend(r if isinstance(r, list) else [r])
        except Unrecognised as e:
            items.append(Item("!" + f.__name__, "failed", text=str(e)))
        except (KeyError, IndexError, AttributeError, TypeError) as e:
            items.append(Item("!" + f.__name__, "failed", text="%s: %s" % (type(e).__name__, e)))

    base = find_class(tree, "RegistryServer")
    udp = find_class(tree, "UDPRegistryServer")
    tcp = find_class(tree, "TCPRegistryServer")

    def consts():
        return [typed("default_pruning", "Z", coq_z(_num(find_assign(tree, "DEFAULT_PRUNING_TIMEOUT")))),
                typed("max_dgram_size", "Z", coq_z(_num(find_assign(tree, "MAX_DGRAM_SIZE")))),
                typed("registry_port", "Z", coq_z(_num(find_assign(tree, "REGISTRY_PORT")))),
                typed("udp_timeout_ms", "Z", coq_z(_ms(_num(find_assign(udp, "TIMEOUT"))))),
                typed("tcp_timeout_ms", "Z", coq_z(_ms(_num(find_assign(tcp, "TIMEOUT"))))),
                typed("tcp_client_timeout_ms", "Z", coq_z(_ms(_client_timeout(find_class(tree, "TCPRegistryClient")))))]
    guarded(consts)

    def commands():
        names = [n.name[4:] for n in base.body if isinstance(n, ast.FunctionDef) and n.name.startswith("cmd_")]
        for c in (udp, tcp):
            if any(isinstance(n, ast.FunctionDef) and n.name.startswith("cmd_") for n in c.body):
                raise Unrecognised("cmd_* in a subclass")
        return typed("commands", "list string", coq_list(coq_string(n) for n in names))
    guarded(commands)

    def work():
        k = _work_skeleton(find_func(base, "_work"))
        hit = [(a, b) for a in SKEL for b in TAIL if k == _skel_of(SKEL[a], TAIL[b])]
        if len(hit) != 1:
            raise Unrecognised("_work statement order")
        return [typed("work_skeleton", "skeleton", coq_list("(%s, %s)" % x for x in k)),
                typed("cmd_lookup_guarded", "bool", coq_bool(hit[0][0] != "bare")),
                typed("reply_dump_guarded", "bool", coq_bool(hit[0][1] != "unguarded"))]
    guarded(work)

    def remove():
        k = _remove_skeleton(find_func(base, "_remove_service"))
        return [typed("remove_skeleton", "list rstmt", coq_list(k)),
                typed("remove_notifies_only_present", "bool", coq_bool("RNotifyIfPresent" in k))]
    guarded(remove)

    def tcp_recv():
        k = _tcp_recv_skeleton(find_func(tcp, "_recv"))
        return [typed("tcp_recv_skeleton", "list tstmt", coq_list(k)),
                typed("tcp_accepted_timeout", "bool", coq_bool(_tskel_timeout(k))),
                typed("tcp_recv_closes_unanswered", "bool", coq_bool(_tskel_sweeps(k)))]
    guarded(tcp_recv)

    def register():
        k = _register_skeleton(find_func(base, "cmd_register"))
        return [typed("register_skeleton", "list gstmt", coq_list(k)),
                typed("register_validates_reply", "bool", coq_bool("GReplyCheck" in k or "GRoundTripCheck" in k)),
                typed("register_requires_self_equal", "bool", coq_bool("GRoundTripCheck" in k))]
    guarded(register)

    # shapes of everything the typed items do not cover
    skip = {("RegistryServer", "_work"), ("RegistryServer", "_remove_service"), ("TCPRegistryServer", "_recv"),
            ("RegistryServer", "cmd_register")}
    for cls in (base, udp, tcp, find_class(tree, "TCPRegistryClient")):
        for n in cls.body:
            if isinstance(n, ast.FunctionDef) and (cls.name, n.name) not in skip:
                items.append(shape("%s.%s" % (cls.name, n.name), func_shape(n)))
    return items
