"""tools/pygen: regenerate coq/gen/Gen_*.v and shape reports from /repo's working tree."""
import importlib, json, os, sys
from .core import HEADER, write_if_changed, Unrecognised

def _discover():
    here = os.path.dirname(os.path.abspath(__file__))
    return sorted(f[:-3] for f in os.listdir(here) if f.endswith(".py") and f not in ("__init__.py", "core.py"))


MODULES = _discover()


def generate(repo, verif, only=None):
    """returns report: {module: {"typed": [names], "shapes": {name: text}, "failed": {name: why}, "changed": bool}}"""
    report = {}
    gen_dir = os.path.join(verif, "coq", "gen")
    for m in MODULES:
        if only and m not in only:
            continue
        rep = {"typed": [], "shapes": {}, "failed": {}, "src": "?"}
        try:
            mod = importlib.import_module("tools.pygen." + m)
            rep["src"] = mod.SRC
        except Exception as e:      # a broken translator module must not take the other properties down
            rep["failed"]["<import>"] = "%s: %s" % (type(e).__name__, e)
            report[m] = rep
            continue
        try:
            items = mod.translate(repo)
        except Exception as e:
            items = []
            rep["failed"]["<module>"] = "%s: %s" % (type(e).__name__, e)
        lines = [HEADER % mod.SRC, getattr(mod, "PRELUDE", "")]
        for it in items:
            if it.kind == "typed":
                lines.append("Definition %s : %s := %s." % (it.name, it.coq_type, it.coq_term))
                rep["typed"].append(it.name)
            elif it.kind == "shape":
                rep["shapes"][it.name] = it.text
            else:
                rep["failed"][it.name] = it.text
        rep["changed"] = write_if_changed(os.path.join(gen_dir, "Gen_%s.v" % m), "\n".join(lines) + "\n")
        report[m] = rep
    return report


def expected_path(verif, m):
    return os.path.join(verif, "tools", "pygen", "expected", m + ".json")


def diff_shapes(verif, report):
    """compare shape items with the committed snapshot; returns {module: {item: 'changed'|'missing'|'new'}}"""
    out = {}
    for m, rep in report.items():
        try:
            with open(expected_path(verif, m)) as f:
                exp = json.load(f)
        except FileNotFoundError:
            exp = {}
        d = {}
        for k, v in exp.items():
            if k not in rep["shapes"]:
                d[k] = "missing"
            elif rep["shapes"][k] != v:
                d[k] = "changed"
        for k in rep["shapes"]:
            if k not in exp:
                d[k] = "new"
        for k, why in rep["failed"].items():
            d[k] = "unrecognised: " + why
        out[m] = d
    return out


def snapshot(verif, report):
    for m, rep in report.items():
        os.makedirs(os.path.dirname(expected_path(verif, m)), exist_ok=True)
        with open(expected_path(verif, m), "w") as f:
            json.dump(rep["shapes"], f, indent=1, sort_keys=True)


def typed_items(repo, module):
    """the typed items of one translator module for the tree at `repo`, computed in-process and WITHOUT touching coq/gen
    (harnesses use this for facts they need at run time: the files under coq/gen may meanwhile have been regenerated for another
    tree by a concurrent check). Returns {name: coq term text}; {} when the translator fails."""
    try:
        mod = importlib.import_module("tools.pygen." + module)
        return {it.name: it.coq_term for it in mod.translate(repo) if it.kind == "typed"}
    except Exception:
        return {}
