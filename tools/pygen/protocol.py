from .core import *

SRC = "rpyc/core/protocol.py"


def translate(repo):
    tree = parse(repo, SRC)
    cls = find_class(tree, "Connection")
    items = []
    # every method of Connection as a shape item (properties pick the ones they depend on)
    for n in cls.body:
        if isinstance(n, ast.FunctionDef):
            items.append(shape("Connection." + n.name, func_shape(n)))
    # DEFAULT_CONFIG: scalar switches
    dc = find_assign(tree, "DEFAULT_CONFIG")
    if not (isinstance(dc, ast.Call) and ast.unparse(dc.func) == "dict" and not dc.args):
        raise Unrecognised("DEFAULT_CONFIG")
    sw = []
    for kw in dc.keywords:
        v = kw.value
        if isinstance(v, ast.Constant) and isinstance(v.value, bool):
            sw.append((kw.arg, v.value))
        elif kw.arg == "safe_attrs":
            if not (isinstance(v, ast.Call) and ast.unparse(v.func) == "set" and isinstance(v.args[0], ast.List)):
                raise Unrecognised("safe_attrs")
            items.append(typed("safe_attrs", "list string", coq_list(coq_string(e.value) for e in v.args[0].elts)))
        elif kw.arg == "exposed_prefix":
            items.append(typed("exposed_prefix", "string", coq_string(v.value)))
        elif kw.arg == "sync_request_timeout":
            items.append(typed("sync_request_timeout", "Z", coq_z(const_int(v))))
    items.append(typed("config_switches", "list (string * bool)",
                       coq_list("(%s, %s)" % (coq_string(a), coq_bool(b)) for a, b in sw)))
    items.append(shape("DEFAULT_CONFIG.keys", ", ".join(kw.arg for kw in dc.keywords)))
    # handler table: consts name -> method name
    rh = find_func(cls, "_request_handlers")
    ret = strip_doc(rh.body)[0]
    if not (isinstance(ret, ast.Return) and isinstance(ret.value, ast.Dict)):
        raise Unrecognised("_request_handlers")
    tbl = []
    for k, v in zip(ret.value.keys, ret.value.values):
        ks, vs = ast.unparse(k), ast.unparse(v)
        if not (ks.startswith("consts.HANDLE_") and vs.startswith("cls._handle_")):
            raise Unrecognised("handler entry " + ks)
        tbl.append((ks[len("consts."):], vs[len("cls."):]))
    items.append(typed("handler_table", "list (string * string)",
                       coq_list("(%s, %s)" % (coq_string(a), coq_string(b)) for a, b in tbl)))
    # wire layout of messages
    send = find_func(cls, "_send")
    first = ast.unparse(strip_doc(send.body)[0])
    items.append(typed("send_packs_msg_seq_args", "bool", coq_bool(first == "data = brine.dump((msg, seq, args))")))
    disp = find_func(cls, "_dispatch")
    items.append(typed("dispatch_unpacks_msg_seq_args", "bool",
                       coq_bool(ast.unparse(strip_doc(disp.body)[0]) == "msg, seq, args = brine.load(data)")))
    ar = ast.unparse(find_func(cls, "_async_request"))
    items.append(typed("request_args_are_handler_boxed", "bool",
                       coq_bool("self._send(consts.MSG_REQUEST, seq, (handler, self._box(args)))" in ar)))
    dr = ast.unparse(find_func(cls, "_dispatch_request"))
    items.append(typed("request_unpacks_handler_args", "bool", coq_bool("handler, args = raw_args" in dr)))
    return items
