from .core import *

SRC = "rpyc/core/protocol.py"
PRELUDE = "From V Require Import model.Serve.\n"


def translate(repo):
    tree = parse(repo, SRC)
    cls = find_class(tree, "Connection")
    fn = find_func(cls, "serve")
    u = ast.unparse
    body = strip_doc(fn.body)
    if len(body) != 5:
        raise Unrecognised("serve: expected timeout/with/try/dispatch/return")
    # the dispatch may be wrapped in `try: self._dispatch(data) / except EOFError: self.close(); raise` (same program for C13/C14)
    d = body[3]
    if isinstance(d, ast.Try) and [u(x) for x in d.body] == ["self._dispatch(data)"] and not d.orelse and not d.finalbody \
            and len(d.handlers) == 1 and u(d.handlers[0].type) == "EOFError" and [u(x) for x in d.handlers[0].body] == ["self.close()", "raise"]:
        body = body[:3] + [d.body[0]] + body[4:]
    if u(body[0]) != "timeout = Timeout(timeout)":
        raise Unrecognised("serve: timeout")
    w = body[1]
    if not (isinstance(w, ast.With) and len(w.items) == 1 and u(w.items[0].context_expr) == "self._recv_event" and len(w.body) == 1):
        raise Unrecognised("serve: with recv_event")
    a = w.body[0]
    if not (isinstance(a, ast.If) and u(a.test) == "not self._recvlock.acquire(False)" and not a.orelse and len(a.body) == 1
            and u(a.body[0]) == "return wait_for_lock and self._recv_event.wait(timeout.timeleft())"):
        raise Unrecognised("serve: try-acquire or wait")
    prog = ["SEnterCond", "STryAcquireElseWaitReturn", "SExitCond"]
    t = body[2]
    if not (isinstance(t, ast.Try) and not t.orelse and len(t.handlers) == 1 and len(t.body) == 2 and len(t.finalbody) == 2):
        raise Unrecognised("serve: try shape")
    if u(t.body[0]) != "data = self._channel.poll(timeout) and self._channel.recv()":
        raise Unrecognised("serve: poll/recv")
    prog.append("SPollRecv")
    if u(t.body[1]) != "if not data:\n    return False":
        raise Unrecognised("serve: no data")
    prog.append("SIfNoDataReturnFalse")
    h = t.handlers[0]
    if not (u(h.type) == "EOFError" and [u(x) for x in h.body] == ["self.close()", "raise"]):
        raise Unrecognised("serve: except EOFError")
    prog.append("SExceptEOFCloseRaise")
    if u(t.finalbody[0]) != "self._recvlock.release()":
        raise Unrecognised("serve: finally release")
    prog.append("SFinallyRelease")
    if u(t.finalbody[1]) != "with self._recv_event:\n    self._recv_event.notify_all()":
        raise Unrecognised("serve: finally notify")
    prog.append("SFinallyNotifyAll")
    if u(body[3]) != "self._dispatch(data)":
        raise Unrecognised("serve: dispatch")
    prog.append("SDispatch")
    if u(body[4]) != "return True":
        raise Unrecognised("serve: return")
    prog.append("SReturnTrue")
    items = [typed("serve_prog", "list sinstr", coq_list(prog))]
    # AsyncResult.wait / __call__ and the correlation code
    atree = parse(repo, "rpyc/core/async_.py")
    ar = find_class(atree, "AsyncResult")
    wt = [u(x) for x in strip_doc(find_func(ar, "wait").body)]
    items.append(typed("wait_loops_on_serve", "bool", coq_bool(
        wt == ["while not self._is_ready and (not self._ttl.expired()):\n    self._conn.serve(self._ttl)",
               "if not self._is_ready:\n    raise AsyncResultTimeout('result expired')"])))
    cbody = strip_doc(find_func(ar, "__call__").body)
    if cbody and isinstance(cbody[0], ast.With) and [u(i.context_expr) for i in cbody[0].items] == ["self._lock"]:
        cbody = cbody[0].body           # repaired tree: the decision and the publication sit under the result's own lock
    call = [u(x) for x in cbody]
    items.append(typed("call_sets_obj_before_ready", "bool", coq_bool(
        call[:4] == ["if self.expired:\n    return", "self._is_exc = is_exc", "self._obj = obj", "self._is_ready = True"])))
    cb = [u(x) for x in strip_doc(find_func(cls, "_seq_request_callback").body)]
    items.append(typed("callback_is_popped", "bool", coq_bool(cb[0] == "_callback = self._request_callbacks.pop(seq, None)")))
    ar_ = [u(x) for x in strip_doc(find_func(cls, "_async_request").body)]
    if ar_ and ar_[0] == "if self._channel.closed:\n    raise EOFError('connection closed')":
        ar_ = ar_[1:]          # refusing a closed channel up front (repaired tree) changes nothing in the order seq / register / send
    items.append(typed("register_before_send", "bool", coq_bool(
        ar_[0] == "seq = self._get_seq_id()" and ar_[1] == "self._request_callbacks[seq] = callback" and ar_[2].startswith("try:\n    self._send(consts.MSG_REQUEST, seq,"))))
    gs = [u(x) for x in strip_doc(find_func(cls, "_get_seq_id").body)]
    # exactly one assignment to the counter in the whole class, unconditional, in __init__, of exactly this form
    initf = find_func(cls, "__init__")
    assigns = [(f.name, u(st.value), st in f.body) for f in cls.body if isinstance(f, ast.FunctionDef) for st in ast.walk(f)
               if isinstance(st, (ast.Assign, ast.AugAssign)) and any(u(t) == "self._seqcounter" for t in (st.targets if isinstance(st, ast.Assign) else [st.target]))]
    items.append(typed("seq_is_atomic_counter", "bool", coq_bool(gs == ["return next(self._seqcounter)"] and assigns == [("__init__", "itertools.count()", True)])))
    items.append(shape("AsyncResult.wait", func_shape(find_func(ar, "wait"))))
    items.append(shape("AsyncResult.__call__", func_shape(find_func(ar, "__call__"))))
    htree = parse(repo, "rpyc/utils/helpers.py")
    items.append(shape("BgServingThread._bg_server", func_shape(find_func(find_class(htree, "BgServingThread"), "_bg_server"))))
    return items
