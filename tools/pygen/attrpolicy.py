"""attrpolicy: rpyc's attribute-access policy, regenerated from the source.

  Connection._check_attr   -> check_attr / check_probes  (expression by expression, Python truthiness and
                              short-circuit order kept; every hasattr call becomes a probe with its guard)
  Connection._access_attr  -> access_attr, decode_guarded
  Connection._handle_*     -> handlers (which route each request handler takes to attributes), dispatch
  Connection.__init__      -> init_copies_defaults, init_updates_own
  DEFAULT_CONFIG           -> default_switches, default_prefix, default_safe_attrs
  SlaveService.on_connect  -> classic_update, on_connect_updates_own
  whole tree under rpyc/   -> config_writes, default_config_refs, safe_attrs_uses
  helpers.restricted       -> restricted_hooks, restricted_wattrs_default, restricted_aliases
  class Service            -> service_hooks, service_denies_set, service_denies_del, service_defines_get_hook
  whole tree under rpyc/   -> hook_definitions (every def/binding of _rpyc_getattr/_rpyc_setattr/_rpyc_delattr)
  Connection._handle_pickle-> pickle_gate, pickle_refusal; shapes of the handlers that take no attribute name
Anything that does not match raises Unrecognised: the item is then absent and the tie lemma stops compiling."""
import glob
from .core import *

SRC = "rpyc/core/protocol.py"
PRELUDE = "From V Require Import lib.Base model.Attr.\nOpen Scope bool_scope.\n"

SWITCH = {"allow_safe_attrs": "allow_safe", "allow_exposed_attrs": "allow_exposed", "allow_public_attrs": "allow_public",
          "allow_all_attrs": "allow_all", "allow_getattr": "allow_getattr", "allow_setattr": "allow_setattr",
          "allow_delattr": "allow_delattr"}
EXN = {"TypeError": "TypeError", "AttributeError": "AttributeError", "ValueError": "ValueError", "KeyError": "KeyError"}
PREFIX_DEF = "config['allow_exposed_attrs'] and config['exposed_prefix']"


def _u(e):
    return ast.unparse(e)


# ---------------------------------------------------------------- _check_attr

class _Check:
    """CPS translation of the body of _check_attr into two Gallina terms (decision, probes)."""

    def __init__(self, fn):
        a = [x.arg for x in fn.args.args]
        if a != ["self", "obj", "name", "perm"] or fn.args.vararg or fn.args.kwarg or fn.args.kwonlyargs or fn.args.defaults:
            raise Unrecognised("_check_attr signature %r" % (a,))
        self.body = strip_doc(fn.body)

    # expression -> (term, probes) ; probes = [(guard_term, "ProbeX")] in evaluation order
    def B(self, e, env, known):
        """truthiness of e as a Gallina bool term. env: python local -> ('bool', coqvar) | ('prefix', coqvar) | ('config',)
        known: set of python expressions (unparsed) that are known to be truthy where e is evaluated"""
        if isinstance(e, ast.Constant) and isinstance(e.value, bool):
            return coq_bool(e.value), []
        if isinstance(e, ast.Name):
            v = env.get(e.id)
            if v and v[0] in ("bool", "prefix"):
                return v[1], []
            raise Unrecognised("name %s in a condition" % e.id)
        if isinstance(e, ast.UnaryOp) and isinstance(e.op, ast.Not):
            t, p = self.B(e.operand, env, known)
            return "(negb %s)" % t, p
        if isinstance(e, ast.BoolOp):
            isand = isinstance(e.op, ast.And)
            terms, probes, kn = [], [], set(known)
            guard = None
            for x in e.values:
                t, p = self.B(x, env, kn)
                for g, pr in p:
                    probes.append(((g if guard is None else ("(%s && %s)" % (guard, g) if g != "true" else guard)), pr))
                terms.append(t)
                step = t if isand else "(negb %s)" % t
                guard = step if guard is None else "(%s && %s)" % (guard, step)
                if isand:
                    kn.add(_u(x))
            out = terms[0]
            for t in terms[1:]:
                out = "(%s %s %s)" % (out, "&&" if isand else "||", t)
            return out, probes
        if isinstance(e, ast.Subscript) and isinstance(e.value, ast.Name) and env.get(e.value.id) == ("config",):
            k = e.slice
            if isinstance(k, ast.Constant) and k.value in SWITCH:
                return "(%s s)" % SWITCH[k.value], []
            if isinstance(k, ast.Constant) and k.value == "exposed_prefix":
                return "pne", []
            if isinstance(k, ast.Name) and k.id == "perm":
                return "(lookup_perm s perm)", []
            raise Unrecognised("config key %s" % _u(k))
        if isinstance(e, ast.Compare) and len(e.ops) == 1 and isinstance(e.ops[0], (ast.In, ast.NotIn)) \
                and isinstance(e.left, ast.Name) and e.left.id == "name" and env.get("name") == ("name",):
            c = e.comparators[0]
            if isinstance(c, ast.Subscript) and isinstance(c.value, ast.Name) and env.get(c.value.id) == ("config",) \
                    and isinstance(c.slice, ast.Constant) and c.slice.value == "safe_attrs":
                t = "(in_safe n)"
                return (t if isinstance(e.ops[0], ast.In) else "(negb %s)" % t), []
            raise Unrecognised("membership in %s" % _u(c))
        if isinstance(e, ast.Call) and not e.keywords:
            f = e.func
            if isinstance(f, ast.Attribute) and f.attr == "startswith" and isinstance(f.value, ast.Name) \
                    and f.value.id == "name" and env.get("name") == ("name",) and len(e.args) == 1:
                a = e.args[0]
                if isinstance(a, ast.Constant) and a.value == "_":
                    return "(starts_underscore n)", []
                if isinstance(a, ast.Name) and env.get(a.id, ("",))[0] == "prefix":
                    # prefix is a str only where allow_exposed_attrs is known to hold
                    if "config['allow_exposed_attrs']" in known or a.id in known:
                        return "(starts_prefix n)", []
                    raise Unrecognised("name.startswith(prefix) not guarded by allow_exposed_attrs")
                if isinstance(a, ast.Subscript) and _u(a) == "config['exposed_prefix']":
                    return "(starts_prefix n)", []
                raise Unrecognised("startswith(%s)" % _u(a))
            if isinstance(f, ast.Name) and f.id == "hasattr" and len(e.args) == 2 and _u(e.args[0]) == "obj" \
                    and env.get("obj") == ("obj",):
                a = e.args[1]
                if isinstance(a, ast.Name) and a.id == "name" and env.get("name") == ("name",):
                    return "(has_name o)", [("true", "ProbeName")]
                if isinstance(a, ast.BinOp) and isinstance(a.op, ast.Add) and isinstance(a.left, ast.Name) \
                        and env.get(a.left.id, ("",))[0] == "prefix" and isinstance(a.right, ast.Name) \
                        and a.right.id == "name" and env.get("name") == ("name",):
                    if a.left.id in known:
                        return "(has_twin o)", [("true", "ProbeTwin")]
                    raise Unrecognised("hasattr(obj, prefix + name) where prefix may be False")
                raise Unrecognised("hasattr(obj, %s)" % _u(a))
        raise Unrecognised("condition %s" % _u(e))

    @staticmethod
    def probes_term(p):
        return " ++ ".join("(if %s then [%s] else [])" % (g, pr) for g, pr in p)

    def stmts(self, sts, env, known, mode):
        """mode 'dec' -> term : result target ; mode 'prb' -> term : list probe (accumulator v_acc)"""
        if not sts:
            raise Unrecognised("_check_attr: control reaches the end of the function (returns None)")
        st, rest = sts[0], sts[1:]
        if isinstance(st, ast.Assign) and len(st.targets) == 1 and isinstance(st.targets[0], ast.Name):
            tgt = st.targets[0].id
            if _u(st.value) == "self._config":
                env = dict(env)
                env[tgt] = ("config",)
                return self.stmts(rest, env, known, mode)
            if tgt in ("obj", "name", "perm", "self") or env.get(tgt) == ("config",):
                raise Unrecognised("assignment to %s" % tgt)
            t, p = self.B(st.value, env, known)
            env = dict(env)
            kind = "prefix" if _u(st.value) == PREFIX_DEF else "bool"
            if kind == "bool" and any(isinstance(x, ast.Subscript) and _u(x) == "config['exposed_prefix']" for x in ast.walk(st.value)):
                raise Unrecognised("exposed_prefix used outside the prefix definition")
            env[tgt] = (kind, "v_" + tgt)
            known = {k for k in known if tgt not in k.split()} - {tgt}
            body = self.stmts(rest, env, known, mode)
            acc = "let v_acc := v_acc ++ %s in\n  " % self.probes_term(p) if (mode == "prb" and p) else ""
            return "%slet v_%s := %s in\n  %s" % (acc, tgt, t, body)
        if isinstance(st, ast.AugAssign) and isinstance(st.op, ast.BitOr) and isinstance(st.target, ast.Name) \
                and env.get(st.target.id, ("",))[0] == "bool":
            tgt = st.target.id
            t, p = self.B(st.value, env, known)
            known = known - {tgt}
            body = self.stmts(rest, env, known, mode)
            acc = "let v_acc := v_acc ++ %s in\n  " % self.probes_term(p) if (mode == "prb" and p) else ""
            return "%slet v_%s := (v_%s || %s) in\n  %s" % (acc, tgt, tgt, t, body)
        if isinstance(st, ast.If):
            t, p = self.B(st.test, env, known)
            kt = set(known)
            if isinstance(st.test, (ast.Name, ast.Subscript)):
                kt.add(_u(st.test))
                if isinstance(st.test, ast.Name) and env.get(st.test.id, ("",))[0] == "bool":
                    kt |= self.implied.get(st.test.id, set())
            a = self.stmts(list(st.body) + ([] if self.ends(st.body) else rest), env, kt, mode)
            b = self.stmts(list(st.orelse) + rest, env, known, mode)
            acc = "let v_acc := v_acc ++ %s in\n  " % self.probes_term(p) if (mode == "prb" and p) else ""
            return "%sif %s then %s\n  else %s" % (acc, t, a, b)
        if isinstance(st, ast.Raise) and st.exc is not None and st.cause is None:
            ex = st.exc.func if isinstance(st.exc, ast.Call) else st.exc
            if isinstance(ex, ast.Name) and ex.id in EXN:
                return "v_acc" if mode == "prb" else "Raise %s" % EXN[ex.id]
            raise Unrecognised("raise %s" % _u(st.exc))
        if isinstance(st, ast.Return) and st.value is not None:
            v = st.value
            if isinstance(v, ast.Name) and v.id == "name" and env.get("name") == ("name",):
                return "v_acc" if mode == "prb" else "Ok Plain"
            if isinstance(v, ast.BinOp) and isinstance(v.op, ast.Add) and isinstance(v.left, ast.Name) \
                    and env.get(v.left.id, ("",))[0] == "prefix" and isinstance(v.right, ast.Name) and v.right.id == "name":
                if v.left.id not in known:
                    raise Unrecognised("return prefix + name where prefix may be False")
                return "v_acc" if mode == "prb" else "Ok Twin"
            raise Unrecognised("return %s" % _u(v))
        raise Unrecognised("statement %s" % _u(st).split("\n")[0])

    @staticmethod
    def ends(body):
        return bool(body) and isinstance(body[-1], (ast.Raise, ast.Return))

    def run(self):
        # `has_exposed = prefix and hasattr(...)`: has_exposed truthy implies prefix truthy
        self.implied = {}
        for st in self.body:
            if isinstance(st, ast.Assign) and len(st.targets) == 1 and isinstance(st.targets[0], ast.Name) \
                    and isinstance(st.value, ast.BoolOp) and isinstance(st.value.op, ast.And):
                self.implied[st.targets[0].id] = {_u(x) for x in st.value.values if isinstance(x, ast.Name)}
        env = {"obj": ("obj",), "name": ("name",), "perm": ("perm",)}
        dec = self.stmts(self.body, env, set(), "dec")
        prb = self.stmts(self.body, env, set(), "prb")
        head = "fun (s : switches) (perm : permkey) (pne : bool) (n : nview) (o : oview) =>\n  "
        return head + dec, head + "let v_acc := @nil probe in\n  " + prb


# ---------------------------------------------------------------- _access_attr

def _access(fn):
    a = [x.arg for x in fn.args.args]
    if a != ["self", "obj", "name", "args", "overrider", "param", "default"] or fn.args.defaults:
        raise Unrecognised("_access_attr signature %r" % (a,))
    body = strip_doc(fn.body)
    if len(body) != 4:
        raise Unrecognised("_access_attr: %d statements" % len(body))
    s0, s1, s2, s3 = body
    # 1. name typing
    if not (isinstance(s0, ast.If) and _u(s0.test) == "type(name) is bytes" and len(s0.body) == 1 and len(s0.orelse) == 1
            and isinstance(s0.orelse[0], ast.If) and _u(s0.orelse[0].test) == "type(name) is not str"
            and not s0.orelse[0].orelse and len(s0.orelse[0].body) == 1 and isinstance(s0.orelse[0].body[0], ast.Raise)):
        raise Unrecognised("_access_attr: name typing")
    ex = s0.orelse[0].body[0].exc
    ex = ex.func if isinstance(ex, ast.Call) else ex
    if not (isinstance(ex, ast.Name) and ex.id in EXN):
        raise Unrecognised("_access_attr: raise %s" % _u(ex))
    other_exn = EXN[ex.id]
    dec = s0.body[0]
    DEC = ("name = str(name, 'utf8')", "name = str(name, 'utf-8')", "name = name.decode('utf8')", "name = name.decode('utf-8')")
    if _u(dec) in DEC:
        guarded, bad = False, "UnicodeError"
    elif isinstance(dec, ast.Try) and len(dec.body) == 1 and _u(dec.body[0]) in DEC and len(dec.handlers) == 1 \
            and not dec.orelse and not dec.finalbody and dec.handlers[0].type is not None \
            and _u(dec.handlers[0].type) in ("UnicodeDecodeError", "UnicodeError", "ValueError") \
            and len(dec.handlers[0].body) == 1 and isinstance(dec.handlers[0].body[0], ast.Raise):
        e2 = dec.handlers[0].body[0].exc
        e2 = e2.func if isinstance(e2, ast.Call) else e2
        if not (isinstance(e2, ast.Name) and e2.id in EXN):
            raise Unrecognised("_access_attr: decode handler raises %s" % _u(e2))
        guarded, bad = EXN[e2.id] == "TypeError", EXN[e2.id]
    else:
        raise Unrecognised("_access_attr: decode statement %s" % _u(dec))
    # 2. hook lookup
    if _u(s1) != "accessor = getattr(type(obj), overrider, None)":
        raise Unrecognised("_access_attr: hook lookup %s" % _u(s1))
    # 3. default path
    if not (isinstance(s2, ast.If) and _u(s2.test) == "accessor is None" and not s2.orelse):
        raise Unrecognised("_access_attr: default test")
    b = [_u(x) for x in s2.body]
    if b == ["accessor = default", "name = self._check_attr(obj, name, param)"] or \
            b == ["name = self._check_attr(obj, name, param)", "accessor = default"]:
        dflt = ("match check_attr s perm pne n o with Ok t => Ok (ByDefault t) | Raise e => Raise e "
                "| OutOfFuel => OutOfFuel | Unmodelled => Unmodelled end")
    elif b == ["accessor = default"]:
        dflt = "Ok (ByDefault Plain)"           # no check at all: faithful, and refuted by the tie
    else:
        raise Unrecognised("_access_attr: default branch %r" % (b,))
    # 4. the call
    if _u(s3) != "return accessor(obj, name, *args)":
        raise Unrecognised("_access_attr: final call %s" % _u(s3))
    rest = "if (negb hook) then %s else Ok ByHook" % dflt
    term = ("fun (nk : nkind) (hook : bool) (s : switches) (perm : permkey) (pne : bool) (n : nview) (o : oview) =>\n"
            "  if nk_is_bytes nk then (if nk_decodes nk then %s else Raise %s)\n"
            "  else if (negb (nk_is_str nk)) then Raise %s\n  else %s" % (rest, bad, other_exn, rest))
    return guarded, term


# ---------------------------------------------------------------- request handlers

RAW_NAMES = {"getattr", "setattr", "delattr", "hasattr", "vars"}
RAW_ATTRS = {"__dict__", "__getattribute__", "__setattr__", "__delattr__", "_check_attr", "__getattr__"}


CMP_NAMES = ("__cmp__", "__eq__", "__ne__", "__lt__", "__le__", "__gt__", "__ge__")


def _cmp_only_accessors(fn):
    """nested `def f(cls, name): if name not in (<comparison names>): raise AttributeError(...); return getattr(cls, name)`
    -> {f: (names, the getattr Name node)}"""
    out = {}
    for st in strip_doc(fn.body):
        if isinstance(st, ast.FunctionDef):
            b = strip_doc(st.body)
            a = [x.arg for x in st.args.args]
            if len(a) == 2 and not st.args.defaults and not st.decorator_list and len(b) == 2 and isinstance(b[0], ast.If) \
                    and not b[0].orelse and len(b[0].body) == 1 and isinstance(b[0].body[0], ast.Raise) \
                    and isinstance(b[0].test, ast.Compare) and len(b[0].test.ops) == 1 and isinstance(b[0].test.ops[0], ast.NotIn) \
                    and _u(b[0].test.left) == a[1] and isinstance(b[0].test.comparators[0], (ast.Tuple, ast.List, ast.Set)) \
                    and all(isinstance(e, ast.Constant) and isinstance(e.value, str) for e in b[0].test.comparators[0].elts) \
                    and _u(b[1]) == "return getattr(%s, %s)" % (a[0], a[1]):
                ex = b[0].body[0].exc
                ex = ex.func if isinstance(ex, ast.Call) else ex
                if isinstance(ex, ast.Name) and ex.id == "AttributeError":
                    out[st.name] = ([e.value for e in b[0].test.comparators[0].elts], b[1].value.func)
                    continue
            raise Unrecognised("nested function %s in %s" % (st.name, fn.name))
    return out


def _routes(fn, facts=None):
    """attribute routes of one _handle_* method, in source order"""
    found, skip = [], set()
    accs = _cmp_only_accessors(fn)
    for nm, (names, gnode) in accs.items():
        skip.add(id(gnode))
    for node in ast.walk(fn):
        if isinstance(node, ast.Call) and isinstance(node.func, ast.Attribute) and isinstance(node.func.value, ast.Name) \
                and node.func.value.id == "self":
            m = node.func.attr
            if m == "_access_attr":
                if node.keywords or len(node.args) != 6:
                    found.append((node.lineno, node.col_offset, 'RRaw "_access_attr arity"'))
                    continue
                o, p, d = node.args[3], node.args[4], node.args[5]
                if isinstance(o, ast.Constant) and isinstance(o.value, str) and isinstance(p, ast.Constant) \
                        and isinstance(p.value, str) and isinstance(d, ast.Name):
                    dname = d.id
                    if d.id in accs:                 # a local accessor that is getattr restricted to a fixed set of names
                        dname = "getattr"
                        if facts is not None:
                            facts.setdefault("restricted", []).append((fn.name, accs[d.id][0]))
                    elif facts is not None:
                        facts.setdefault("unrestricted", []).append(fn.name)
                    found.append((node.lineno, node.col_offset, "RAccess %s %s %s %s" % (
                        coq_string(_u(node.args[0])), coq_string(o.value), coq_string(p.value), coq_string(dname))))
                    skip.add(id(d))
                else:
                    found.append((node.lineno, node.col_offset, 'RRaw "_access_attr with computed policy"'))
            elif m.startswith("_handle_"):
                found.append((node.lineno, node.col_offset, "RHandler %s" % coq_string(m[len("_handle_"):])))
        if isinstance(node, ast.Call) and isinstance(node.func, ast.Name) and node.func.id in RAW_NAMES:
            if len(node.args) >= 2 and isinstance(node.args[1], ast.Constant) and isinstance(node.args[1].value, str):
                skip.add(id(node.func))       # constant name chosen by the library, not by the peer
    for node in ast.walk(fn):
        if isinstance(node, ast.Name) and node.id in RAW_NAMES and id(node) not in skip:
            found.append((node.lineno, node.col_offset, "RRaw %s" % coq_string(node.id)))
        if isinstance(node, ast.Attribute) and node.attr in RAW_ATTRS:
            found.append((node.lineno, node.col_offset, "RRaw %s" % coq_string(node.attr)))
    return [r for _, _, r in sorted(found)]


def _handlers(cls, facts=None):
    out = []
    for n in cls.body:
        if isinstance(n, ast.FunctionDef) and n.name.startswith("_handle_"):
            out.append((n.name[len("_handle_"):], _routes(n, facts)))
    if not out:
        raise Unrecognised("no request handlers")
    return out


def _cmp_route(cls, facts):
    """_handle_cmp, whole body: [optional comparison-only accessor;] try: return self._access_attr(type(obj), op, (),
    "_rpyc_getattr", "allow_getattr", <getattr | accessor>)(obj, other) except Exception: raise"""
    fn = find_func(cls, "_handle_cmp")
    if [x.arg for x in fn.args.args] != ["self", "obj", "other", "op"] or [_u(d) for d in fn.args.defaults] != ["'__cmp__'"]:
        raise Unrecognised("_handle_cmp signature")
    body = [st for st in strip_doc(fn.body) if not isinstance(st, ast.FunctionDef)]
    acc = [st.name for st in strip_doc(fn.body) if isinstance(st, ast.FunctionDef)]
    if len(body) != 1 or len(acc) > 1:
        raise Unrecognised("_handle_cmp body")
    st = body[0]
    if isinstance(st, ast.Try):
        if not (len(st.body) == 1 and len(st.handlers) == 1 and not st.orelse and not st.finalbody
                and _u(st.handlers[0]) == "except Exception:\n    raise"):
            raise Unrecognised("_handle_cmp try")
        st = st.body[0]
    d = acc[0] if acc else "getattr"
    if _u(st) != "return self._access_attr(type(obj), op, (), '_rpyc_getattr', 'allow_getattr', %s)(obj, other)" % d:
        raise Unrecognised("_handle_cmp call: %s" % _u(st))
    restricted = [names for h, names in facts.get("restricted", []) if h == "_handle_cmp"]
    if any(h != "_handle_cmp" for h, _ in facts.get("restricted", [])):
        raise Unrecognised("restricted accessor outside _handle_cmp")
    if restricted and sorted(restricted[0]) != sorted(CMP_NAMES):
        raise Unrecognised("_handle_cmp serves other names than the comparison protocol: %r" % (restricted[0],))
    return [typed("cmp_ops_restricted", "bool", coq_bool(bool(restricted))),
            typed("cmp_ops", "list string", coq_list(coq_string(x) for x in (restricted[0] if restricted else [])))]


def _dispatch(cls):
    fn = find_func(cls, "_request_handlers")
    body = strip_doc(fn.body)
    if not (len(body) == 1 and isinstance(body[0], ast.Return) and isinstance(body[0].value, ast.Dict)):
        raise Unrecognised("_request_handlers body")
    out = []
    for k, v in zip(body[0].value.keys, body[0].value.values):
        if not (isinstance(k, ast.Attribute) and _u(k.value) == "consts" and isinstance(v, ast.Attribute)
                and _u(v.value) == "cls" and v.attr.startswith("_handle_")):
            raise Unrecognised("_request_handlers entry %s" % _u(k))
        out.append((k.attr, v.attr[len("_handle_"):]))
    return out


# ---------------------------------------------------------------- configuration dicts

def _default_config(tree):
    v = find_assign(tree, "DEFAULT_CONFIG")
    if not (isinstance(v, ast.Call) and _u(v.func) == "dict" and not v.args):
        raise Unrecognised("DEFAULT_CONFIG is not dict(key=value, ...)")
    kw = {}
    for k in v.keywords:
        if k.arg is None or k.arg in kw:
            raise Unrecognised("DEFAULT_CONFIG keyword")
        kw[k.arg] = k.value
    sw = []
    for key in SWITCH:
        x = kw.get(key)
        if not (isinstance(x, ast.Constant) and isinstance(x.value, bool)):
            raise Unrecognised("DEFAULT_CONFIG[%s]" % key)
        sw.append("%s := %s" % (SWITCH[key], coq_bool(x.value)))
    p = kw.get("exposed_prefix")
    if not (isinstance(p, ast.Constant) and isinstance(p.value, str) and p.value.isascii()):
        raise Unrecognised("DEFAULT_CONFIG[exposed_prefix]")
    sa = kw.get("safe_attrs")
    if not (isinstance(sa, ast.Call) and _u(sa.func) in ("set", "frozenset") and len(sa.args) == 1
            and isinstance(sa.args[0], (ast.List, ast.Tuple))
            and all(isinstance(e, ast.Constant) and isinstance(e.value, str) and e.value.isascii() for e in sa.args[0].elts)):
        raise Unrecognised("DEFAULT_CONFIG[safe_attrs]")
    names = sorted(set(e.value for e in sa.args[0].elts))
    return [typed("default_switches", "switches", "{| " + "; ".join(sw) + " |}"),
            typed("default_prefix", "string", coq_string(p.value)),
            typed("default_safe_attrs", "list string", coq_list(coq_string(x) for x in names))]


def _init(cls):
    fn = find_func(cls, "__init__")
    copies = updates = None
    for st in ast.walk(fn):
        if isinstance(st, ast.Assign) and len(st.targets) == 1 and _u(st.targets[0]) == "self._config":
            if copies is not None:
                raise Unrecognised("__init__ assigns self._config twice")
            v = _u(st.value)
            if v in ("DEFAULT_CONFIG.copy()", "dict(DEFAULT_CONFIG)", "copy.copy(DEFAULT_CONFIG)", "copy.deepcopy(DEFAULT_CONFIG)"):
                copies = True
            elif v == "DEFAULT_CONFIG":
                copies = False
            else:
                raise Unrecognised("self._config = %s" % v)
        if isinstance(st, ast.Expr) and _u(st.value) == "self._config.update(config)":
            updates = True
    if copies is None:
        raise Unrecognised("__init__ does not assign self._config")
    return [typed("init_copies_defaults", "bool", coq_bool(copies)), typed("init_updates_own", "bool", coq_bool(bool(updates)))]


def _on_connect(stree):
    cls = find_class(stree, "SlaveService")
    fn = find_func(cls, "on_connect")
    if [x.arg for x in fn.args.args] != ["self", "conn"]:
        raise Unrecognised("SlaveService.on_connect signature")
    body = strip_doc(fn.body)
    own, pairs, bound = None, None, False
    for st in body:
        if _u(st) == "self._conn = conn":
            bound = True
            continue
        if isinstance(st, ast.Expr) and isinstance(st.value, ast.Call) and isinstance(st.value.func, ast.Attribute) \
                and st.value.func.attr == "update" and len(st.value.args) == 1 and not st.value.keywords:
            tgt = _u(st.value.func.value)
            if tgt == "conn._config" or (tgt == "self._conn._config" and bound):
                own = True
            elif tgt.endswith("_config") or "DEFAULT_CONFIG" in tgt:
                own = False
            else:
                raise Unrecognised("on_connect updates %s" % tgt)
            d = st.value.args[0]
            if not (isinstance(d, ast.Call) and _u(d.func) == "dict" and not d.args):
                raise Unrecognised("on_connect update argument")
            pairs = []
            for k in d.keywords:
                if not (k.arg and isinstance(k.value, ast.Constant) and isinstance(k.value.value, bool)):
                    raise Unrecognised("on_connect update value %s" % _u(k.value))
                pairs.append((k.arg, k.value.value))
            continue
        if _u(st) == "super(SlaveService, self).on_connect(conn)" or _u(st) == "super().on_connect(conn)":
            continue
        raise Unrecognised("SlaveService.on_connect statement %s" % _u(st))
    if pairs is None:
        raise Unrecognised("SlaveService.on_connect: no update")
    # ClassicService must inherit it
    cc = find_class(stree, "ClassicService")
    if [_u(b) for b in cc.bases] != ["MasterService", "SlaveService"] or any(isinstance(n, ast.FunctionDef) for n in cc.body):
        raise Unrecognised("ClassicService definition")
    return [typed("classic_update", "list (string * bool)", coq_list("(%s, %s)" % (coq_string(k), coq_bool(v)) for k, v in pairs)),
            typed("on_connect_updates_own", "bool", coq_bool(own))]


MUTATORS = {"update", "clear", "pop", "popitem", "setdefault", "__setitem__", "__delitem__", "__ior__"}
SET_MUTATORS = {"add", "discard", "remove", "pop", "clear", "update", "difference_update", "intersection_update",
                "symmetric_difference_update", "__ior__", "__iand__", "__isub__", "__ixor__"}


def _scan_tree(repo):
    """every write to a connection's configuration dict, every reference to DEFAULT_CONFIG,
    every use of the safe_attrs key, anywhere under rpyc/"""
    writes, refs, safe = [], [], []
    files = sorted(glob.glob(os.path.join(repo, "rpyc", "**", "*.py"), recursive=True))
    if len(files) < 20:
        raise Unrecognised("rpyc/ tree looks incomplete (%d files)" % len(files))
    for path in files:
        rel = os.path.relpath(path, repo)
        with open(path) as f:
            tree = ast.parse(f.read(), rel)
        parents = {}
        for p in ast.walk(tree):
            for c in ast.iter_child_nodes(p):
                parents[id(c)] = p

        def where(n):
            names = []
            while id(n) in parents:
                n = parents[id(n)]
                if isinstance(n, (ast.FunctionDef, ast.ClassDef, ast.AsyncFunctionDef)):
                    names.append(n.name)
            return rel + ":" + (".".join(reversed(names)) or "<module>")

        def is_cfg(n, aliases):
            return (isinstance(n, ast.Attribute) and n.attr == "_config") or (isinstance(n, ast.Name) and n.id in aliases) \
                or (isinstance(n, ast.Name) and n.id == "DEFAULT_CONFIG") or (isinstance(n, ast.Attribute) and n.attr == "DEFAULT_CONFIG")

        scopes = [n for n in ast.walk(tree) if isinstance(n, (ast.FunctionDef, ast.AsyncFunctionDef))] + [tree]
        done = set()
        for sc in scopes:
            aliases = set()
            for n in ast.walk(sc):
                if isinstance(n, ast.Assign) and len(n.targets) == 1 and isinstance(n.targets[0], ast.Name) and is_cfg(n.value, set()):
                    aliases.add(n.targets[0].id)
            for n in ast.walk(sc):
                if id(n) in done:
                    continue
                if isinstance(n, (ast.Assign, ast.AugAssign, ast.AnnAssign, ast.Delete)):
                    tg = n.targets if isinstance(n, (ast.Assign, ast.Delete)) else [n.target]
                    for t in tg:
                        for t1 in (t.elts if isinstance(t, (ast.Tuple, ast.List)) else [t]):
                            if isinstance(t1, ast.Attribute) and t1.attr == "_config":
                                done.add(id(n))
                                writes.append((where(n), "assign:" + _u(n.value) if isinstance(n, ast.Assign) else "rebind"))
                            elif isinstance(t1, ast.Subscript) and is_cfg(t1.value, aliases):
                                done.add(id(n))
                                kind = "delitem:" if isinstance(n, ast.Delete) else "setitem:"
                                writes.append((where(n), kind + _u(t1.slice)))
                            elif isinstance(t1, ast.Name) and t1.id == "DEFAULT_CONFIG" and sc is not tree:
                                done.add(id(n))
                                writes.append((where(n), "rebind-default"))
                if isinstance(n, ast.Call) and isinstance(n.func, ast.Attribute) and n.func.attr in MUTATORS \
                        and is_cfg(n.func.value, aliases):
                    done.add(id(n))
                    arg = _u(n.args[0]) if n.args else ""
                    writes.append((where(n), "call:%s:%s" % (n.func.attr, arg if len(arg) < 24 else "dict-literal")))
                # the shared safe_attrs set: any mutation through the key
                if isinstance(n, ast.Call) and isinstance(n.func, ast.Attribute) and n.func.attr in SET_MUTATORS \
                        and isinstance(n.func.value, ast.Subscript) and isinstance(n.func.value.slice, ast.Constant) \
                        and n.func.value.slice.value == "safe_attrs":
                    done.add(id(n))
                    writes.append((where(n), "safe_attrs-mutation:" + n.func.attr))
        for n in ast.walk(tree):
            if (isinstance(n, ast.Name) and n.id == "DEFAULT_CONFIG") or (isinstance(n, ast.Attribute) and n.attr == "DEFAULT_CONFIG"):
                p = parents.get(id(n))
                if isinstance(p, ast.Assign) and n in p.targets and parents.get(id(p)) is tree:
                    refs.append((where(n), "define"))
                elif isinstance(p, ast.Attribute) and p.attr == "copy" and isinstance(parents.get(id(p)), ast.Call):
                    refs.append((where(n), "copy"))
                elif isinstance(p, ast.Call) and _u(p.func) in ("dict", "copy.copy", "copy.deepcopy") and p.args and p.args[0] is n:
                    refs.append((where(n), "copy"))
                elif isinstance(p, (ast.ImportFrom, ast.alias)):
                    refs.append((where(n), "import"))
                else:
                    refs.append((where(n), "other:" + _u(p)[:60]))
            if isinstance(n, ast.alias) and n.name == "DEFAULT_CONFIG":
                refs.append((where(n), "import"))
            if isinstance(n, ast.keyword) and n.arg == "safe_attrs":
                p = parents.get(id(n))
                pp = parents.get(id(p))
                ok = isinstance(pp, ast.Assign) and _u(pp.targets[0]) == "DEFAULT_CONFIG"
                safe.append((where(n), "define" if ok else "other-keyword"))
            if isinstance(n, ast.Constant) and n.value == "safe_attrs":
                p = parents.get(id(n))
                pp = parents.get(id(p))
                if isinstance(p, ast.Subscript) and isinstance(pp, ast.Compare) and len(pp.ops) == 1 \
                        and isinstance(pp.ops[0], (ast.In, ast.NotIn)) and pp.comparators[0] is p:
                    safe.append((where(n), "membership"))
                else:
                    safe.append((where(n), "other:" + _u(pp if pp is not None else p)[:60]))
    pl = lambda l: coq_list("(%s, %s)" % (coq_string(a), coq_string(b)) for a, b in l)
    return [typed("config_writes", "list (string * string)", pl(writes)),
            typed("default_config_refs", "list (string * string)", pl(refs)),
            typed("safe_attrs_uses", "list (string * string)", pl(safe))]


# ---------------------------------------------------------------- restricted()

def _restricted(htree):
    fn = find_func(htree, "restricted")
    if [x.arg for x in fn.args.args] != ["obj", "attrs", "wattrs"] or _u(fn.args.defaults[0]) != "None" or len(fn.args.defaults) != 1:
        raise Unrecognised("restricted signature")
    body = strip_doc(fn.body)
    if not (len(body) == 3 and _u(body[0]) == "if wattrs is None:\n    wattrs = attrs" and isinstance(body[1], ast.ClassDef)
            and _u(body[2]) == "return Restricted()" and body[1].name == "Restricted"):
        raise Unrecognised("restricted body")
    hooks, aliases = [], []
    for n in body[1].body:
        if isinstance(n, ast.FunctionDef):
            b = strip_doc(n.body)
            args = [x.arg for x in n.args.args]
            if len(b) != 2 or not isinstance(b[0], ast.If) or b[0].orelse or len(b[0].body) != 1:
                raise Unrecognised("Restricted.%s body" % n.name)
            t = b[0].test
            if not (isinstance(t, ast.Compare) and len(t.ops) == 1 and isinstance(t.ops[0], ast.NotIn) and _u(t.left) == "name"
                    and isinstance(t.comparators[0], ast.Name) and _u(b[0].body[0]) == "raise AttributeError(name)"):
                raise Unrecognised("Restricted.%s guard" % n.name)
            lst = t.comparators[0].id
            act = _u(b[1])
            if args == ["self", "name"] and act == "return getattr(obj, name)":
                what = "getattr"
            elif args == ["self", "name", "value"] and act == "setattr(obj, name, value)":
                what = "setattr"
            elif args == ["self", "name"] and act == "delattr(obj, name)":
                what = "delattr"
            else:
                raise Unrecognised("Restricted.%s action %s" % (n.name, act))
            hooks.append((n.name, lst, what))
        elif isinstance(n, ast.Assign) and len(n.targets) == 1 and isinstance(n.targets[0], ast.Name) and isinstance(n.value, ast.Name):
            aliases.append((n.targets[0].id, n.value.id))
        elif isinstance(n, ast.Expr) and isinstance(n.value, ast.Constant):
            continue
        else:
            raise Unrecognised("Restricted member %s" % _u(n).split("\n")[0])
    return [typed("restricted_hooks", "list (string * string * string)",
                  coq_list("(%s, %s, %s)" % tuple(map(coq_string, h)) for h in hooks)),
            typed("restricted_aliases", "list (string * string)", coq_list("(%s, %s)" % tuple(map(coq_string, h)) for h in aliases)),
            typed("restricted_wattrs_default_attrs", "bool", "true")]


# ---------------------------------------------------------------- Service's own hooks, hook definitions anywhere, pickle gate

HOOKS = ("_rpyc_getattr", "_rpyc_setattr", "_rpyc_delattr")


def _service_hooks(stree):
    """class Service: which of the three hooks it defines and what each does"""
    cls = find_class(stree, "Service")
    out = {}
    for n in cls.body:
        if isinstance(n, ast.FunctionDef) and n.name in HOOKS:
            b = strip_doc(n.body)
            want = ["self", "name", "value"] if n.name == "_rpyc_setattr" else ["self", "name"]
            kind = "other"
            if [x.arg for x in n.args.args] == want and len(b) == 1 and isinstance(b[0], ast.Raise) and b[0].cause is None \
                    and isinstance(b[0].exc, ast.Call) and isinstance(b[0].exc.func, ast.Name) and b[0].exc.func.id in EXN:
                kind = "deny:" + EXN[b[0].exc.func.id]
            if n.name in out:
                raise Unrecognised("Service.%s defined twice" % n.name)
            out[n.name] = kind
        elif isinstance(n, ast.Assign) and any(isinstance(t, ast.Name) and t.id in HOOKS for t in n.targets):
            raise Unrecognised("Service hook bound by assignment")
    return [typed("service_hooks", "list (string * string)",
                  coq_list("(%s, %s)" % (coq_string(k), coq_string(out[k])) for k in sorted(out))),
            typed("service_denies_set", "bool", coq_bool(out.get("_rpyc_setattr") == "deny:AttributeError")),
            typed("service_denies_del", "bool", coq_bool(out.get("_rpyc_delattr") == "deny:AttributeError")),
            typed("service_defines_get_hook", "bool", coq_bool("_rpyc_getattr" in out))]


def _hook_definitions(repo):
    """every definition or binding of a _rpyc_*attr hook anywhere under rpyc/ (a subclass overriding Service's denial,
    a new hooked helper ... must show up here)"""
    found = []
    for path in sorted(glob.glob(os.path.join(repo, "rpyc", "**", "*.py"), recursive=True)):
        rel = os.path.relpath(path, repo)
        with open(path) as f:
            tree = ast.parse(f.read(), rel)

        def walk(node, scope):
            for n in ast.iter_child_nodes(node):
                if isinstance(n, (ast.FunctionDef, ast.AsyncFunctionDef)):
                    if n.name in HOOKS:
                        found.append((rel + ":" + ".".join(scope), n.name))
                    walk(n, scope + [n.name])
                elif isinstance(n, ast.ClassDef):
                    walk(n, scope + [n.name])
                else:
                    if isinstance(n, (ast.Assign, ast.AnnAssign, ast.AugAssign)):
                        tg = n.targets if isinstance(n, ast.Assign) else [n.target]
                        for t in tg:
                            nm = t.id if isinstance(t, ast.Name) else t.attr if isinstance(t, ast.Attribute) else None
                            if nm in HOOKS:
                                found.append((rel + ":" + ".".join(scope), "bind:" + nm))
                    if isinstance(n, ast.Call) and isinstance(n.func, ast.Name) and n.func.id == "setattr" and len(n.args) >= 2 \
                            and isinstance(n.args[1], ast.Constant) and n.args[1].value in HOOKS:
                        found.append((rel + ":" + ".".join(scope), "bind:" + n.args[1].value))
                    walk(n, scope)
        walk(tree, [])
    return typed("hook_definitions", "list (string * string)",
                 coq_list("(%s, %s)" % (coq_string(a), coq_string(b)) for a, b in found))


def _pickle_gate(cls):
    fn = find_func(cls, "_handle_pickle")
    b = strip_doc(fn.body)
    if not (len(b) == 2 and isinstance(b[0], ast.If) and not b[0].orelse and len(b[0].body) == 1 and isinstance(b[0].body[0], ast.Raise)
            and isinstance(b[0].test, ast.UnaryOp) and isinstance(b[0].test.op, ast.Not)
            and isinstance(b[0].test.operand, ast.Subscript) and _u(b[0].test.operand.value) == "self._config"
            and isinstance(b[0].test.operand.slice, ast.Constant) and _u(b[1]) == "return bytes(pickle.dumps(obj, proto))"):
        raise Unrecognised("_handle_pickle shape")
    ex = b[0].body[0].exc
    ex = ex.func if isinstance(ex, ast.Call) else ex
    if not (isinstance(ex, ast.Name) and ex.id in EXN):
        raise Unrecognised("_handle_pickle refusal")
    return [typed("pickle_gate", "string", coq_string(b[0].test.operand.slice.value)),
            typed("pickle_refusal", "string", coq_string(ex.id))]


# ---------------------------------------------------------------- entry point

def translate(repo):
    tree = parse(repo, SRC)
    stree = parse(repo, "rpyc/core/service.py")
    htree = parse(repo, "rpyc/utils/helpers.py")
    cls = find_class(tree, "Connection")
    items = []

    def guarded(name, f):
        try:
            r = f()
            items.extend(r if isinstance(r, list) else [r])
        except Unrecognised as e:
            items.append(Item("!" + name, "failed", text=str(e)))

    def check():
        dec, prb = _Check(find_func(cls, "_check_attr")).run()
        T = "switches -> permkey -> bool -> nview -> oview -> "
        return [typed("check_attr", T + "result target", dec), typed("check_probes", T + "list probe", prb)]
    guarded("check_attr", check)

    def access():
        g, term = _access(find_func(cls, "_access_attr"))
        return [typed("decode_guarded", "bool", coq_bool(g)),
                typed("access_attr", "nkind -> bool -> switches -> permkey -> bool -> nview -> oview -> result reach", term)]
    guarded("access_attr", access)

    rfacts = {}

    def handlers():
        hs = _handlers(cls, rfacts)
        return [typed("handlers", "htable", coq_list("(%s, %s)" % (coq_string(h), coq_list(rs)) for h, rs in hs)),
                typed("dispatch", "list (string * string)",
                      coq_list("(%s, %s)" % (coq_string(a), coq_string(b)) for a, b in _dispatch(cls)))]
    guarded("handlers", handlers)
    guarded("cmp_route", lambda: _cmp_route(cls, rfacts))
    guarded("default_config", lambda: _default_config(tree))
    guarded("init", lambda: _init(cls))
    guarded("on_connect", lambda: _on_connect(stree))
    guarded("scan", lambda: _scan_tree(repo))
    guarded("restricted", lambda: _restricted(htree))
    guarded("service_hooks", lambda: _service_hooks(stree))
    guarded("hook_definitions", lambda: _hook_definitions(repo))
    guarded("pickle_gate", lambda: _pickle_gate(cls))

    # shapes of the code around it (any change is reported; re-snapshot after review)
    svc = find_class(stree, "Service")
    ltree = parse(repo, "rpyc/lib/__init__.py")
    for nm, scope, fn in (("Connection._cleanup", cls, "_cleanup"), ("Connection.close", cls, "close"),
                          ("Connection._handle_call", cls, "_handle_call"), ("Service._connect", svc, "_connect"),
                          ("MasterService.on_connect", find_class(stree, "MasterService"), "on_connect"),
                          # the handlers that take no attribute name (outside the policy theorems; see whole_object_handlers)
                          ("Connection._handle_dir", cls, "_handle_dir"), ("Connection._handle_inspect", cls, "_handle_inspect"),
                          ("Connection._handle_instancecheck", cls, "_handle_instancecheck"),
                          ("Connection._handle_buffiter", cls, "_handle_buffiter"), ("Connection._handle_repr", cls, "_handle_repr"),
                          ("Connection._handle_str", cls, "_handle_str"), ("Connection._handle_hash", cls, "_handle_hash"),
                          ("Connection._handle_del", cls, "_handle_del"), ("Connection._handle_getroot", cls, "_handle_getroot"),
                          ("lib.get_methods", ltree, "get_methods"),
                          # the by-name handlers, whole bodies (cmp is translated whole above): a cache, a shortcut ... shows here
                          ("Connection._handle_getattr", cls, "_handle_getattr"), ("Connection._handle_setattr", cls, "_handle_setattr"),
                          ("Connection._handle_delattr", cls, "_handle_delattr"), ("Connection._handle_callattr", cls, "_handle_callattr"),
                          ("Connection._handle_ctxexit", cls, "_handle_ctxexit"), ("Connection._handle_oldslicing", cls, "_handle_oldslicing")):
        try:
            items.append(shape(nm, func_shape(find_func(scope, fn))))
        except Unrecognised as e:
            items.append(Item("!" + nm, "failed", text=str(e)))
    return items
