from .core import *

SRC = "rpyc/core/protocol.py"


def translate(repo):
    tree = parse(repo, SRC)
    cls = find_class(tree, "Connection")
    u = ast.unparse
    items = []
    sr = [u(x) for x in strip_doc(find_func(cls, "sync_request").body)]
    items.append(typed("sync_request_is_async_value", "bool", coq_bool(
        sr == ["timeout = self._config['sync_request_timeout']", "return self.async_request(handler, *args, timeout=timeout).value"])))
    hc = [u(x) for x in strip_doc(find_func(cls, "_handle_call").body)]
    items.append(typed("handle_call_applies_target_once", "bool", coq_bool(hc == ["return obj(*args, **dict(kwargs))"])))
    hca = [u(x) for x in strip_doc(find_func(cls, "_handle_callattr").body)]
    items.append(typed("handle_callattr_is_getattr_then_call", "bool", coq_bool(
        hca == ["obj = self._handle_getattr(obj, name)", "return self._handle_call(obj, args, kwargs)"])))
    ntree = parse(repo, "rpyc/core/netref.py")
    mm = find_func(ntree, "_make_method")
    calls = [n for n in ast.walk(mm) if isinstance(n, ast.FunctionDef) and n.name == "__call__"]
    if len(calls) != 1:
        raise Unrecognised("_make_method: __call__")
    call = [u(x) for x in strip_doc(calls[0].body)]
    items.append(typed("netref_call_sends_args_and_kwargs_items", "bool", coq_bool(
        call == ["kwargs = tuple(kwargs.items())", "return syncreq(_self, consts.HANDLE_CALL, args, kwargs)"])))
    atree = parse(repo, "rpyc/core/async_.py")
    ar = find_class(atree, "AsyncResult")
    val = [u(x) for x in strip_doc(find_func(ar, "value").body)]
    items.append(typed("value_waits_then_returns_or_raises", "bool", coq_bool(
        val == ["self.wait()", "if self._is_exc:\n    raise self._obj\nelse:\n    return self._obj"])))
    wt = [u(x) for x in strip_doc(find_func(ar, "wait").body)]
    items.append(typed("wait_serves_while_waiting", "bool", coq_bool(
        wt[0] == "while not self._is_ready and (not self._ttl.expired()):\n    self._conn.serve(self._ttl)")))
    items.append(shape("netref.syncreq", func_shape(find_func(ntree, "syncreq"))))
    items.append(shape("netref._make_method", func_shape(find_func(ntree, "_make_method"))))
    return items
