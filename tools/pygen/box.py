"""C03: by-value / by-reference decision of Connection._box and its inverse _unbox.

The two functions are translated statement by statement into the ladders interpreted by model/Box.v
(`bladder` / `uladder`): every rung is (condition, label, action).  A statement that is not one of the
recognised forms makes the translator raise (fail closed): the generated item is then absent and
proofs/BoxTie.v stops compiling.  Further typed facts: the layout of the id pack built by get_id_pack for
instances and for classes, how the proxy cache is consulted, obtain / deliver being pickle round trips.
Everything else the property depends on is kept as a shape snapshot."""
from .core import *
from .core import _Inert

SRC = "rpyc/core/protocol.py"
SRC_CONSTS = "rpyc/core/consts.py"
SRC_LIB = "rpyc/lib/__init__.py"
SRC_CLASSIC = "rpyc/utils/classic.py"
SRC_NETREF = "rpyc/core/netref.py"
SRC_BRINE = "rpyc/core/brine.py"
PRELUDE = "From V Require Import model.Box.\n"

BCOND = {"brine.dumpable(obj)": ("CDumpable", 0),
         "type(obj) is tuple": ("CExactTuple", 1),
         "isinstance(obj, netref.BaseNetref) and obj.____conn__ is self": ("COwnNetref", 2)}
BACT_NUM = {"AValue": 0, "AItems": 1, "AProxyId": 2, "ARegister": 3}
UACT_NUM = {"UValue": 0, "UItems": 1, "ULocal": 2, "URemote": 3}


def _u(n):
    return ast.unparse(n)


def _labels(repo):
    out = {}
    for n in parse(repo, SRC_CONSTS).body:
        if isinstance(n, ast.Assign) and len(n.targets) == 1 and isinstance(n.targets[0], ast.Name) \
                and n.targets[0].id.startswith("LABEL_"):
            out["consts." + n.targets[0].id] = const_int(n.value)
    return out


def _ret_pair(st, labels):
    """return (consts.LABEL_X, <payload>) -> (label value, payload node)"""
    if not (isinstance(st, ast.Return) and isinstance(st.value, ast.Tuple) and len(st.value.elts) == 2):
        raise Unrecognised("_box: expected `return (label, payload)`, got " + _u(st))
    lab = _u(st.value.elts[0])
    if lab not in labels:
        raise Unrecognised("_box: label " + lab)
    return labels[lab], st.value.elts[1]


def _box_action(body, labels):
    """statements of one branch of _box -> (label, action)"""
    if len(body) == 1:
        lab, pay = _ret_pair(body[0], labels)
        p = _u(pay)
        if p == "obj":
            return lab, "AValue"
        if p == "tuple((self._box(item) for item in obj))":
            return lab, "AItems"
        if p == "obj.____id_pack__":
            return lab, "AProxyId"
        raise Unrecognised("_box: payload " + p)
    if len(body) == 3 and _u(body[0]) == "id_pack = get_id_pack(obj)" \
            and _u(body[1]) == "self._local_objects.add(id_pack, obj)":
        lab, pay = _ret_pair(body[2], labels)
        if _u(pay) != "id_pack":
            raise Unrecognised("_box: by-reference payload " + _u(pay))
        return lab, "ARegister"
    raise Unrecognised("_box: branch " + "; ".join(_u(x) for x in body))


def box_ladder(repo):
    """[(cond, label, action)...], (label, action) of the final else"""
    labels = _labels(repo)
    fn = find_func(find_class(parse(repo, SRC), "Connection"), "_box")
    if [a.arg for a in fn.args.args] != ["self", "obj"]:
        raise Unrecognised("_box: signature")
    rungs, els = [], None
    todo = list(strip_doc(fn.body))
    while todo:
        st = todo.pop(0)
        if not isinstance(st, ast.If):
            raise Unrecognised("_box: statement " + _u(st))
        t = _u(st.test)
        if t not in BCOND:
            raise Unrecognised("_box: test `%s`" % t)
        rungs.append((BCOND[t][0],) + _box_action(st.body, labels))
        if st.orelse:
            if todo:
                raise Unrecognised("_box: statements after an if/else")
            if len(st.orelse) == 1 and isinstance(st.orelse[0], ast.If):
                todo = [st.orelse[0]]
            else:
                els = _box_action(st.orelse, labels)
        elif not todo:
            raise Unrecognised("_box: falls off the end (returns None)")
    if els is None:
        raise Unrecognised("_box: no final else")
    return rungs, els


REMOTE_BLOCK = ["id_pack = (str(value[0]), value[1], value[2])",
                "if id_pack in self._proxy_cache:\n    proxy = self._proxy_cache[id_pack]\n    proxy.____refcount__ += 1\n"
                "else:\n    proxy = self._netref_factory(id_pack)\n    self._proxy_cache[id_pack] = proxy",
                "return proxy"]


def unbox_ladder(repo):
    labels = _labels(repo)
    fn = find_func(find_class(parse(repo, SRC), "Connection"), "_unbox")
    if [a.arg for a in fn.args.args] != ["self", "package"]:
        raise Unrecognised("_unbox: signature")
    body = strip_doc(fn.body)
    if not body or _u(body[0]) != "label, value = package":
        raise Unrecognised("_unbox: first statement")
    if not (isinstance(body[-1], ast.Raise) and _u(body[-1]).startswith("raise ValueError(")):
        raise Unrecognised("_unbox: must end by raising ValueError")
    rungs = []
    for st in body[1:-1]:
        if not (isinstance(st, ast.If) and not st.orelse and isinstance(st.test, ast.Compare) and len(st.test.ops) == 1
                and isinstance(st.test.ops[0], ast.Eq) and _u(st.test.left) == "label"
                and _u(st.test.comparators[0]) in labels):
            raise Unrecognised("_unbox: statement " + _u(st).split("\n")[0])
        lab = labels[_u(st.test.comparators[0])]
        txt = [_u(x) for x in st.body]
        if txt == ["return value"]:
            act = "UValue"
        elif txt == ["return tuple((self._unbox(item) for item in value))"]:
            act = "UItems"
        elif txt == ["return self._local_objects[value]"]:
            act = "ULocal"
        elif txt == REMOTE_BLOCK:
            act = "URemote"
        else:
            raise Unrecognised("_unbox: branch of label %d: %s" % (lab, " / ".join(txt)))
        rungs.append((lab, act))
    return rungs


def ladders_sx(repo):
    """the two ladders in the form Box.bladder_of_sx / uladder_of_sx expect (used by the harness)"""
    rungs, els = box_ladder(repo)
    bl = [[[{"CDumpable": 0, "CExactTuple": 1, "COwnNetref": 2}[c], l, BACT_NUM[a]] for c, l, a in rungs],
          [els[0], BACT_NUM[els[1]]]]
    ul = [[l, UACT_NUM[a]] for l, a in unbox_ladder(repo)]
    return bl, ul


FACTORY_HEAD = ["cls = None",
                "if id_pack[2] == 0 and id_pack in self._netref_classes_cache:\n    cls = self._netref_classes_cache[id_pack]\n"
                "elif id_pack[0] in netref.builtin_classes_cache:\n    cls = netref.builtin_classes_cache[id_pack[0]]"]
FACTORY_INSPECT = "cls_methods = self.sync_request(consts.HANDLE_INSPECT, id_pack)"
FACTORY_RECHECK = ["proxy = self._proxy_cache.get(id_pack)",
                   "if proxy is not None:\n    proxy.____refcount__ += 1\n    return proxy"]
FACTORY_TAIL = ["cls = netref.class_factory(id_pack, cls_methods)",
                "if id_pack[2] == 0:\n    self._netref_classes_cache[id_pack] = cls"]


def factory_rechecks(repo):
    """_netref_factory, statement by statement.  Asking the owner for the class (HANDLE_INSPECT) serves other messages
    while it waits; the only accepted difference between trees is whether the proxy cache is looked at again afterwards
    (the arrival then joins the proxy made in the meantime, with its count) -> bool"""
    fn = find_func(find_class(parse(repo, SRC), "Connection"), "_netref_factory")
    if [a.arg for a in fn.args.args] != ["self", "id_pack"]:
        raise Unrecognised("_netref_factory: signature")
    body = [x for x in _Inert().visit(ast.parse(ast.unparse(fn)).body[0]).body]
    txt = [_u(x) for x in body]
    if not (len(txt) == 4 and txt[:2] == FACTORY_HEAD and txt[3] == "return cls(self, id_pack)" and isinstance(body[2], ast.If)
            and _u(body[2].test) == "cls is None" and not body[2].orelse):
        raise Unrecognised("_netref_factory: body")
    inner = [_u(x) for x in body[2].body]
    if inner == [FACTORY_INSPECT] + FACTORY_TAIL:
        return False
    if inner == [FACTORY_INSPECT] + FACTORY_RECHECK + FACTORY_TAIL:
        return True
    raise Unrecognised("_netref_factory: class lookup: " + " / ".join(inner))


def _id_pack_facts(repo):
    fn = find_func(parse(repo, SRC_LIB), "get_id_pack")
    body = strip_doc(fn.body)
    if not (len(body) == 1 and isinstance(body[0], ast.If)):
        raise Unrecognised("get_id_pack: body")
    node = body[0]
    first = _u(node.test)
    if first not in ("hasattr(obj, '____id_pack__')", "hasattr(type(obj), '____id_pack__')"):
        raise Unrecognised("get_id_pack: netref test " + first)
    if [_u(x) for x in node.body] != ["return obj.____id_pack__"]:
        raise Unrecognised("get_id_pack: netref branch")
    if not (len(node.orelse) == 1 and isinstance(node.orelse[0], ast.If)):
        raise Unrecognised("get_id_pack: module branch")
    mod = node.orelse[0]
    mod_returns, mod_names = [], []
    for n in ast.walk(ast.Module(body=mod.body, type_ignores=[])):
        if isinstance(n, ast.Return):
            if not (isinstance(n.value, ast.Tuple) and len(n.value.elts) == 3):
                raise Unrecognised("get_id_pack: module branch returns " + _u(n))
            mod_returns.append([_u(e) for e in n.value.elts])
        elif isinstance(n, ast.Assign) and _u(n.targets[0]) == "name_pack":
            mod_names.append(_u(n.value))
        elif isinstance(n, ast.Expr) and not isinstance(n.value, ast.Constant):
            raise Unrecognised("get_id_pack: module branch has a side effect: " + _u(n))
    # names read anywhere in the function that nothing defines (a typo such as obj__module__ lands here)
    import builtins
    assigned = {a.arg for a in fn.args.args}
    for n in ast.walk(fn):
        if isinstance(n, ast.Name) and isinstance(n.ctx, ast.Store):
            assigned.add(n.id)
    top = set()
    for n in parse(repo, SRC_LIB).body:
        if isinstance(n, (ast.Import, ast.ImportFrom)):
            top.update((a.asname or a.name).split(".")[0] for a in n.names)
        elif isinstance(n, (ast.FunctionDef, ast.ClassDef)):
            top.add(n.name)
        elif isinstance(n, ast.Assign):
            top.update(t.id for t in n.targets if isinstance(t, ast.Name))
    free = sorted({n.id for n in ast.walk(fn) if isinstance(n, ast.Name) and isinstance(n.ctx, ast.Load)
                   and n.id not in assigned and n.id not in top and not hasattr(builtins, n.id)})
    inst = cls = None
    while True:
        if len(node.orelse) == 1 and isinstance(node.orelse[0], ast.If):
            node = node.orelse[0]
            if _u(node.test) == "not inspect.isclass(obj)":
                inst = node.body
            continue
        cls = node.orelse
        break
    if inst is None or not cls:
        raise Unrecognised("get_id_pack: instance / class branches")

    def fields(stmts, what):
        ret = stmts[-1]
        if not (isinstance(ret, ast.Return) and isinstance(ret.value, ast.Tuple) and len(ret.value.elts) == 3):
            raise Unrecognised("get_id_pack: %s branch does not return a triple" % what)
        if len(stmts) != 2 or not _u(stmts[0]).startswith("name_pack = "):
            raise Unrecognised("get_id_pack: %s branch" % what)
        return [_u(e) for e in ret.value.elts], _u(stmts[0])
    fi, ni = fields(inst, "instance")
    fc, nc = fields(cls, "class")
    return {"instance": fi, "class": fc, "instance_name": ni, "class_name": nc, "netref_test_on_type": first.startswith("hasattr(type"),
            "module_test": _u(mod.test), "module_returns": mod_returns, "module_names": mod_names, "free_names": free}


def translate(repo):
    items = []

    def guarded(name, f):
        try:
            r = f()
            items.extend(r if isinstance(r, list) else [r])
        except Unrecognised as e:
            items.append(Item("!" + name, "failed", text=str(e)))

    def t_box():
        rungs, els = box_ladder(repo)
        return typed("box_ladder", "bladder",
                     "{| b_rungs := %s; b_else := (%s, %s) |}"
                     % (coq_list("(%s, (%s, %s))" % (c, coq_z(l), a) for c, l, a in rungs), coq_z(els[0]), els[1]))
    guarded("box_ladder", t_box)

    def t_unbox():
        return typed("unbox_ladder", "uladder", coq_list("(%s, %s)" % (coq_z(l), a) for l, a in unbox_ladder(repo)))
    guarded("unbox_ladder", t_unbox)

    def t_factory():
        return typed("factory_rechecks_cache_after_inspect", "bool", coq_bool(factory_rechecks(repo)))
    guarded("netref_factory", t_factory)

    def t_idpack():
        f = _id_pack_facts(repo)
        return [typed("id_pack_instance", "list string", coq_list(coq_string(x) for x in f["instance"])),
                typed("id_pack_class", "list string", coq_list(coq_string(x) for x in f["class"])),
                typed("id_pack_instance_name", "string", coq_string(f["instance_name"])),
                typed("id_pack_class_name", "string", coq_string(f["class_name"])),
                typed("id_pack_netref_test_on_type", "bool", coq_bool(f["netref_test_on_type"])),
                typed("id_pack_module_test", "string", coq_string(f["module_test"])),
                typed("id_pack_module_returns", "list (list string)",
                      coq_list(coq_list(coq_string(x) for x in r) for r in f["module_returns"])),
                typed("id_pack_module_names", "list string", coq_list(coq_string(x) for x in f["module_names"])),
                typed("id_pack_undefined_names", "list string", coq_list(coq_string(x) for x in f["free_names"]))]
    guarded("id_pack", t_idpack)

    def t_copy():
        tree = parse(repo, SRC_CLASSIC)
        ob = [_u(x) for x in strip_doc(find_func(tree, "obtain").body)]
        de = [_u(x) for x in strip_doc(find_func(tree, "deliver").body)]
        conn = find_class(parse(repo, SRC), "Connection")
        hp = [_u(x) for x in strip_doc(find_func(conn, "_handle_pickle").body)]
        base = find_class(parse(repo, SRC_NETREF), "BaseNetref")
        rx = [_u(x) for x in strip_doc(find_func(base, "__reduce_ex__").body)]
        return [typed("obtain_is_loads_of_dumps", "bool", coq_bool(ob == ["return pickle.loads(pickle.dumps(proxy))"])),
                typed("deliver_is_remote_loads_of_local_dumps", "bool",
                      coq_bool(de == ["return conn.modules['rpyc.lib.compat'].pickle.loads(bytes(pickle.dumps(localobj)))"])),
                typed("netref_pickles_at_the_owner", "bool",
                      coq_bool(rx == ["return (pickle.loads, (syncreq(self, consts.HANDLE_PICKLE, proto),))"])),
                typed("handle_pickle_returns_bytes_of_dumps", "bool",
                      coq_bool(len(hp) == 2 and hp[1] == "return bytes(pickle.dumps(obj, proto))"
                               and hp[0].startswith("if not self._config['allow_pickle']:")))]
    guarded("copy", t_copy)

    def t_dumpable():
        fn = find_func(parse(repo, SRC_BRINE), "dumpable")
        b = [_u(x) for x in strip_doc(fn.body)]
        want = ["if type(obj) in simple_types:\n    return True",
                "if type(obj) in (tuple, frozenset):\n    return all((dumpable(item) for item in obj))",
                "if type(obj) is slice:\n    return dumpable(obj.start) and dumpable(obj.stop) and dumpable(obj.step)",
                "return False"]
        return typed("dumpable_tests_exact_types", "bool", coq_bool(b == want))
    guarded("dumpable", t_dumpable)

    def shapes():
        conn = find_class(parse(repo, SRC), "Connection")
        out = []
        for nm in ("_box", "_unbox", "_handle_pickle"):     # _netref_factory: translated (factory_rechecks), two forms accepted
            out.append(shape("Connection." + nm, func_shape(find_func(conn, nm))))
        tree = parse(repo, SRC_CLASSIC)
        for nm in ("obtain", "deliver"):
            out.append(shape("classic." + nm, func_shape(find_func(tree, nm))))
        out.append(shape("lib.get_id_pack", func_shape(find_func(parse(repo, SRC_LIB), "get_id_pack"))))
        return out
    guarded("shapes", shapes)
    return items
