from .core import *

SRC = "rpyc/core/brine.py"
PRELUDE = "From V Require Import model.Ladder.\n"
CMP = {ast.Eq: "LEq", ast.Lt: "LLt", ast.LtE: "LLe", ast.Gt: "LGt", ast.GtE: "LGe"}


def _tag_value(tags, node):
    if isinstance(node, ast.Name) and node.id in tags:
        return tags[node.id]
    raise Unrecognised("tag name")


def _append_arg(st):
    """stream.append(<expr>) -> expr"""
    if isinstance(st, ast.Expr) and isinstance(st.value, ast.Call) and isinstance(st.value.func, ast.Attribute) \
            and st.value.func.attr == "append" and isinstance(st.value.func.value, ast.Name) \
            and st.value.func.value.id == "stream" and len(st.value.args) == 1:
        return st.value.args[0]
    raise Unrecognised("stream.append")


def _flatten_add(e):
    if isinstance(e, ast.BinOp) and isinstance(e.op, ast.Add):
        return _flatten_add(e.left) + _flatten_add(e.right)
    return [e]


def _emit(tags, e, lenvar, payload):
    """TAG [+ Ik.pack(lenvar)] [+ payload] -> (tagvalue, field, with_payload)"""
    parts = _flatten_add(e)
    tag = _tag_value(tags, parts[0])
    field, with_payload = "LNone", False
    for p in parts[1:]:
        if isinstance(p, ast.Call) and isinstance(p.func, ast.Attribute) and p.func.attr == "pack" \
                and isinstance(p.func.value, ast.Name) and p.func.value.id in ("I1", "I4") \
                and len(p.args) == 1 and isinstance(p.args[0], ast.Name) and p.args[0].id == lenvar:
            if field != "LNone" or with_payload:
                raise Unrecognised("ladder emit order")
            field = "L" + p.func.value.id
        elif isinstance(p, ast.Name) and p.id == payload:
            with_payload = True
        else:
            raise Unrecognised("ladder emit part " + ast.dump(p))
    return tag, field, with_payload


def _ladder(tags, ifnode, lenvar, payload):
    """if lenvar <op> k: stream.append(...) elif ... else ... -> list of entries"""
    out = []
    node = ifnode
    while True:
        t = node.test
        if not (isinstance(t, ast.Compare) and len(t.ops) == 1 and isinstance(t.left, ast.Name)
                and t.left.id == lenvar and type(t.ops[0]) in CMP):
            raise Unrecognised("ladder test")
        k = const_int(t.comparators[0])
        if len(node.body) != 1:
            raise Unrecognised("ladder body")
        tag, field, wp = _emit(tags, _append_arg(node.body[0]), lenvar, payload)
        out.append((CMP[type(t.ops[0])], k, tag, field, wp))
        if len(node.orelse) == 1 and isinstance(node.orelse[0], ast.If):
            node = node.orelse[0]
            continue
        if len(node.orelse) != 1:
            raise Unrecognised("ladder else")
        tag, field, wp = _emit(tags, _append_arg(node.orelse[0]), lenvar, payload)
        out.append(("LElse", 0, tag, field, wp))
        break
    return out


def _coq_ladder(l, want_payload):
    for e in l:
        if e[4] != (want_payload and e[2] is not None and True) and want_payload is not None:
            pass
    return coq_list("(%s, %s, %s, %s)" % (c, coq_n(k), coq_n(t), f) for c, k, t, f, _ in l)


def _is_lenassign(st, var, of):
    return (isinstance(st, ast.Assign) and len(st.targets) == 1 and isinstance(st.targets[0], ast.Name)
            and st.targets[0].id == var and isinstance(st.value, ast.Call) and isinstance(st.value.func, ast.Name)
            and st.value.func.id == "len" and len(st.value.args) == 1 and isinstance(st.value.args[0], ast.Name)
            and st.value.args[0].id == of)


def _registered(tree, coll):
    out = []
    for n in tree.body:
        if isinstance(n, ast.FunctionDef):
            for d in n.decorator_list:
                if isinstance(d, ast.Call) and isinstance(d.func, ast.Name) and d.func.id == "register" \
                        and len(d.args) == 2 and isinstance(d.args[0], ast.Name) and d.args[0].id == coll:
                    out.append((d.args[1], n))
    return out


def _type_name(node):
    s = ast.unparse(node)
    return {"type(None)": "NoneType", "type(NotImplemented)": "NotImplementedType", "type(Ellipsis)": "ellipsis",
            "type(u'')": "str", "type('')": "str"}.get(s, s)


def translate(repo):
    tree = parse(repo, SRC)
    items = []
    tags = {}
    for n in tree.body:
        if isinstance(n, ast.Assign) and len(n.targets) == 1 and isinstance(n.targets[0], ast.Name) \
                and n.targets[0].id.startswith("TAG_"):
            try:
                tags[n.targets[0].id] = const_bytes1(n.value)
            except Unrecognised:
                pass
    for k, v in tags.items():
        items.append(typed(k, "N", coq_n(v)))
    items.append(typed("all_tags", "list (string * N)",
                       coq_list("(%s, %s)" % (coq_string(k), coq_n(v)) for k, v in tags.items())))

    def guarded(f):
        try:
            r = f()
            items.extend(r if isinstance(r, list) else [r])
        except Unrecognised as e:
            items.append(Item("!" + f.__name__, "failed", text=str(e)))

    def imm():
        v = find_assign(tree, "IMM_INTS")
        want = "dict(((i, bytes([i + OFF])) for i in range(LO, HI)))"
        if not (isinstance(v, ast.Call) and ast.unparse(v.func) == "dict" and len(v.args) == 1
                and isinstance(v.args[0], ast.GeneratorExp)):
            raise Unrecognised("IMM_INTS")
        g = v.args[0]
        elt, comp = g.elt, g.generators[0]
        if not (len(g.generators) == 1 and isinstance(comp.target, ast.Name) and not comp.ifs
                and isinstance(comp.iter, ast.Call) and ast.unparse(comp.iter.func) == "range"
                and len(comp.iter.args) == 2):
            raise Unrecognised("IMM_INTS range")
        i = comp.target.id
        lo, hi = const_int(comp.iter.args[0]), const_int(comp.iter.args[1])
        if not (isinstance(elt, ast.Tuple) and len(elt.elts) == 2 and ast.unparse(elt.elts[0]) == i):
            raise Unrecognised("IMM_INTS elt")
        m = re.fullmatch(r"bytes\(\[%s \+ (\w+)\]\)" % i, ast.unparse(elt.elts[1]))
        if not m:
            raise Unrecognised("IMM_INTS value")
        off = int(m.group(1), 0)
        ldr = ast.unparse(find_assign(tree, "IMM_INTS_LOADER"))
        if ldr != "dict(((v, k) for k, v in IMM_INTS.items()))":
            raise Unrecognised("IMM_INTS_LOADER")
        return [typed("imm_lo", "Z", coq_z(lo)), typed("imm_hi", "Z", coq_z(hi)), typed("imm_off", "Z", coq_z(off))]
    guarded(imm)

    def structs():
        out = []
        for nm in ("I1", "I4", "F8", "C16"):
            v = find_assign(tree, nm)
            if not (isinstance(v, ast.Call) and ast.unparse(v.func) == "Struct" and len(v.args) == 1
                    and isinstance(v.args[0], ast.Constant)):
                raise Unrecognised(nm)
            out.append((nm, v.args[0].value))
        return typed("struct_formats", "list (string * string)",
                     coq_list("(%s, %s)" % (coq_string(a), coq_string(b)) for a, b in out))
    guarded(structs)

    dumpers = {_type_name(k): fn for k, fn in _registered(tree, "_dump_registry")}
    loaders = {}
    for k, fn in _registered(tree, "_load_registry"):
        if isinstance(k, ast.Name) and k.id in tags:
            loaders[k.id] = fn
        else:
            loaders["?" + ast.unparse(k)] = fn
    items.append(typed("dump_types", "list string", coq_list(coq_string(k) for k in dumpers)))
    items.append(typed("load_tags", "list string", coq_list(coq_string(k) for k in loaders)))

    def bytes_ladder():
        fn = dumpers["bytes"]
        body = strip_doc(fn.body)
        if not (len(body) == 2 and _is_lenassign(body[0], "lenobj", "obj") and isinstance(body[1], ast.If)):
            raise Unrecognised("_dump_bytes body")
        l = _ladder(tags, body[1], "lenobj", "obj")
        # payload follows every non-empty class
        for c, k, t, f, wp in l:
            if wp != (not (c == "LEq" and k == 0)):
                raise Unrecognised("_dump_bytes payload placement")
        return typed("bytes_ladder", "list (lcmp * N * N * lfield)", _coq_ladder(l, None))
    guarded(bytes_ladder)

    def tuple_ladder():
        fn = dumpers["tuple"]
        body = strip_doc(fn.body)
        if not (len(body) == 3 and _is_lenassign(body[0], "lenobj", "obj") and isinstance(body[1], ast.If)
                and ast.unparse(body[2]) == "for item in obj:\n    _dump(item, stream)"):
            raise Unrecognised("_dump_tuple body")
        l = _ladder(tags, body[1], "lenobj", "obj")
        if any(wp for *_, wp in l):
            raise Unrecognised("_dump_tuple payload")
        return typed("tuple_ladder", "list (lcmp * N * N * lfield)", _coq_ladder(l, None))
    guarded(tuple_ladder)

    def int_rule():
        fn = dumpers["int"]
        body = strip_doc(fn.body)
        if not (len(body) == 1 and isinstance(body[0], ast.If) and ast.unparse(body[0].test) == "obj in IMM_INTS"
                and ast.unparse(body[0].body[0]) == "stream.append(IMM_INTS[obj])" and len(body[0].body) == 1):
            raise Unrecognised("_dump_int imm")
        rest = body[0].orelse
        if not (len(rest) == 3 and ast.unparse(rest[0]) == "obj = BYTES_LITERAL(str(obj))"
                and _is_lenassign(rest[1], "lenobj", "obj") and isinstance(rest[2], ast.If)):
            raise Unrecognised("_dump_int text")
        l = _ladder(tags, rest[2], "lenobj", "obj")
        if not all(wp for *_, wp in l):
            raise Unrecognised("_dump_int payload")
        return typed("int_ladder", "list (lcmp * N * N * lfield)", _coq_ladder(l, None))
    guarded(int_rule)

    def str_errors():
        fn = dumpers["str"]
        txt = ast.unparse(strip_doc(fn.body)[1]) if len(strip_doc(fn.body)) == 2 else ""
        m = re.fullmatch(r"_dump_bytes\(obj\.encode\('utf-?8'(?:, (?:errors=)?'(\w+)')?\), stream\)", txt)
        if not m or ast.unparse(strip_doc(fn.body)[0]) != "stream.append(TAG_UNICODE)":
            raise Unrecognised("_dump_str")
        enc = m.group(1) or "strict"
        lf = loaders["TAG_UNICODE"]
        lb = strip_doc(lf.body)
        m2 = re.fullmatch(r"return obj\.decode\('utf-?8'(?:, (?:errors=)?'(\w+)')?\)", ast.unparse(lb[1])) \
            if len(lb) == 2 else None
        if not m2 or ast.unparse(lb[0]) != "obj = _load(stream)":
            raise Unrecognised("_load_unicode")
        dec = m2.group(1) or "strict"
        ok = {"strict": False, "surrogatepass": True}
        if enc not in ok or dec not in ok:
            raise Unrecognised("utf8 errors mode")
        return [typed("str_encode_surrogatepass", "bool", coq_bool(ok[enc])),
                typed("str_decode_surrogatepass", "bool", coq_bool(ok[dec]))]
    guarded(str_errors)

    def simple():
        v = find_assign(tree, "simple_types")
        if not (isinstance(v, ast.Call) and ast.unparse(v.func) == "frozenset" and isinstance(v.args[0], ast.List)):
            raise Unrecognised("simple_types")
        return typed("simple_types", "list string", coq_list(coq_string(_type_name(e)) for e in v.args[0].elts))
    guarded(simple)

    # shapes of everything else
    for k, fn in dumpers.items():
        if k not in ("bytes", "tuple", "int", "str"):
            items.append(shape("dump_" + k, func_shape(fn)))
    for k, fn in loaders.items():
        if k != "TAG_UNICODE":
            items.append(shape("load_" + k, func_shape(fn)))
    for nm in ("_undumpable", "_dump", "_load", "dump", "load", "dumpable", "register"):
        try:
            items.append(shape(nm, func_shape(find_func(tree, nm))))
        except Unrecognised as e:
            items.append(Item("!" + nm, "failed", text=str(e)))
    return items
