from .core import *

SRC = "rpyc/core/stream.py"


def translate(repo):
    tree = parse(repo, SRC)
    items = []
    consts = parse(repo, "rpyc/core/consts.py")
    chunk = const_int(find_assign(consts, "STREAM_CHUNK"))
    for cname in ("SocketStream", "PipeStream"):
        cls = find_class(tree, cname)
        v = find_assign(cls, "MAX_IO_CHUNK")
        if isinstance(v, ast.Name) and v.id == "STREAM_CHUNK":
            val = chunk
        else:
            val = const_int(v)
        items.append(typed(cname + "_MAX_IO_CHUNK", "N", coq_n(val)))
        for fn in ("read", "write", "close"):
            items.append(shape("%s.%s" % (cname, fn), func_shape(find_func(cls, fn))))
    items.append(shape("retry_errnos", ast.unparse(find_assign(tree, "retry_errnos"))))
    items.append(shape("ClosedFile", func_shape(find_class(tree, "ClosedFile")) if False else ast.unparse(find_class(tree, "ClosedFile"))))
    return items
