from .core import *

SRC = "rpyc/core/stream.py"


def translate(repo):
    tree = parse(repo, SRC)
    items = []
    consts = parse(repo, "rpyc/core/consts.py")
    chunk = const_int(find_assign(consts, "STREAM_CHUNK"))
    for cname in ("SocketStream", "PipeStream"):
        cls = find_class(tree, cname)
        v = find_assign(cls, "MAX_IO_CHUNK")
        if isinstance(v, ast.Name) and v.id == "STREAM_CHUNK":
            val = chunk
        else:
            val = const_int(v)
        items.append(typed(cname + "_MAX_IO_CHUNK", "N", coq_n(val)))
        for fn in ("read", "write", "close"):
            items.append(shape("%s.%s" % (cname, fn), func_shape(find_func(cls, fn))))
    # does PipeStream.read treat would-block (EAGAIN / EWOULDBLOCK on a non-blocking pipe) as transient, like SocketStream.read?
    rd = find_func(find_class(tree, "PipeStream"), "read")
    inner = [n for n in ast.walk(rd) if isinstance(n, ast.Try) and any("os.read(" in ast.unparse(b) for b in n.body)]
    tolerant = False
    for t in inner:
        for h in t.handlers:
            hb = [ast.unparse(x) for x in h.body]
            if h.type is not None and ast.unparse(h.type) == "EnvironmentError" and hb == ["if get_exc_errno(sys.exc_info()[1]) in retry_errnos:\n    continue", "raise"]:
                tolerant = True
    items.append(typed("PipeStream_read_tolerates_wouldblock", "bool", coq_bool(tolerant)))
    items.append(typed("retry_errnos_are_again_wouldblock", "bool",
                       coq_bool(ast.unparse(find_assign(tree, "retry_errnos")) == "(errno.EAGAIN, errno.EWOULDBLOCK)")))
    # what every stream inherits: poll (used by serve / wait on all transports) and the closed tests
    base = find_class(tree, "Stream")
    for fn in ("poll", "read", "write", "close"):
        items.append(shape("Stream.%s" % fn, func_shape(find_func(base, fn))))
    for cname in ("SocketStream", "PipeStream"):
        for fn in ("closed", "fileno"):
            try:
                items.append(shape("%s.%s" % (cname, fn), func_shape(find_func(find_class(tree, cname), fn))))
            except Unrecognised:
                pass
    ctree = parse(repo, "rpyc/lib/compat.py")
    for fn in ("get_exc_errno",):
        items.append(shape("compat.%s" % fn, func_shape(find_func(ctree, fn))))
    # the poll wrappers sit inside `if hasattr(select, "poll")` / else: collect them wherever they are (an empty snapshot ties nothing)
    polls = [n for n in ast.walk(ctree) if isinstance(n, ast.ClassDef) and "poll" in n.name.lower()]
    if not polls:
        raise Unrecognised("compat: no *Poll* class found")
    items.append(shape("compat.poll_classes", "\n".join(ast.unparse(n) for n in sorted(polls, key=lambda n: n.lineno))))
    items.append(shape("compat.poll_selection", "\n".join(ast.unparse(n) for n in ctree.body if isinstance(n, (ast.If, ast.Assign)) and "poll" in ast.unparse(n).lower())[:6000]))
    ltree = parse(repo, "rpyc/lib/__init__.py")
    for fn in ("spawn", "spawn_waitready"):
        try:
            items.append(shape("lib.%s" % fn, func_shape(find_func(ltree, fn))))
        except Unrecognised:
            pass
    items.append(shape("retry_errnos", ast.unparse(find_assign(tree, "retry_errnos"))))
    # a closed stream: every use of the descriptor (poll -> fileno, read, write) raises EOFError - what makes serve()/wait() on an ended
    # connection fail at once instead of blocking (consumed by model/Lifecycle.v: wait_outcome)
    cf = find_class(tree, "ClosedFile")
    fns = {n.name: ast.unparse(n) for n in cf.body if isinstance(n, ast.FunctionDef)}
    raises = fns.get("fileno") == "def fileno(self):\n    raise EOFError('stream has been closed')" and \
        fns.get("__getattr__") == "def __getattr__(self, name):\n    if name.startswith('__'):\n        raise AttributeError('stream has been closed')\n    raise EOFError('stream has been closed')"
    swaps = all(any(ast.unparse(x) == "self.%s = ClosedFile" % attr for x in ast.walk(find_func(find_class(tree, cn), "close")) if isinstance(x, ast.Assign))
                for cn, attrs in (("SocketStream", ["sock"]), ("PipeStream", ["incoming", "outgoing"])) for attr in attrs)
    items.append(typed("closed_stream_raises_eof", "bool", coq_bool(bool(raises and swaps))))
    items.append(shape("ClosedFile", func_shape(find_class(tree, "ClosedFile")) if False else ast.unparse(find_class(tree, "ClosedFile"))))
    return items
