"""C07: what a peer can make the server do.  Every request handler body of rpyc/core/protocol.py is translated, statement
by statement, into a term of the handler language of coq/model/Hostile.v (hexp); the message / label / boxing ladders, the
handler-number table, the skeleton of _dispatch_request and RefCountingColl.__getitem__ become data.  Fail closed: a handler
that does something the language has no construct for (in particular getattr/setattr/delattr/hasattr/vars with a name that
is not a literal, or _access_attr with an inconsistent (hook, permission, builtin) triple) raises Unrecognised, the item is
absent and proofs/HostileTie.v stops compiling.

typed items (coq/gen/Gen_handlers.v), all tied in coq/proofs/HostileTie.v:
  handlers        list (string * hdef)   every _handle_* body
  dispatch        list (Z * string)      handler number -> method, from _request_handlers and consts
  msg_ladder      list (Z * dact)        the if/elif ladder of _dispatch
  unbox_ladder    list (Z * uact)        the if ladder of _unbox
  box_ladder      list (string * Z)      the if ladder of _box
  request_steps   list string            the skeleton of _dispatch_request
  getitem_plain   bool                   RefCountingColl.__getitem__ is self._dict[key][0]
  serve_all_closes bool                  serve_all ends in close() whatever happens
  const_names     list string            names the implementation itself looks up on objects it handles
shape items: _netref_factory, netref.class_factory, lib.get_id_pack, lib.get_methods (pinned, not modelled line by line)."""
from .core import *

SRC = "rpyc/core/protocol.py"
SRC_COLLS = "rpyc/lib/colls.py"
SRC_LIB = "rpyc/lib/__init__.py"
SRC_NETREF = "rpyc/core/netref.py"
SRC_CONSTS = "rpyc/core/consts.py"
PRELUDE = "From V Require Import lib.Base model.Attr model.Hostile.\nFrom V Require model.Vinegar.\nOpen Scope Z_scope.\n"

TRIPLES = {("_rpyc_getattr", "allow_getattr", "getattr"): "PGet", ("_rpyc_setattr", "allow_setattr", "setattr"): "PSet",
           ("_rpyc_delattr", "allow_delattr", "delattr"): "PDel"}
SIMPLE_OPS = {"repr": "OpRepr", "str": "OpStr", "hash": "OpHash"}
EXN = {"ValueError", "TypeError", "AttributeError", "KeyError"}


def u(n):
    return ast.unparse(n)


def consts_table(repo):
    out = {}
    for st in parse(repo, SRC_CONSTS).body:
        if isinstance(st, ast.Assign) and len(st.targets) == 1 and isinstance(st.targets[0], ast.Name):
            try:
                out[st.targets[0].id] = const_int(st.value)
            except Unrecognised:
                pass
    return out


# ---------------------------------------------------------------------- terms
# a term is a nested tuple ("XCall", f, pos, star, kw) ...; rendered to Gallina at the end

def rend(t):
    if isinstance(t, tuple):
        head = t[0]
        if len(t) == 1:
            return head
        return "(" + head + " " + " ".join(rend(x) for x in t[1:]) + ")"
    return t


def subst(t, args):
    """replace (XParam i) by args[i]; bodies with binders are not inlined"""
    if isinstance(t, tuple):
        if t[0] == "XParam":
            return args[int(t[1].split("%")[0])]
        if t[0] in ("XLet", "XLocal", "XCtxArgs"):
            raise Unrecognised("inlining a handler body that binds locals")
        return tuple([t[0]] + [subst(x, args) for x in t[1:]])
    return t


def tup(items):
    t = ("XTup0",)
    for x in reversed(items):
        t = ("XTupCons", x, t)
    return t


class Tr(object):
    def __init__(self, cls, consts, done):
        self.cls, self.consts, self.done = cls, consts, done
        self.guards = {}          # local accessor name -> (builtin it wraps, the names it serves)

    # env: name -> ("param", i) | ("local", level) | ("ctx", level)
    def var(self, name, env, depth):
        if name not in env:
            raise Unrecognised("free name %s" % name)
        k = env[name]
        if k[0] == "param":
            return ("XParam", "%d%%nat" % k[1])
        if k[0] == "local":
            return ("XLocal", "%d%%nat" % (depth - k[1] - 1))
        raise Unrecognised("name %s is part of the exc_info triple" % name)

    def const_handle(self, node):
        s = u(node)
        if s.startswith("consts.HANDLE_") and s[len("consts."):] in self.consts:
            return "%d" % self.consts[s[len("consts."):]]
        raise Unrecognised("handler constant " + s)

    def expr(self, e, env, depth):
        E = lambda x: self.expr(x, env, depth)
        if isinstance(e, ast.Name):
            if e.id == "maxint":
                return ("XMaxint",)
            return self.var(e.id, env, depth)
        if isinstance(e, ast.Constant):
            v = e.value
            if v is None:
                return ("XNone",)
            if isinstance(v, str):
                return ("XText", coq_string(v))
            if isinstance(v, int) and not isinstance(v, bool):
                return ("XInt", "(%d)" % v)
            raise Unrecognised("constant " + repr(v))
        if isinstance(e, ast.Tuple):
            if not e.elts:
                return ("XUnit",)
            return tup([E(x) for x in e.elts])
        if isinstance(e, ast.Attribute) and u(e) == "self._local_root":
            return ("XRoot",)
        if isinstance(e, ast.Subscript) and u(e.value) == "self._local_objects":
            return ("XLookup", E(e.slice))
        if isinstance(e, ast.Call):
            return self.call(e, env, depth)
        raise Unrecognised("expression " + u(e))

    def call(self, c, env, depth):
        E = lambda x: self.expr(x, env, depth)
        f = c.func
        fs = u(f)
        plain = not c.keywords and not any(isinstance(a, ast.Starred) for a in c.args)
        if fs == "self._cleanup" and not c.args and not any(isinstance(a, ast.Starred) for a in c.args) \
                and [(k.arg, u(k.value)) for k in c.keywords] in ([], [("_anyway", "False")]):
            # `_cleanup(_anyway=False)` differs from `_cleanup()` only on a side whose own close() is under way (flag already set): a
            # served side of this model is never in that state (after a cleanup nothing more is served), so both are XCleanup here;
            # the difference is C11's subject (model/Lifecycle.v: handle_close_guarded)
            return ("XCleanup",)
        if fs == "self._access_attr":
            if not plain or len(c.args) != 6:
                raise Unrecognised("_access_attr arity")
            o, n, extra, ov, pm, df = c.args
            if not (isinstance(ov, ast.Constant) and isinstance(pm, ast.Constant) and isinstance(df, ast.Name)):
                raise Unrecognised("_access_attr with a computed policy")
            guard = "None"
            dflt = df.id
            if dflt in self.guards:
                # a local accessor that serves the name only if it is in a literal tuple, and is the plain builtin otherwise
                base, names = self.guards[dflt]
                dflt, guard = base, "(Some %s)" % coq_list(coq_string(x) for x in names)
            key = (ov.value, pm.value, dflt)
            if key not in TRIPLES:
                raise Unrecognised("_access_attr with an inconsistent triple %r" % (key,))
            ex = E(extra)
            if ex == ("XUnit",):
                ex = ("XTup0",)
            return ("XAccess", TRIPLES[key], guard, E(o), E(n), ex)
        if re.fullmatch(r"self\._handle_\w+", fs):
            name = fs[len("self._handle_"):]
            if name not in self.done or not plain:
                raise Unrecognised("call of handler %s" % name)
            hmin, defaults, body = self.done[name]
            args = [E(a) for a in c.args]
            if not (hmin <= len(args) <= hmin + len(defaults)):
                raise Unrecognised("call of handler %s: arity" % name)
            args += defaults[len(args) - hmin:]
            return subst(body, args)
        if fs == "self._local_objects.decref" and plain and len(c.args) == 2:
            return ("XDecref", E(c.args[0]), E(c.args[1]))
        if fs == "type" and plain and len(c.args) == 1:
            return ("XType", E(c.args[0]))
        if fs in SIMPLE_OPS and plain and len(c.args) == 1:
            return ("XOp", SIMPLE_OPS[fs], E(c.args[0]), ("XNone",))
        if fs == "get_id_pack" and plain and len(c.args) == 1:
            return ("XOp", "OpIdPack", E(c.args[0]), ("XNone",))
        if fs == "slice" and plain and len(c.args) == 2:
            return ("XSlice", E(c.args[0]), E(c.args[1]))
        if fs == "tuple" and plain and len(c.args) == 1 and isinstance(c.args[0], ast.Call):
            inner = c.args[0]
            ifs = u(inner.func)
            iplain = not inner.keywords and not any(isinstance(a, ast.Starred) for a in inner.args)
            if ifs == "dir" and iplain and len(inner.args) == 1:
                return ("XOp", "OpDir", E(inner.args[0]), ("XNone",))
            if ifs == "itertools.islice" and iplain and len(inner.args) == 2:
                return ("XOp", "OpIslice", E(inner.args[0]), E(inner.args[1]))
            if ifs == "get_methods" and iplain and len(inner.args) == 2 and u(inner.args[0]) == "netref.LOCAL_ATTRS":
                return ("XOp", "OpGetMethods", E(inner.args[1]), ("XNone",))
            raise Unrecognised("tuple(%s)" % u(inner))
        if fs == "bytes" and plain and len(c.args) == 1 and isinstance(c.args[0], ast.Call) and u(c.args[0].func) == "pickle.dumps" \
                and len(c.args[0].args) == 2 and not c.args[0].keywords:
            return ("XOp", "OpPickle", E(c.args[0].args[0]), E(c.args[0].args[1]))
        # a call of a computed callee: f(a, b, *star, **dict(kw))
        if isinstance(f, ast.Name) and f.id not in env:
            raise Unrecognised("call of %s" % f.id)          # getattr / setattr / delattr / hasattr / vars / eval / ... by name
        if isinstance(f, ast.Attribute):
            raise Unrecognised("method call " + fs)
        pos, star, kw = [], ("XUnit",), ("XUnit",)
        ctx3 = [a.id for a in c.args if isinstance(a, ast.Name)] if plain and len(c.args) == 3 else None
        if ctx3 and all(n in env and env[n][0] == "ctx" for n in ctx3) and [env[n][2] for n in ctx3] == [0, 1, 2] \
                and len({env[n][1] for n in ctx3}) == 1:
            level = env[ctx3[0]][1]
            return ("XCall", E(f), ("XTup0",), ("XLocal", "%d%%nat" % (depth - level - 1)), ("XUnit",))
        for i, a in enumerate(c.args):
            if isinstance(a, ast.Starred):
                if i != len(c.args) - 1:
                    raise Unrecognised("star argument not last")
                star = E(a.value)
            else:
                pos.append(E(a))
        if c.keywords:
            k = c.keywords
            if not (len(k) == 1 and k[0].arg is None and isinstance(k[0].value, ast.Call) and u(k[0].value.func) == "dict"
                    and len(k[0].value.args) == 1 and not k[0].value.keywords):
                raise Unrecognised("keyword arguments " + u(c))
            kw = E(k[0].value.args[0])
        return ("XCall", E(f), tup(pos), star, kw)

    # ---- statements
    def block(self, sts, env, depth):
        if not sts:
            raise Unrecognised("block without result")
        st, rest = sts[0], sts[1:]
        B = lambda s, en=env, d=depth: self.block(s, en, d)
        # the class-cache ladder of _handle_instancecheck
        if "\n".join(u(s) for s in sts) == INSTANCECHECK_TAIL:
            return ("XOp", "OpIsinstance", self.var("obj", env, depth), self.var("other_id_pack", env, depth))
        if isinstance(st, ast.FunctionDef):
            # def NAME(cls, name): if name not in (<literal names>): raise AttributeError(..) ; return getattr(cls, name)
            b = clean(st.body)
            a = st.args
            ok = (not (a.vararg or a.kwarg or a.kwonlyargs or a.posonlyargs or a.defaults) and len(a.args) == 2 and len(b) == 2
                  and isinstance(b[0], ast.If) and not b[0].orelse and isinstance(b[0].test, ast.Compare) and len(b[0].test.ops) == 1
                  and isinstance(b[0].test.ops[0], ast.NotIn) and u(b[0].test.left) == a.args[1].arg
                  and isinstance(b[0].test.comparators[0], ast.Tuple)
                  and all(isinstance(x, ast.Constant) and isinstance(x.value, str) for x in b[0].test.comparators[0].elts)
                  and len(b[0].body) == 1 and isinstance(b[0].body[0], ast.Raise) and isinstance(b[0].body[0].exc, ast.Call)
                  and u(b[0].body[0].exc.func) == "AttributeError"
                  and u(b[1]) == "return getattr(%s, %s)" % (a.args[0].arg, a.args[1].arg))
            if not ok or st.name in env or not rest:
                raise Unrecognised("local function " + st.name)
            self.guards[st.name] = ("getattr", [x.value for x in b[0].test.comparators[0].elts])
            return self.block(rest, env, depth)
        if isinstance(st, ast.Return):
            if rest or st.value is None:
                raise Unrecognised("return")
            return self.expr(st.value, env, depth)
        if isinstance(st, ast.Expr):
            if rest:
                raise Unrecognised("expression statement followed by more")
            return self.expr(st.value, env, depth)
        if isinstance(st, ast.Assign) and len(st.targets) == 1 and isinstance(st.targets[0], ast.Name):
            v = self.expr(st.value, env, depth)
            env2 = dict(env)
            env2[st.targets[0].id] = ("local", depth)
            return ("XLet", v, self.block(rest, env2, depth + 1))
        if isinstance(st, ast.Try):
            if st.orelse or st.finalbody or len(st.handlers) != 1 or u(st.handlers[0].type or ast.Name("?")) != "Exception" or st.handlers[0].name:
                raise Unrecognised("try shape")
            hb = st.handlers[0].body
            if len(hb) == 1 and isinstance(hb[0], ast.Raise) and hb[0].exc is None:
                if rest:
                    raise Unrecognised("try/except-raise followed by more")
                return B(st.body)
            if rest:
                raise Unrecognised("try followed by more")
            return ("XTryExc", B(st.body), B(hb))
        if isinstance(st, ast.If):
            t = u(st.test)
            # if not self._config[key]: raise E(..)
            m = re.fullmatch(r"not self\._config\['(\w+)'\]", t)
            if m and not st.orelse and len(st.body) == 1 and isinstance(st.body[0], ast.Raise) and isinstance(st.body[0].exc, ast.Call) \
                    and u(st.body[0].exc.func) in EXN:
                return ("XGuardCfg", coq_string(m.group(1)), u(st.body[0].exc.func), B(rest))
            # if x is None: x = maxint
            m = re.fullmatch(r"(\w+) is None", t)
            if m and not st.orelse and len(st.body) == 1 and isinstance(st.body[0], ast.Assign) and u(st.body[0].targets[0]) == m.group(1):
                x = m.group(1)
                cur = self.var(x, env, depth)
                v = ("XIfNone", cur, self.expr(st.body[0].value, env, depth), cur)
                env2 = dict(env)
                env2[x] = ("local", depth)
                return ("XLet", v, self.block(rest, env2, depth + 1))
            # if hasattr(X, '____conn__'): conn = X.____conn__; return conn.sync_request(consts.HANDLE_Y, A)  [else: ...]
            if isinstance(st.test, ast.Call) and u(st.test.func) == "hasattr" and len(st.test.args) == 2 and u(st.test.args[1]) == "'____conn__'":
                X = st.test.args[0]
                on_type = "false"
                if isinstance(X, ast.Call) and u(X.func) == "type" and len(X.args) == 1 and not X.keywords:
                    X, on_type = X.args[0], "true"      # the test is made on the object's type
                b = st.body
                if not (len(b) == 2 and u(b[0]) == "conn = %s.____conn__" % u(X) and isinstance(b[1], ast.Return) and isinstance(b[1].value, ast.Call)
                        and u(b[1].value.func) == "conn.sync_request" and len(b[1].value.args) == 2 and not b[1].value.keywords):
                    raise Unrecognised("forwarding branch")
                fwd = ("XForward", self.expr(X, env, depth), self.const_handle(b[1].value.args[0]), self.expr(b[1].value.args[1], env, depth))
                if st.orelse:
                    if rest:
                        raise Unrecognised("if/else followed by more")
                    other = B(st.orelse)
                else:
                    other = B(rest)
                return ("XIfHasConn", on_type, self.expr(X, env, depth), fwd, other)
            # the exc_info triple of _handle_ctxexit
            forms = {CTX_IF % (x, y): (lo, al) for x, lo in (("exc", "false"), ("self._unbox_exc(exc)", "true"))
                     for y, al in (("Exception", "false"), ("BaseException", "true"))}
            if u(st) in forms:
                env2 = dict(env)
                cur = self.var("exc", env, depth)
                for i, n in enumerate(("exc", "typ", "tb")):
                    env2[n] = ("ctx", depth, i)
                load, catch_all = forms[u(st)]
                return ("XLet", ("XCtxArgs", load, catch_all, cur), self.block(rest, env2, depth + 1))
        raise Unrecognised("statement " + u(st).split("\n")[0])


CTX_IF = """if exc:
    try:
        raise %s
    except %s:
        exc, typ, tb = sys.exc_info()
else:
    typ = tb = None"""
INSTANCECHECK_TAIL = """other_id_pack2 = (other_id_pack[0], other_id_pack[1], 0)
if other_id_pack[0] in netref.builtin_classes_cache:
    cls = netref.builtin_classes_cache[other_id_pack[0]]
    other = cls(self, other_id_pack)
elif other_id_pack2 in self._netref_classes_cache:
    cls = self._netref_classes_cache[other_id_pack2]
    other = cls(self, other_id_pack2)
else:
    return False
return isinstance(other, obj)"""


def clean(body):
    """drop docstrings / bare constants (comments are not in the ast)"""
    return [s for s in body if not (isinstance(s, ast.Expr) and isinstance(s.value, ast.Constant))]


def translate_handlers(cls, consts):
    fns = [n for n in cls.body if isinstance(n, ast.FunctionDef) and n.name.startswith("_handle_")]
    done, order = {}, []
    pending = list(fns)
    # handlers that call other handlers are translated after them
    for _ in range(len(fns) + 1):
        nxt = []
        for fn in pending:
            name = fn.name[len("_handle_"):]
            a = fn.args
            if a.vararg or a.kwarg or a.kwonlyargs or a.posonlyargs or not a.args or a.args[0].arg != "self":
                raise Unrecognised("%s: signature" % fn.name)
            params = [x.arg for x in a.args[1:]]
            tr = Tr(cls, consts, done)
            try:
                defaults = [tr.expr(d, {}, 0) for d in a.defaults]
                env = {p: ("param", i) for i, p in enumerate(params)}
                body = tr.block(clean(fn.body), env, 0)
            except Unrecognised as e:
                if str(e).startswith("call of handler"):
                    nxt.append(fn)
                    continue
                raise Unrecognised("%s: %s" % (fn.name, e))
            done[name] = (len(params) - len(defaults), defaults, body)
        if not nxt:
            break
        if len(nxt) == len(pending):
            raise Unrecognised("handlers call each other in a cycle: " + ", ".join(f.name for f in nxt))
        pending = nxt
    return [(fn.name[len("_handle_"):], done[fn.name[len("_handle_"):]]) for fn in fns]


def dispatch_table(cls, consts):
    fn = find_func(cls, "_request_handlers")
    body = clean(fn.body)
    if not (len(body) == 1 and isinstance(body[0], ast.Return) and isinstance(body[0].value, ast.Dict)):
        raise Unrecognised("_request_handlers body")
    out = []
    for k, v in zip(body[0].value.keys, body[0].value.values):
        if not (isinstance(k, ast.Attribute) and u(k.value) == "consts" and k.attr in consts and isinstance(v, ast.Attribute)
                and u(v.value) == "cls" and v.attr.startswith("_handle_")):
            raise Unrecognised("_request_handlers entry %s" % u(k))
        out.append((consts[k.attr], v.attr[len("_handle_"):]))
    return sorted(out)


def label_of(test, var, consts, prefix):
    m = re.fullmatch(r"%s == consts\.(%s\w+)" % (var, prefix), u(test))
    if not m or m.group(1) not in consts:
        raise Unrecognised("ladder test " + u(test))
    return consts[m.group(1)]


def msg_ladder(cls, consts):
    fn = find_func(cls, "_dispatch")
    b = clean(fn.body)
    if not (len(b) == 2 and u(b[0]) == "msg, seq, args = brine.load(data)" and isinstance(b[1], ast.If)):
        raise Unrecognised("_dispatch body")
    out, st = [], b[1]
    acts = {"self._dispatch_request(seq, args)": "DRequest",
            "obj = self._unbox(args)\nself._seq_request_callback(msg, seq, False, obj)": "DReply",
            "obj = self._unbox_exc(args)\nself._seq_request_callback(msg, seq, True, obj)": "DException"}
    # the guarded form: both response kinds go through _dispatch_response, whose shape is checked here
    try:
        dr = find_func(cls, "_dispatch_response")
    except Unrecognised:
        dr = None
    if dr is not None:
        if [a.arg for a in dr.args.args] != ["self", "msg", "seq", "is_exc", "args"] or "\n".join(u(s) for s in clean(dr.body)) != DISPATCH_RESPONSE:
            raise Unrecognised("_dispatch_response body")
        acts["self._dispatch_response(msg, seq, False, args)"] = "DReplyG"
        acts["self._dispatch_response(msg, seq, True, args)"] = "DExceptionG"
    while True:
        body = "\n".join(u(s) for s in st.body)
        if body not in acts:
            raise Unrecognised("_dispatch branch: " + body)
        out.append((label_of(st.test, "msg", consts, "MSG_"), acts[body]))
        if len(st.orelse) == 1 and isinstance(st.orelse[0], ast.If):
            st = st.orelse[0]
            continue
        if not (len(st.orelse) == 1 and isinstance(st.orelse[0], ast.Raise) and u(st.orelse[0].exc.func) == "ValueError"):
            raise Unrecognised("_dispatch: final else")
        break
    return out


DISPATCH_RESPONSE = """try:
    obj = self._unbox_exc(args) if is_exc else self._unbox(args)
except EOFError:
    raise
except Exception:
    is_exc, obj = (True, sys.exc_info()[1])
self._seq_request_callback(msg, seq, is_exc, obj)"""


def unbox_ladder(cls, consts):
    fn = find_func(cls, "_unbox")
    b = clean(fn.body)
    if not (b and u(b[0]) == "label, value = package" and isinstance(b[-1], ast.Raise) and u(b[-1].exc.func) == "ValueError"):
        raise Unrecognised("_unbox frame")
    out = []
    for st in b[1:-1]:
        if not (isinstance(st, ast.If) and not st.orelse):
            raise Unrecognised("_unbox: " + u(st))
        lab = label_of(st.test, "label", consts, "LABEL_")
        body = "\n".join(u(s) for s in st.body)
        if body == "return value":
            act = "UValue"
        elif body == "return tuple((self._unbox(item) for item in value))":
            act = "UTuple"
        elif body == "return self._local_objects[value]":
            act = "ULocal"
        elif body == REMOTE_BRANCH:
            act = "URemote"
        else:
            raise Unrecognised("_unbox branch: " + body)
        out.append((lab, act))
    return out


REMOTE_BRANCH = """id_pack = (str(value[0]), value[1], value[2])
if id_pack in self._proxy_cache:
    proxy = self._proxy_cache[id_pack]
    proxy.____refcount__ += 1
else:
    proxy = self._netref_factory(id_pack)
    self._proxy_cache[id_pack] = proxy
return proxy"""


def box_ladder(cls, consts):
    fn = find_func(cls, "_box")
    b = clean(fn.body)
    want = [("brine.dumpable(obj)", "return (consts.LABEL_VALUE, obj)", "dumpable"),
            ("type(obj) is tuple", "return (consts.LABEL_TUPLE, tuple((self._box(item) for item in obj)))", "tuple"),
            ("isinstance(obj, netref.BaseNetref) and obj.____conn__ is self", "return (consts.LABEL_LOCAL_REF, obj.____id_pack__)", "own_netref")]
    tests = []
    if not (len(b) == 2 and isinstance(b[0], ast.If) and not b[0].orelse and isinstance(b[1], ast.If)):
        raise Unrecognised("_box frame")
    tests.append((b[0].test, b[0].body))
    st = b[1]
    tests.append((st.test, st.body))
    if not (len(st.orelse) == 1 and isinstance(st.orelse[0], ast.If)):
        raise Unrecognised("_box elif")
    st2 = st.orelse[0]
    tests.append((st2.test, st2.body))
    out = []
    for (t, body), (wt, wb, key) in zip(tests, want):
        if u(t) != wt or "\n".join(u(s) for s in body) != wb:
            raise Unrecognised("_box branch %s: %s" % (key, u(t)))
        lab = re.search(r"consts\.(LABEL_\w+)", wb).group(1)
        out.append((key, consts[lab]))
    if "\n".join(u(s) for s in st2.orelse) != "id_pack = get_id_pack(obj)\nself._local_objects.add(id_pack, obj)\nreturn (consts.LABEL_REMOTE_REF, id_pack)":
        raise Unrecognised("_box else branch")
    out.append(("else", consts["LABEL_REMOTE_REF"]))
    return out


def request_steps(cls):
    fn = find_func(cls, "_dispatch_request")
    b = clean(fn.body)
    if not (len(b) == 1 and isinstance(b[0], ast.Try) and len(b[0].handlers) == 1 and b[0].handlers[0].type is None and not b[0].finalbody):
        raise Unrecognised("_dispatch_request frame")
    t = b[0]
    steps = ["try:" + u(s) for s in t.body]
    for s in t.handlers[0].body:
        if isinstance(s, ast.If) and "logger" in u(s.test):
            continue
        if u(s) in ("self._last_traceback = tb", "logger = self._config['logger']"):
            continue
        steps.append("except:" + u(s).replace("\n", " ; "))
    steps += ["else:" + u(s) for s in t.orelse]
    return steps


def getitem_plain(repo):
    cls = find_class(parse(repo, SRC_COLLS), "RefCountingColl")
    fn = find_func(cls, "__getitem__")
    b = clean(fn.body)
    return len(b) == 1 and isinstance(b[0], ast.With) and u(b[0].items[0].context_expr) == "self._lock" \
        and [u(s) for s in b[0].body] == ["return self._dict[key][0]"]


def serve_all_closes(cls):
    """serve_all: the loop, the two handlers that only filter which errors are re-raised, and close() in `finally` whatever happens"""
    fn = find_func(cls, "serve_all")
    b = clean(fn.body)
    if not (len(b) == 1 and isinstance(b[0], ast.Try) and [u(s) for s in b[0].finalbody] == ["self.close()"]
            and [u(s) for s in b[0].body] == ["while not self.closed:\n    self.serve(None)"] and not b[0].orelse):
        return False
    hs = [(u(h.type) if h.type is not None else None, h.name, "\n".join(u(s) for s in h.body)) for h in b[0].handlers]
    return hs == [("(socket.error, select_error, IOError)", None, "if not self.closed:\n    raise"), ("EOFError", None, "pass")]


def class_lookup_mode(repo):
    """how netref.class_factory reads the peer-named class out of the module it found in sys.modules"""
    fn = find_func(parse(repo, SRC_NETREF), "class_factory")
    found = []
    for node in ast.walk(fn):
        if isinstance(node, ast.Assign) and len(node.targets) == 1 and u(node.targets[0]) == "_class":
            found.append(u(node.value))
    if found == ["getattr(_module, _class_name, None)"]:
        return "Vinegar.LkGetattr"
    if found == ["getattr(_module, '__dict__', {}).get(_class_name)"]:
        return "Vinegar.LkDict"
    raise Unrecognised("class_factory: class lookup %r" % (found,))


def class_reads_object(repo):
    """does netref.class_factory read attributes of the object it found under the peer's dotted name (an object never lent)?
    True: `hasattr(_class, '__class__')` / `_class_obj.__class__`; False: the object is accepted by a test on type(_class) only"""
    tree = parse(repo, SRC_NETREF)
    fn = find_func(tree, "class_factory")
    tests = [u(n.test) for n in ast.walk(fn) if isinstance(n, ast.If) and "_class" in u(n.test) and "_class_name" not in u(n.test)
             and "_builtin_class" not in u(n.test)]
    owner = [u(s) for s in clean(find_func(find_class(tree, "NetrefClass"), "owner").body)]
    if tests == ["_class is not None and hasattr(_class, '__class__')"] and owner == ["return self._class_obj.__class__"]:
        return True
    if tests == ["_class is not None and issubclass(type(_class), type)"] and owner == ["return type(self._class_obj)"]:
        return False
    raise Unrecognised("class_factory: acceptance test %r / NetrefClass.owner %r" % (tests, owner))


# ---------------------------------------------------------------------- constant introspection names
IMPL_NAMES = {"self", "cls", "consts", "netref", "brine", "sys", "inspect", "itertools", "pickle", "vinegar", "conn", "config", "methods", "attrs",
              "types", "slot", "accessor", "logger"}
# names that CPython builtins applied by the handlers look up on their argument
BUILTIN_LOOKUPS = {"dict": ["keys"], "isinstance": ["__class__", "__bases__"], "call-star": ["__qualname__", "__module__"],
                   "subscript": ["__class_getitem__"]}      # x[i] on a class object asks it for __class_getitem__


def const_names(repo, cls):
    """attribute names that the implementation (not the peer) chooses and that may be looked up on an object it handles for the peer"""
    names = []

    def add(n):
        if n not in names:
            names.append(n)

    def scan(fn):
        for node in ast.walk(fn):
            if isinstance(node, ast.Call) and isinstance(node.func, ast.Name) and node.func.id in ("hasattr", "getattr") and len(node.args) >= 2 \
                    and isinstance(node.args[1], ast.Constant) and isinstance(node.args[1].value, str):
                add(node.args[1].value)
            if isinstance(node, ast.Call) and u(node.func) == "self._access_attr" and len(node.args) == 6 and isinstance(node.args[3], ast.Constant):
                add(node.args[3].value)
            if isinstance(node, ast.Attribute) and isinstance(node.ctx, ast.Load):
                base = node.value
                root = base
                while isinstance(root, (ast.Attribute, ast.Subscript, ast.Call)):
                    root = root.value if not isinstance(root, ast.Call) else root.func
                if isinstance(root, ast.Name) and root.id in IMPL_NAMES and not (isinstance(base, ast.Attribute) and u(base) in ("self._local_root",)):
                    continue
                if isinstance(base, ast.Attribute) and u(base) == "self._local_root":
                    add(node.attr)
                    continue
                if node.attr.startswith("__") or node.attr.startswith("____"):
                    add(node.attr)
            if isinstance(node, ast.Call) and isinstance(node.func, ast.Name) and node.func.id in BUILTIN_LOOKUPS:
                for n in BUILTIN_LOOKUPS[node.func.id]:
                    add(n)
            if isinstance(node, ast.Subscript) and isinstance(node.ctx, ast.Load) and isinstance(node.value, ast.Name) \
                    and node.value.id not in IMPL_NAMES and fn.name.startswith("_handle_"):
                for n in BUILTIN_LOOKUPS["subscript"]:      # a handler subscripts one of its (peer-supplied) arguments
                    add(n)
            if isinstance(node, ast.Call) and any(isinstance(a, ast.Starred) for a in node.args):
                for n in BUILTIN_LOOKUPS["call-star"]:
                    add(n)
    for n in cls.body:
        if isinstance(n, ast.FunctionDef) and (n.name.startswith("_handle_") or n.name in ("_box", "_unbox", "_cleanup", "_access_attr", "_check_attr")):
            scan(n)
    lib = parse(repo, SRC_LIB)
    for nm in ("get_id_pack", "get_methods"):
        scan(find_func(lib, nm))
    return sorted(names)


def variant_facts(handlers):
    """which of the two known forms _handle_cmp / _handle_ctxexit have (the model's handlers_of is instantiated with these)"""
    d = dict(handlers)
    cmpg, ctxall = None, False

    def walk(t):
        nonlocal cmpg, ctxall
        if isinstance(t, tuple):
            if t[0] == "XAccess" and t[2] != "None":
                cmpg = t[2]
            if t[0] == "XCtxArgs" and t[2] == "true":
                ctxall = True
            for x in t[1:]:
                walk(x)
    if "cmp" in d:
        walk(d["cmp"][2])
    g = cmpg
    cmpg = None
    if "ctxexit" in d:
        walk(d["ctxexit"][2])
    return g, ctxall


def facts(repo):
    tree = parse(repo, SRC)
    cls = find_class(tree, "Connection")
    consts = consts_table(repo)
    return {"handlers": translate_handlers(cls, consts), "dispatch": dispatch_table(cls, consts), "msg_ladder": msg_ladder(cls, consts),
            "unbox_ladder": unbox_ladder(cls, consts), "box_ladder": box_ladder(cls, consts), "request_steps": request_steps(cls),
            "getitem_plain": getitem_plain(repo), "serve_all_closes": serve_all_closes(cls), "const_names": const_names(repo, cls),
            "class_lookup_mode": class_lookup_mode(repo), "class_reads_object": class_reads_object(repo), "variants": variant_facts(translate_handlers(cls, consts))}


def translate(repo):
    items = []

    def guarded(name, f):
        try:
            r = f()
            items.extend(r if isinstance(r, list) else [r])
        except Unrecognised as e:
            items.append(Item("!" + name, "failed", text=str(e)))
        except Exception as e:      # a source the translator cannot even walk: still fail closed
            items.append(Item("!" + name, "failed", text="%s: %s" % (type(e).__name__, e)))
    tree = parse(repo, SRC)
    cls = find_class(tree, "Connection")
    consts = consts_table(repo)

    def hdef(d):
        hmin, defaults, body = d
        return "{| h_min := %d%%nat; h_defaults := %s; h_body := %s |}" % (hmin, coq_list(rend(x) for x in defaults), rend(body))
    guarded("handlers", lambda: typed("handlers", "list (string * hdef)",
                                      coq_list("(%s, %s)" % (coq_string(n), hdef(d)) for n, d in translate_handlers(cls, consts))))
    def variants():
        g, ctxall = variant_facts(translate_handlers(cls, consts))
        return [typed("cmp_guard", "option (list string)", g or "None"), typed("ctx_catches_all", "bool", coq_bool(ctxall))]
    guarded("variants", variants)
    guarded("dispatch", lambda: typed("dispatch", "list (Z * string)",
                                      coq_list("(%d, %s)" % (z, coq_string(n)) for z, n in dispatch_table(cls, consts))))
    guarded("msg_ladder", lambda: typed("msg_ladder", "list (Z * dact)", coq_list("(%d, %s)" % p for p in msg_ladder(cls, consts))))
    guarded("unbox_ladder", lambda: typed("unbox_ladder", "list (Z * uact)", coq_list("(%d, %s)" % p for p in unbox_ladder(cls, consts))))
    guarded("box_ladder", lambda: typed("box_ladder", "list (string * Z)",
                                        coq_list("(%s, %d)" % (coq_string(k), z) for k, z in box_ladder(cls, consts))))
    guarded("request_steps", lambda: typed("request_steps", "list string", coq_list(coq_string(s) for s in request_steps(cls))))
    guarded("getitem_plain", lambda: typed("getitem_plain", "bool", coq_bool(getitem_plain(repo))))
    guarded("serve_all_closes", lambda: typed("serve_all_closes", "bool", coq_bool(serve_all_closes(cls))))
    guarded("class_lookup_mode", lambda: typed("class_lookup_mode", "Vinegar.lookup_mode", class_lookup_mode(repo)))
    guarded("class_reads_object", lambda: typed("class_reads_object", "bool", coq_bool(class_reads_object(repo))))
    guarded("const_names", lambda: typed("const_names", "list string", coq_list(coq_string(s) for s in const_names(repo, cls))))

    def shapes():
        out = [shape("Connection._netref_factory", func_shape(find_func(cls, "_netref_factory"))),
               shape("Connection._unbox_exc", func_shape(find_func(cls, "_unbox_exc"))),
               shape("Connection._cleanup", func_shape(find_func(cls, "_cleanup")))]
        nt = parse(repo, SRC_NETREF)
        out.append(shape("netref.class_factory", func_shape(find_func(nt, "class_factory"))))
        lib = parse(repo, SRC_LIB)
        out.append(shape("lib.get_id_pack", func_shape(find_func(lib, "get_id_pack"))))
        out.append(shape("lib.get_methods", func_shape(find_func(lib, "get_methods"))))
        return out
    guarded("shapes", shapes)
    return items
