"""rpyc/core/netref.py (+ the request handlers of rpyc/core/protocol.py, buffiter of rpyc/utils/helpers.py, get_methods of
rpyc/lib/__init__.py): the forwarding layer as Gallina tables and functions over the types of model/ProxyOps.v.

Python -> Gallina:
  LOCAL_ATTRS / DELETED_ATTRS                 list string (source order; LOCAL_ATTRS = literal ++ DELETED_ATTRS)
  BaseNetref.<m>(self, p0, p1 ..):            (m, MSync "HANDLE_X" [MParam i | MConst "lit"] WNone|WList)
      return [list(]syncreq(self, consts.HANDLE_X, a..)[)]
  __getattribute__/__getattr__/__setattr__/__delattr__   string -> aroute, expression by expression:
      name in LOCAL_ATTRS -> smem name local_attrs ; name in DELETED_ATTRS -> smem name deleted_attrs ; name == "lit" -> String.eqb name "lit"
      leaves: syncreq(self, consts.H, name[, value]) -> ARSync "H" [MParam 0[; MParam 1]] ; object.__xxx__(self, name ...) -> ARObject ;
              self.__getattr__("lit") -> ARGetattr "lit" ; raise AttributeError() -> ARRaise ; the __class__ block -> ARClass
      `if name not in LOCAL_ATTRS: raise AttributeError(..)` in __getattr__ (the repaired shape) -> the guarded form of the model
  _make_method                                string -> made (the four shapes)
  class_factory's loop                        class_factory_skips_local : bool
  Connection._handle_*                        (HANDLE_X, hbody) by exact normalised text of the body
  buffiter                                    buff_skel record
Anything else fails closed."""
from .core import *

SRC = "rpyc/core/netref.py"
PRELUDE = "From V Require Import lib.Base model.Attr model.ProxyOps.\nOpen Scope bool_scope.\n"


def _u(n):
    return ast.unparse(n)


def _handle_const(node):
    s = _u(node)
    if not s.startswith("consts.HANDLE_"):
        raise Unrecognised("handler constant: " + s)
    return s[len("consts."):]


def _is_syncreq(call, selfname):
    return isinstance(call, ast.Call) and _u(call.func) == "syncreq" and not call.keywords and len(call.args) >= 2 \
        and _u(call.args[0]) == selfname


def _marg(node, params, extra=None):
    if isinstance(node, ast.Name) and node.id in params:
        return "MParam %d" % params.index(node.id)
    if isinstance(node, ast.Constant) and isinstance(node.value, str):
        return "MConst %s" % coq_string(node.value)
    if extra and isinstance(node, ast.Name) and node.id in extra:
        return extra[node.id]
    raise Unrecognised("syncreq argument: " + _u(node))


def _body(fn):
    return [s for s in strip_doc(fn.body) if not (isinstance(s, ast.Expr) and isinstance(s.value, ast.Constant))]


# ------------------------------------------------------------------ BaseNetref simple methods

EXIT_ORIGINAL = "return syncreq(self, consts.HANDLE_CTXEXIT, exc)"


def simple_method(fn):
    """-> (coq mroute, delivers-by-value flag or None)"""
    params = [a.arg for a in fn.args.args]
    if not params or fn.args.vararg or fn.args.kwarg or fn.args.kwonlyargs or fn.args.defaults:
        raise Unrecognised("signature of %s" % fn.name)
    selfname, params = params[0], params[1:]
    body = _body(fn)
    if fn.name == "__exit__":
        return exit_method(fn, selfname, params, body)
    if len(body) != 1 or not isinstance(body[0], ast.Return):
        raise Unrecognised("body of %s" % fn.name)
    v = body[0].value
    wrap = "WNone"
    if isinstance(v, ast.Call) and _u(v.func) == "list" and len(v.args) == 1 and not v.keywords:
        v, wrap = v.args[0], "WList"
    if not _is_syncreq(v, selfname):
        raise Unrecognised("body of %s" % fn.name)
    args = [_marg(a, params) for a in v.args[2:]]
    return "MSync %s %s %s" % (coq_string(_handle_const(v.args[1])), coq_list(args), wrap), None


def exit_method(fn, selfname, params, body):
    """__exit__(self, <type>, <value>, <tb>): Python passes the class first.
    original: return syncreq(self, consts.HANDLE_CTXEXIT, <first parameter>)          -> a reference to the caller's class travels
    repaired: the exception travels by value:  syncreq(self, consts.HANDLE_CTXEXIT, None if <first> is None else <conn>._box_exc(<first>, <second>, <third>))"""
    if len(params) != 3:
        raise Unrecognised("__exit__ signature")
    if len(body) == 1 and isinstance(body[0], ast.Return) and _is_syncreq(body[0].value, selfname) \
            and _handle_const(body[0].value.args[1]) == "HANDLE_CTXEXIT" and len(body[0].value.args) == 3:
        a = body[0].value.args[2]
        if isinstance(a, ast.Name) and a.id == params[0]:
            return 'MSync "HANDLE_CTXEXIT"%string [MParam 0] WNone', False
    # repaired shape: optional `conn = object.__getattribute__(self, "____conn__")`, then the return
    st = list(body)
    conn = None
    if len(st) == 2 and isinstance(st[0], ast.Assign) and _u(st[0].value) == "object.__getattribute__(%s, '____conn__')" % selfname:
        conn = _u(st[0].targets[0])
        st = st[1:]
    if len(st) == 1 and isinstance(st[0], ast.Return) and _is_syncreq(st[0].value, selfname) and len(st[0].value.args) == 3 \
            and _handle_const(st[0].value.args[1]) == "HANDLE_CTXEXIT" and conn:
        want = "None if %s is None else %s._box_exc(%s, %s, %s)" % (params[0], conn, params[0], params[1], params[2])
        if _u(st[0].value.args[2]) == want:
            return 'MSync "HANDLE_CTXEXIT"%string [MParam 0] WNone', True
    raise Unrecognised("body of __exit__")


# ------------------------------------------------------------------ attribute methods

CLASS_BLOCK = ["cls = object.__getattribute__(self, '__class__')", "if cls is None:\n    cls = self.__getattr__('__class__')", "return cls"]


def _test(t, name):
    if isinstance(t, ast.Compare) and len(t.ops) == 1 and isinstance(t.left, ast.Name) and t.left.id == name:
        c = t.comparators[0]
        if isinstance(t.ops[0], ast.In) and isinstance(c, ast.Name) and c.id == "LOCAL_ATTRS":
            return "smem %s local_attrs" % name, None
        if isinstance(t.ops[0], ast.In) and isinstance(c, ast.Name) and c.id == "DELETED_ATTRS":
            return "smem %s deleted_attrs" % name, None
        if isinstance(t.ops[0], ast.NotIn) and isinstance(c, ast.Name) and c.id == "LOCAL_ATTRS":
            return "negb (smem %s local_attrs)" % name, None
        if isinstance(t.ops[0], ast.Eq) and isinstance(c, ast.Constant) and isinstance(c.value, str):
            return "String.eqb %s %s" % (name, coq_string(c.value)), c.value
    raise Unrecognised("attribute test: " + _u(t))


def _leaf(stmts, selfname, params, lit):
    name = params[0]
    if [_u(s) for s in stmts] == CLASS_BLOCK and lit == "__class__":
        return "ARClass"
    if len(stmts) != 1:
        raise Unrecognised("attribute leaf: " + "; ".join(_u(s) for s in stmts))
    s = stmts[0]
    if isinstance(s, ast.Raise) and s.exc is not None and _u(s.exc) in ("AttributeError()", "AttributeError(%s)" % name) and s.cause is None:
        return "ARRaise"
    v = s.value if isinstance(s, (ast.Return, ast.Expr)) else None
    if v is None or not isinstance(v, ast.Call):
        raise Unrecognised("attribute leaf: " + _u(s))
    if _is_syncreq(v, selfname):
        return "ARSync %s %s" % (coq_string(_handle_const(v.args[1])), coq_list(_marg(a, params) for a in v.args[2:]))
    f = _u(v.func)
    if f in ("object.__getattribute__", "object.__setattr__", "object.__delattr__") and not v.keywords and _u(v.args[0]) == selfname:
        rest = v.args[1:]
        first_ok = (isinstance(rest[0], ast.Name) and rest[0].id == name) or \
                   (lit is not None and isinstance(rest[0], ast.Constant) and rest[0].value == lit)
        if first_ok and [(_u(a)) for a in rest[1:]] == params[1:]:
            return "ARObject"
    if f == "%s.__getattr__" % selfname and len(v.args) == 1 and isinstance(v.args[0], ast.Constant) and isinstance(s, ast.Return):
        return "ARGetattr %s" % coq_string(v.args[0].value)
    raise Unrecognised("attribute leaf: " + _u(s))


def _terminates(stmts):
    return bool(stmts) and isinstance(stmts[-1], (ast.Return, ast.Raise))


def attr_body(stmts, selfname, params, lit=None):
    """a statement list as a Gallina expression of type aroute"""
    if stmts and isinstance(stmts[0], ast.If):
        test, l = _test(stmts[0].test, params[0])
        then = attr_body(stmts[0].body, selfname, params, l if l is not None else lit)
        if stmts[0].orelse:
            if len(stmts) != 1:
                raise Unrecognised("statements after if/else")
            els = attr_body(stmts[0].orelse, selfname, params, lit)
        else:
            if not _terminates(stmts[0].body) or len(stmts) < 2:
                raise Unrecognised("if without else that falls through")
            els = attr_body(stmts[1:], selfname, params, lit)
        return "if %s then %s else %s" % (test, then, els)
    return _leaf(stmts, selfname, params, lit)


def attr_method(fn):
    ps = [a.arg for a in fn.args.args]
    if len(ps) < 2 or fn.args.vararg or fn.args.kwarg or fn.args.defaults:
        raise Unrecognised("signature of %s" % fn.name)
    return "fun %s : string => %s" % (ps[1], attr_body(_body(fn), ps[0], ps[1:]))


GETATTR_ORIGINAL = 'fun name : string => if smem name deleted_attrs then ARRaise else ARSync "HANDLE_GETATTR"%string [MParam 0]'
GETATTR_REPAIRED = ('fun name : string => if smem name deleted_attrs then ARRaise else if negb (smem name local_attrs) then ARRaise '
                    'else ARSync "HANDLE_GETATTR"%string [MParam 0]')

# ------------------------------------------------------------------ _make_method

OLDSLICE = ("def method(self, start, stop, *args):\n    if stop == maxint:\n        stop = None\n"
            "    return syncreq(self, consts.HANDLE_OLDSLICING, slicers[name], name, start, stop, args)")
PICKLE = "def __array__(self):\n    return pickle.loads(syncreq(self, consts.HANDLE_PICKLE, -1))"


def made_of(branch):
    fns = [s for s in branch if isinstance(s, ast.FunctionDef)]
    rets = [s for s in branch if isinstance(s, ast.Return)]
    if len(fns) != 1 or len(rets) != 1 or _u(rets[0].value) != fns[0].name:
        raise Unrecognised("_make_method branch")
    for s in branch:
        if s is fns[0] or s is rets[0]:
            continue
        if not (isinstance(s, ast.Assign) and _u(s.targets[0]).startswith(fns[0].name + ".__")):
            raise Unrecognised("_make_method branch statement: " + _u(s))
    fn = fns[0]
    text = func_shape(fn)
    if text == OLDSLICE:
        return "MkOldSlice"
    if text == PICKLE:
        return "MkPickle"
    a = fn.args
    if not (len(a.args) == 1 and a.vararg and a.kwarg and not a.defaults and not a.kwonlyargs):
        raise Unrecognised("_make_method inner signature")
    selfname, va, kw = a.args[0].arg, a.vararg.arg, a.kwarg.arg
    body = _body(fn)
    if len(body) != 2 or _u(body[0]) != "%s = tuple(%s.items())" % (kw, kw) or not isinstance(body[1], ast.Return) \
            or not _is_syncreq(body[1].value, selfname):
        raise Unrecognised("_make_method inner body")
    extra = {va: "MArgs", kw: "MKwItems", "name": "MConst name"}
    args = [_marg(x, [], extra) for x in body[1].value.args[2:]]
    return "MkSync %s %s" % (coq_string(_handle_const(body[1].value.args[1])), coq_list(args))


def make_method(fn):
    if [a.arg for a in fn.args.args] != ["name", "doc"]:
        raise Unrecognised("_make_method signature")
    body = _body(fn)
    if len(body) != 3 or not isinstance(body[0], ast.Assign) or _u(body[0].targets[0]) != "slicers" or not isinstance(body[0].value, ast.Dict) \
            or _u(body[1]) != "name = str(name)" or not isinstance(body[2], ast.If):
        raise Unrecognised("_make_method body")
    slicers = [k.value for k in body[0].value.keys]

    def chain(node):
        t = node.test
        if _u(t) == "name in slicers":
            test = "smem name slicers"
        else:
            test, _ = _test(t, "name")
        then = made_of(node.body)
        if len(node.orelse) == 1 and isinstance(node.orelse[0], ast.If):
            els = chain(node.orelse[0])
        else:
            els = made_of(node.orelse)
        return "if %s then %s else %s" % (test, then, els)
    return slicers, "fun name : string => " + chain(body[2])


# ------------------------------------------------------------------ request handlers (protocol.py)

HANDLERS = {
    "_handle_repr": ("def _handle_repr(self, obj):\n    return repr(obj)", 'HBuiltin "repr"%string'),
    "_handle_str": ("def _handle_str(self, obj):\n    return str(obj)", 'HBuiltin "str"%string'),
    "_handle_hash": ("def _handle_hash(self, obj):\n    return hash(obj)", 'HBuiltin "hash"%string'),
    "_handle_dir": ("def _handle_dir(self, obj):\n    return tuple(dir(obj))", "HTupleDir"),
    "_handle_getattr": ("def _handle_getattr(self, obj, name):\n    return self._access_attr(obj, name, (), '_rpyc_getattr', 'allow_getattr', getattr)",
                        'HAccess "_rpyc_getattr"%string "allow_getattr"%string "getattr"%string 0'),
    "_handle_delattr": ("def _handle_delattr(self, obj, name):\n    return self._access_attr(obj, name, (), '_rpyc_delattr', 'allow_delattr', delattr)",
                        'HAccess "_rpyc_delattr"%string "allow_delattr"%string "delattr"%string 0'),
    "_handle_setattr": ("def _handle_setattr(self, obj, name, value):\n    return self._access_attr(obj, name, (value,), '_rpyc_setattr', 'allow_setattr', setattr)",
                        'HAccess "_rpyc_setattr"%string "allow_setattr"%string "setattr"%string 1'),

    "_handle_call": ("def _handle_call(self, obj, args, kwargs=()):\n    return obj(*args, **dict(kwargs))", "HCallObj"),
    "_handle_buffiter": ("def _handle_buffiter(self, obj, count):\n    return tuple(itertools.islice(obj, count))", "HIslice"),
}
# the two handlers behind operators, in the original form and in the form that completes the binary-operator protocol on the
# owner's side (self._reflect) -- both or neither
CMP_ORIGINAL = ("def _handle_cmp(self, obj, other, op='__cmp__'):\n    try:\n        return self._access_attr(type(obj), op, (), '_rpyc_getattr', 'allow_getattr', getattr)(obj, other)\n"
                "    except Exception:\n        raise")
CMP_REFLECTING = ("def _handle_cmp(self, obj, other, op='__cmp__'):\n    try:\n        return self._reflect(obj, op, (other,), self._access_attr(type(obj), op, (), '_rpyc_getattr', 'allow_getattr', getattr)(obj, other))\n"
                  "    except Exception:\n        raise")
# the comparison route restricted to the comparison names (the accessor is getattr for exactly the names a proxy ever sends on this
# route - BaseNetref's __cmp__/__eq__/__ne__/__lt__/__le__/__gt__/__ge__ - and refuses every other name): for the operations of
# this model the same handler
_CMP_GUARD = ("\n\n    def getcmp(cls, name):\n        if name not in ('__cmp__', '__eq__', '__ne__', '__lt__', '__le__', '__gt__', '__ge__'):\n"
              "            raise AttributeError('cannot access %r' % (name,))\n        return getattr(cls, name)")
def _guarded(form):
    return form.replace("op='__cmp__'):", "op='__cmp__'):" + _CMP_GUARD, 1).replace("'allow_getattr', getattr)", "'allow_getattr', getcmp)", 1)
CALLATTR_ORIGINAL = "def _handle_callattr(self, obj, name, args, kwargs=()):\n    obj = self._handle_getattr(obj, name)\n    return self._handle_call(obj, args, kwargs)"
CALLATTR_REFLECTING = ("def _handle_callattr(self, obj, name, args, kwargs=()):\n    res = self._handle_call(self._handle_getattr(obj, name), args, kwargs)\n"
                       "    return res if kwargs else self._reflect(obj, name, args, res)")
REFLECT = ("def _reflect(self, obj, name, args, res):\n    if res is NotImplemented and name in _REFLECTED and (len(args) == 1) and brine.dumpable(args[0]):\n"
           "        reflected = getattr(type(args[0]), _REFLECTED[name], None)\n        if reflected is not None:\n            return reflected(args[0], obj)\n    return res")
CTXEXIT_ORIGINAL = ("def _handle_ctxexit(self, obj, exc):\n    if exc:\n        try:\n            raise exc\n        except Exception:\n"
                    "            exc, typ, tb = sys.exc_info()\n    else:\n        typ = tb = None\n    return self._handle_getattr(obj, '__exit__')(exc, typ, tb)")
CTXEXIT_REPAIRED = ("def _handle_ctxexit(self, obj, exc):\n    if exc:\n        try:\n            raise self._unbox_exc(exc)\n        except Exception:\n"
                    "            exc, typ, tb = sys.exc_info()\n    else:\n        typ = tb = None\n    return self._handle_getattr(obj, '__exit__')(exc, typ, tb)")


def handlers(repo, shapes):
    tree = parse(repo, "rpyc/core/protocol.py")
    cls = find_class(tree, "Connection")
    rh = find_func(cls, "_request_handlers")
    ret = strip_doc(rh.body)[0]
    if not (isinstance(ret, ast.Return) and isinstance(ret.value, ast.Dict)):
        raise Unrecognised("_request_handlers")
    table = {}
    for k, v in zip(ret.value.keys, ret.value.values):
        table[_u(v)[len("cls."):]] = _u(k)[len("consts."):]
    out, bad = [], []
    for meth, (text, term) in HANDLERS.items():
        got = func_shape(find_func(cls, meth))
        shapes[meth] = got
        if got != text:
            bad.append(meth)
        elif meth not in table:
            bad.append(meth + " (not in _request_handlers)")
        else:
            out.append((table[meth], term))
    got = func_shape(find_func(cls, "_handle_ctxexit"))
    shapes["_handle_ctxexit"] = got
    # which classes the `raise` that turns the exception into exc_info is guarded against: Exception (KeyboardInterrupt, SystemExit,
    # GeneratorExit escape the handler, __exit__ is never called) or BaseException
    CTXEXIT_REPAIRED_BASE = CTXEXIT_REPAIRED.replace("except Exception:", "except BaseException:")
    raises_unboxed = got in (CTXEXIT_REPAIRED, CTXEXIT_REPAIRED_BASE)
    catches_base = got == CTXEXIT_REPAIRED_BASE
    if got not in (CTXEXIT_ORIGINAL, CTXEXIT_REPAIRED, CTXEXIT_REPAIRED_BASE):
        bad.append("_handle_ctxexit")
    # operators
    cmp_, call_ = func_shape(find_func(cls, "_handle_cmp")), func_shape(find_func(cls, "_handle_callattr"))
    shapes["_handle_cmp"], shapes["_handle_callattr"] = cmp_, call_
    reflects, table_items = False, []
    if cmp_ in (_guarded(CMP_ORIGINAL), _guarded(CMP_REFLECTING)):
        cmp_ = CMP_ORIGINAL if cmp_ == _guarded(CMP_ORIGINAL) else CMP_REFLECTING
    if (cmp_, call_) == (CMP_ORIGINAL, CALLATTR_ORIGINAL):
        if any(isinstance(n, ast.FunctionDef) and n.name == "_reflect" for n in cls.body):
            bad.append("_reflect (defined but not used by both operator handlers)")
    elif (cmp_, call_) == (CMP_REFLECTING, CALLATTR_REFLECTING):
        try:
            rf = func_shape(find_func(cls, "_reflect"))
        except Unrecognised:
            rf = None
        shapes["_reflect"] = rf or "<missing>"
        if rf is None or ast.dump(ast.parse(rf)) != ast.dump(ast.parse(REFLECT)):
            bad.append("_reflect")
        else:
            d = find_assign(tree, "_REFLECTED")
            if not (isinstance(d, ast.Dict) and all(isinstance(k, ast.Constant) and isinstance(v, ast.Constant) and isinstance(k.value, str)
                                                    and isinstance(v.value, str) for k, v in zip(d.keys, d.values))):
                bad.append("_REFLECTED")
            else:
                reflects, table_items = True, [(k.value, v.value) for k, v in zip(d.keys, d.values)]
    else:
        bad.append("_handle_cmp/_handle_callattr (one completes the operator protocol, the other does not, or neither form)")
    if "_handle_cmp" in table and "_handle_callattr" in table:
        out.append((table["_handle_cmp"], 'HCmpType "_rpyc_getattr"%string "allow_getattr"%string "getattr"%string reflects'))
        out.append((table["_handle_callattr"], "HGetThenCall reflects"))
    else:
        bad.append("operator handlers not in _request_handlers")
    if bad:
        raise Unrecognised("body of " + ", ".join(bad))
    return out, table["_handle_ctxexit"], raises_unboxed, reflects, table_items, catches_base


# ------------------------------------------------------------------ buffiter (helpers.py)

BUFFITER = ("def buffiter(obj, chunk=10, max_chunk=1000, factor=2):\n    if factor < 1:\n        raise ValueError('factor must be >= 1, got %r' % (factor,))\n"
            "    it = iter(obj)\n    count = chunk\n    while True:\n        items = syncreq(it, HANDLE_BUFFITER, count)\n        count = min(count * factor, max_chunk)\n"
            "        if not items:\n            break\n        for elem in items:\n            yield elem")


def buff_skel(repo):
    tree = parse(repo, "rpyc/utils/helpers.py")
    fn = find_func(tree, "buffiter")
    b = _body(fn)
    shape_text = func_shape(fn)
    # repaired shape: after `it = iter(obj)` a local iterator (object iterable only through __getitem__) is simply drained
    LOCAL_FALLBACK = "if not isinstance(it, BaseNetref):\n    for elem in it:\n        yield elem\n    return"
    if len(b) == 5 and _u(b[2]) == LOCAL_FALLBACK:
        b = b[:2] + b[3:]
    if [a.arg for a in fn.args.args] != ["obj", "chunk", "max_chunk", "factor"] or len(b) != 4:
        raise Unrecognised("buffiter")
    guard = isinstance(b[0], ast.If) and _u(b[0].test) == "factor < 1" and len(b[0].body) == 1 and isinstance(b[0].body[0], ast.Raise) \
        and _u(b[0].body[0].exc.func) == "ValueError" and not b[0].orelse
    it_first = _u(b[1]) == "it = iter(obj)"
    init = _u(b[2]) == "count = chunk"
    w = b[3]
    if not (isinstance(w, ast.While) and _u(w.test) == "True" and len(w.body) == 4 and not w.orelse):
        raise Unrecognised("buffiter loop")
    fetch = w.body[0]
    if not (isinstance(fetch, ast.Assign) and _u(fetch.targets[0]) == "items" and isinstance(fetch.value, ast.Call) and _u(fetch.value.func) == "syncreq"
            and [_u(a) for a in fetch.value.args[::2]] == ["it", "count"] and len(fetch.value.args) == 3):
        raise Unrecognised("buffiter fetch")
    handler = _u(fetch.value.args[1])
    nxt = _u(w.body[1]) == "count = min(count * factor, max_chunk)"
    stop = _u(w.body[2]) == "if not items:\n    break"
    ys = _u(w.body[3]) == "for elem in items:\n    yield elem"
    term = ("{| bk_factor_below_one_raises := %s; bk_iter_first := %s; bk_init_is_chunk := %s; bk_fetch_handler := %s; "
            "bk_next_is_min_mul := %s; bk_stop_on_empty := %s; bk_yields_each := %s |}"
            % (coq_bool(guard), coq_bool(it_first), coq_bool(init), coq_string(handler), coq_bool(nxt), coq_bool(stop), coq_bool(ys)))
    return term, shape_text


GET_METHODS = ("def get_methods(obj_attrs, obj):\n    methods = {}\n    attrs = {}\n    if isinstance(obj, type):\n"
               "        mros = list(reversed(type(obj).__mro__)) + list(reversed(obj.__mro__))\n    else:\n        mros = reversed(type(obj).__mro__)\n"
               "    for basecls in mros:\n        attrs.update(basecls.__dict__)\n    for name, attr in attrs.items():\n"
               "        if name not in obj_attrs and hasattr(attr, '__call__'):\n            methods[name] = inspect.getdoc(attr)\n    return methods.items()")


def translate(repo):
    tree = parse(repo, SRC)
    items = []

    def guarded(f):
        try:
            r = f()
            items.extend(r if isinstance(r, list) else [r])
        except Unrecognised as e:
            items.append(Item("!" + f.__name__, "failed", text=str(e)))

    # ---- name sets
    def name_sets():
        d = find_assign(tree, "DELETED_ATTRS")
        if not (isinstance(d, ast.Call) and _u(d.func) == "frozenset" and len(d.args) == 1 and isinstance(d.args[0], ast.List)):
            raise Unrecognised("DELETED_ATTRS")
        deleted = [e.value for e in d.args[0].elts]
        l = find_assign(tree, "LOCAL_ATTRS")
        if not (isinstance(l, ast.BinOp) and isinstance(l.op, ast.BitOr) and _u(l.right) == "DELETED_ATTRS" and isinstance(l.left, ast.Call)
                and _u(l.left.func) == "frozenset" and isinstance(l.left.args[0], ast.List)):
            raise Unrecognised("LOCAL_ATTRS")
        local = [e.value for e in l.left.args[0].elts]
        if not all(isinstance(x, str) for x in deleted + local):
            raise Unrecognised("attribute names")
        return [typed("deleted_attrs", "list string", coq_list(coq_string(x) for x in deleted)),
                typed("local_attrs", "list string", "(%s ++ deleted_attrs)%%list" % coq_list(coq_string(x) for x in local))]
    guarded(name_sets)

    base = find_class(tree, "BaseNetref")
    facts = {}

    # ---- BaseNetref methods
    def base_methods():
        special = {"__init__", "__del__", "__getattribute__", "__getattr__", "__delattr__", "__setattr__", "__reduce_ex__", "__instancecheck__"}
        rows = []
        for n in base.body:
            if isinstance(n, ast.FunctionDef) and n.name not in special:
                term, delivers = simple_method(n)
                if delivers is not None:
                    facts["exit_by_value"] = delivers
                rows.append("(%s, %s)" % (coq_string(n.name), term))
        others = [n.name for n in base.body if isinstance(n, ast.FunctionDef) and n.name in special]
        if sorted(others) != sorted(special):
            raise Unrecognised("BaseNetref members: " + ", ".join(others))
        return typed("base_methods", "list (string * mroute)", coq_list(rows))
    guarded(base_methods)

    def attribute_methods():
        out = []
        ga = attr_method(find_func(base, "__getattr__"))
        if ga == GETATTR_ORIGINAL:
            facts["getattr_repeats"] = True
        elif ga == GETATTR_REPAIRED:
            facts["getattr_repeats"] = False
        else:
            raise Unrecognised("__getattr__: " + ga)
        out.append(typed("getattribute_route", "string -> aroute", attr_method(find_func(base, "__getattribute__"))))
        out.append(typed("getattr_route", "string -> aroute", ga))
        out.append(typed("delattr_route", "string -> aroute", attr_method(find_func(base, "__delattr__"))))
        out.append(typed("setattr_route", "string -> aroute", attr_method(find_func(base, "__setattr__"))))
        out.append(typed("getattr_repeats_request", "bool", coq_bool(facts["getattr_repeats"])))
        return out
    guarded(attribute_methods)

    def syncreq_shape():
        fn = find_func(tree, "syncreq")
        b = [_u(s) for s in _body(fn)]
        ok = b == ["conn = object.__getattribute__(proxy, '____conn__')", "return conn.sync_request(handler, proxy, *args)"]
        return typed("syncreq_sends_proxy_first", "bool", coq_bool(ok))
    guarded(syncreq_shape)

    def mk():
        slicers, term = make_method(find_func(tree, "_make_method"))
        return [typed("slicers", "list string", coq_list(coq_string(x) for x in slicers)),
                typed("make_method", "string -> made", term)]
    guarded(mk)

    def factory():
        fn = find_func(tree, "class_factory")
        loops = [s for s in fn.body if isinstance(s, ast.For) and _u(s.target) in ("name, doc", "(name, doc)") and _u(s.iter) == "methods"]
        if len(loops) != 1:
            raise Unrecognised("class_factory loop")
        b = [_u(s) for s in loops[0].body if not (isinstance(s, ast.Expr) and isinstance(s.value, ast.Constant))]
        if b == ["name = str(name)", "if name not in LOCAL_ATTRS:\n    ns[name] = _make_method(name, doc)"]:
            skips = True
        elif b == ["name = str(name)", "ns[name] = _make_method(name, doc)"]:
            skips = False
        else:
            raise Unrecognised("class_factory loop body")
        ret = fn.body[-1]
        derives = isinstance(ret, ast.Return) and _u(ret.value) == "type(netref_name, (BaseNetref,), ns)"
        return [typed("class_factory_skips_local", "bool", coq_bool(skips)), typed("class_derives_from_base_only", "bool", coq_bool(derives))]
    guarded(factory)

    hshapes = {}

    def handler_bodies():
        rows, exit_handler, raises_unboxed, reflects, rtable, catches_base = handlers(repo, hshapes)
        delivers = bool(facts.get("exit_by_value")) and raises_unboxed
        if bool(facts.get("exit_by_value")) != raises_unboxed:
            raise Unrecognised("__exit__ and _handle_ctxexit disagree about how the exception travels")
        rows = ["(%s, %s)" % (coq_string(h), t) for h, t in rows]
        order = ["HANDLE_REPR", "HANDLE_STR", "HANDLE_HASH", "HANDLE_DIR", "HANDLE_GETATTR", "HANDLE_DELATTR", "HANDLE_SETATTR", "HANDLE_CMP",
                 "HANDLE_CALL", "HANDLE_CALLATTR"]
        rows.sort(key=lambda r: (order + ["HANDLE_BUFFITER"]).index(r.split('"')[1]) if r.split('"')[1] in order + ["HANDLE_BUFFITER"] else 99)
        rows.insert(len(order), "(%s, HCtxExit ctxexit_delivers)" % coq_string(exit_handler))
        return [typed("ctxexit_delivers", "bool", coq_bool(delivers)),
                typed("ctxexit_catches_base", "bool", coq_bool(catches_base)),
                typed("reflects", "bool", coq_bool(reflects)),
                typed("reflected_table", "list (string * string)", coq_list("(%s, %s)" % (coq_string(a), coq_string(b)) for a, b in rtable)),
                typed("handler_bodies", "list (string * hbody)", coq_list(rows))]
    guarded(handler_bodies)

    def buffered():
        term, text = buff_skel(repo)
        hshapes["buffiter"] = text
        return typed("buff_skel_gen", "buff_skel", term)
    guarded(buffered)

    def methods_rule():
        t2 = parse(repo, "rpyc/lib/__init__.py")
        got = func_shape(find_func(t2, "get_methods"))
        hshapes["get_methods"] = got
        return [typed("get_methods_excludes_given_names", "bool", coq_bool("if name not in obj_attrs and hasattr(attr, '__call__'):" in got)),
                typed("get_methods_walks_type_mro", "bool", coq_bool("mros = reversed(type(obj).__mro__)" in got)),
                typed("get_methods_adds_metaclass_for_classes", "bool", coq_bool("list(reversed(type(obj).__mro__)) + list(reversed(obj.__mro__))" in got))]
    guarded(methods_rule)

    # ---- class queries: the class descriptor, how class_factory finds a class for it, and __instancecheck__
    IC_HEAD = ("def __instancecheck__(self, other):\n    if isinstance(other, BaseNetref):\n        if self.____id_pack__[2] != 0:\n"
               "            raise TypeError('isinstance() arg 2 must be a class, type, or tuple of classes and types')\n"
               "        elif self.____id_pack__[1] == other.____id_pack__[1]:\n            if other.____id_pack__[2] == 0:\n                return False\n"
               "            elif other.____id_pack__[2] != 0:\n                return True\n        else:\n"
               "            return syncreq(self, consts.HANDLE_INSTANCECHECK, other.____id_pack__)\n    elif self.____id_pack__[2] == 0:\n")
    IC_TAIL = "\n    else:\n        raise TypeError('isinstance() arg 2 must be a class, type, or tuple of classes and types')"
    IC_ORIGINAL = IC_HEAD + "        return isinstance(other, type(self).__dict__['__class__'].instance)" + IC_TAIL
    IC_REPAIRED = (IC_HEAD + "        descriptor = type(self).__dict__['__class__']\n        if descriptor is None:\n"
                   "            return syncreq(self, consts.HANDLE_CALLATTR, '__instancecheck__', (other,), ())\n"
                   "        return isinstance(other, descriptor.instance)" + IC_TAIL)
    DESCRIPTOR_GET = "def __get__(self, netref_instance, netref_owner):\n    return self.owner if netref_instance.____id_pack__[2] == 0 else self.instance"

    def class_queries():
        ic = func_shape(find_func(base, "__instancecheck__"))
        if ic == IC_ORIGINAL:
            asks = False
        elif ic == IC_REPAIRED:
            asks = True
        else:
            raise Unrecognised("__instancecheck__")
        nc = find_class(tree, "NetrefClass")
        getter = func_shape(find_func(nc, "__get__")) == DESCRIPTOR_GET
        props = {n.name: _u(n.body[-1]) for n in nc.body if isinstance(n, ast.FunctionDef) and n.name in ("instance", "owner")}
        # owner: the class of the class object, read as an attribute (original) or taken from the object's type (repaired): the same
        # class for every real class; the model only says "the metaclass"
        getter = getter and props.get("instance") == "return self._class_obj" \
            and props.get("owner") in ("return self._class_obj.__class__", "return type(self._class_obj)") and len(props) == 2
        cf = func_shape(find_func(tree, "class_factory"))
        # the class is looked up by its module-qualified name: with getattr on the module (pinned tree) or in the module's own
        # namespace only (repaired tree, d03f463: no module-level __getattr__ hook is run for a peer-chosen name)
        by_name = all(t in cf for t in ("_builtin_class = _normalized_builtin_types.get(name_pack)", "_module = sys.modules.get(name_pack[:cursor])",
                                        "ns['__class__'] = class_descriptor")) \
            and any(t in cf for t in ("_class = getattr(_module, _class_name, None)", "_class = getattr(_module, '__dict__', {}).get(_class_name)"))
        return [typed("instancecheck_asks_owner", "bool", coq_bool(asks)),
                typed("instancecheck_route", "bool -> bool -> bool -> bool -> bool -> icroute",
                      "fun resolved other_is_proxy self_is_class same_class_id other_is_class : bool => "
                      "if other_is_proxy then (if negb self_is_class then ICRaiseTypeError else if same_class_id then (if other_is_class then ICFalse else ICTrue) "
                      "else ICSync \"HANDLE_INSTANCECHECK\"%string) "
                      "else if self_is_class then (" + ("if negb resolved then ICSync \"HANDLE_CALLATTR\"%string else ICLocalIsinstance" if asks else
                                                        "if negb resolved then ICAttributeError else ICLocalIsinstance") + ") else ICRaiseTypeError"),
                typed("class_descriptor_owner_for_classes_instance_for_instances", "bool", coq_bool(getter)),
                typed("class_found_by_module_qualified_name", "bool", coq_bool(by_name))]
    guarded(class_queries)

    # ---- module level: the list of types whose proxy class is generated once at import time, and the loop that generates them
    BUILTIN_LOOP = ("for _builtin in _builtin_types:\n    _id_pack = get_id_pack(_builtin)\n    _name_pack = _id_pack[0]\n"
                    "    _normalized_builtin_types[_name_pack] = _builtin\n    _builtin_methods = get_methods(LOCAL_ATTRS, _builtin)\n"
                    "    builtin_classes_cache[_name_pack] = class_factory(_id_pack, _builtin_methods)")

    def module_level():
        bt = find_assign(tree, "_builtin_types")
        if not isinstance(bt, ast.List):
            raise Unrecognised("_builtin_types")
        loops = [n for n in tree.body if isinstance(n, (ast.For, ast.While))]
        if len(loops) != 1:
            raise Unrecognised("module-level loops: %d" % len(loops))
        return [typed("builtin_types", "list string", coq_list(coq_string(_u(e)) for e in bt.elts)),
                typed("builtin_loop_as_expected", "bool", coq_bool(_u(loops[0]) == BUILTIN_LOOP))]
    guarded(module_level)
    # every module-level statement that is not a definition or an import, and every method of every class
    stmts = [n for n in tree.body if not isinstance(n, (ast.FunctionDef, ast.ClassDef, ast.Import, ast.ImportFrom))
             and not (isinstance(n, ast.Expr) and isinstance(n.value, ast.Constant))]
    items.append(shape("module.statements", "\n".join(_u(n) for n in stmts)))
    for c in tree.body:
        if isinstance(c, ast.ClassDef) and c.name != "BaseNetref":
            items.append(shape("class." + c.name, "class %s(%s)" % (c.name, ", ".join(_u(b) for b in c.bases))))
            for n in c.body:
                if isinstance(n, ast.FunctionDef):
                    items.append(shape(c.name + "." + n.name, func_shape(n)))
    items.append(shape("class.BaseNetref", "class BaseNetref(%s); __slots__ = %s" % (", ".join(_u(b) for b in base.bases),
                       ", ".join(_u(n.value) for n in base.body if isinstance(n, ast.Assign) and _u(n.targets[0]) == "__slots__"))))
    # ---- shape snapshots of everything the tables were read from
    for n in base.body:
        if isinstance(n, ast.FunctionDef):
            items.append(shape("BaseNetref." + n.name, func_shape(n)))
    for nm in ("syncreq", "asyncreq", "_make_method", "class_factory"):
        try:
            items.append(shape(nm, func_shape(find_func(tree, nm))))
        except Unrecognised as e:
            items.append(Item("!" + nm, "failed", text=str(e)))
    for k, v in sorted(hshapes.items()):
        items.append(shape("peer." + k, v))
    return items
