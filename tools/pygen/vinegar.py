"""vinegar.dump / vinegar.load and the exception plumbing of Connection -> Gallina facts (fail closed).

typed items (coq/gen/Gen_vinegar.v), all tied in coq/proofs/VinegarTie.v:
  fast_path_noargs_only   does dump() take the StopIteration fast path only for an instance without args?
  dump_*                  the denied markers, the ignored / private attribute rule, the dumpable-or-repr rule
  load_import_guard       condition under which load() calls __import__          (rcond of model/Vinegar.v)
  load_ladder             the class-resolution if/elif ladder of load()           (rprog of model/Vinegar.v)
  load_lookup_mode        getattr (runs a module-level __getattr__, PEP 562) or __dict__ lookup at the sys.modules leaf
  load_class_guard ..     isinstance/issubclass guard, cls.__new__(cls), constants
  box_exc_map ..          which config keys feed dump()/load(), their defaults, what is re-raised locally
  dispatch_delivers_rebuild_failure   does a failure of _unbox_exc reach the request it answers (new _dispatch_response) or escape _dispatch?
shape items: the rest of dump() after the fast path, load(), _get_exception_class, _box_exc, _unbox_exc,
AsyncResult.value."""
from .core import *

SRC = "rpyc/core/vinegar.py"
PROTO = "rpyc/core/protocol.py"
ASYNC = "rpyc/core/async_.py"
PRELUDE = "From V Require Import model.Vinegar.\n"


def u(node):
    return ast.unparse(node)


def _const_str(node):
    if isinstance(node, ast.Constant) and isinstance(node.value, str):
        return node.value
    raise Unrecognised("string constant: " + u(node))


def _cond(t):
    s = u(t)
    if s == "import_custom_exceptions":
        return "CImportFlag"
    if s == "instantiate_custom_exceptions":
        return "CInstFlag"
    if s == "modname in sys.modules":
        return "CInModules"
    if s == "modname not in sys.modules":
        return "CNotInModules"
    if s == "modname == exceptions_module.__name__":
        return "CModIsBuiltins"
    if isinstance(t, ast.BoolOp) and isinstance(t.op, ast.And) and len(t.values) == 2:
        return "(CAnd %s %s)" % (_cond(t.values[0]), _cond(t.values[1]))
    raise Unrecognised("load condition: " + s)


DICT_FORMS = ["vars(%s).get(%s)", "%s.__dict__.get(%s)", "getattr(%s, '__dict__', {}).get(%s)"]
SYSMOD = "sys.modules[modname]"


def _lookup_mode(tree, value):
    """how load() reads the class out of an already imported module -> lookup_mode of model/Vinegar.v
       getattr(module, name, None) runs a module-level __getattr__ (PEP 562), a __dict__ lookup does not"""
    s = u(value)
    dict_forms = [f % (SYSMOD, "clsname") for f in DICT_FORMS]
    if s == "getattr(%s, clsname, None)" % SYSMOD:
        return "LkGetattr"
    if s in dict_forms:
        return "LkDict"
    if s in ["getattr(%s, clsname, None) if import_custom_exceptions else %s" % (SYSMOD, d) for d in dict_forms]:
        return "LkDictUnlessImport"
    if isinstance(value, ast.Call) and isinstance(value.func, ast.Name) and [u(a) for a in value.args] == [SYSMOD, "clsname", "import_custom_exceptions"] \
            and not value.keywords:
        fn = find_func(tree, value.func.id)
        names = [a.arg for a in fn.args.args]
        body = strip_doc(fn.body)
        if len(names) != 3 or fn.args.vararg or fn.args.kwarg or fn.args.kwonlyargs or fn.args.defaults or fn.decorator_list:
            raise Unrecognised("lookup helper signature")
        m, c, h = names
        want_if = "if %s:\n    return getattr(%s, %s, None)" % (h, m, c)
        if len(body) == 2 and u(body[0]) == want_if and u(body[1]) in ["return " + f % (m, c) for f in DICT_FORMS]:
            return "LkDictUnlessImport"
        want_ifelse = [want_if + "\nelse:\n    return " + f % (m, c) for f in DICT_FORMS]
        if len(body) == 1 and u(body[0]) in want_ifelse:
            return "LkDictUnlessImport"
        if len(body) == 1 and u(body[0]) in ["return getattr(%s, %s, None) if %s else %s" % (m, c, h, f % (m, c)) for f in DICT_FORMS]:
            return "LkDictUnlessImport"
        raise Unrecognised("lookup helper body: " + u(fn))
    return None


class _Ladder:
    """translation state of one ladder: the lookup mode found at the sys.modules leaf"""

    def __init__(self, tree):
        self.tree, self.mode, self.leaf = tree, None, None


def _src(st, lad=None):
    if not (isinstance(st, ast.Assign) and len(st.targets) == 1 and u(st.targets[0]) == "cls"):
        raise Unrecognised("ladder leaf: " + u(st))
    s = u(st.value)
    if s == "getattr(exceptions_module, clsname, None)":
        return "SrcBuiltins"
    if s == "None":
        return "SrcNone"
    if lad is not None:
        mode = _lookup_mode(lad.tree, st.value)
        if mode is not None:
            if lad.mode is not None:
                raise Unrecognised("two sys.modules lookups in the ladder")
            lad.mode, lad.leaf = mode, st
            return "SrcSysModules"
    raise Unrecognised("ladder source: " + s)


def _prog(body, lad=None):
    if len(body) != 1:
        raise Unrecognised("ladder branch with %d statements" % len(body))
    st = body[0]
    if isinstance(st, ast.If):
        if not st.orelse:
            raise Unrecognised("ladder if without else")
        return "(RIf %s %s %s)" % (_cond(st.test), _prog(st.body, lad), _prog(st.orelse, lad))
    return "(RRet %s)" % _src(st, lad)


def _fast_guard(st):
    """first statement of dump: `if typ is StopIteration [and <no args>]: return consts.EXC_STOP_ITERATION`"""
    if not (isinstance(st, ast.If) and not st.orelse and len(st.body) == 1
            and u(st.body[0]) == "return consts.EXC_STOP_ITERATION"):
        raise Unrecognised("dump fast path: " + u(st))
    t = u(st.test)
    if t == "typ is StopIteration":
        return False
    noargs = ("not val.args", "val.args == ()", "len(val.args) == 0", "not len(val.args)", "not getattr(val, 'args', None)")
    if t in ["typ is StopIteration and " + x for x in noargs] + ["typ is StopIteration and (%s)" % x for x in noargs]:
        return True
    raise Unrecognised("dump fast path guard: " + t)


def _cfg_call(fn, callee, positional):
    """def f(self, ..): return vinegar.<callee>(<positional>, kw=self._config['key'], ...) -> [(kw, key)]"""
    body = strip_doc(fn.body)
    if not (len(body) == 1 and isinstance(body[0], ast.Return) and isinstance(body[0].value, ast.Call)
            and u(body[0].value.func) == "vinegar." + callee):
        raise Unrecognised(fn.name)
    c = body[0].value
    if [u(a) for a in c.args] != positional:
        raise Unrecognised(fn.name + " positional arguments")
    out = []
    for k in c.keywords:
        v = k.value
        if not (isinstance(v, ast.Subscript) and u(v.value) == "self._config"):
            raise Unrecognised(fn.name + " keyword " + str(k.arg))
        out.append((k.arg, _const_str(v.slice)))
    return out


def translate(repo):
    tree = parse(repo, SRC)
    items = []

    def guarded(f):
        try:
            r = f()
            items.extend(r if isinstance(r, list) else [r])
        except Unrecognised as e:
            items.append(Item("!" + f.__name__, "failed", text=str(e)))
        except (IndexError, AttributeError, KeyError) as e:
            items.append(Item("!" + f.__name__, "failed", text="%s: %s" % (type(e).__name__, e)))

    # ---------------------------------------------------------------- module level
    def exceptions_module():
        ok = False
        for n in tree.body:
            if isinstance(n, ast.Try) and u(n.body[0]) == "import exceptions as exceptions_module":
                h = n.handlers
                if len(h) == 1 and u(h[0].type) == "ImportError" and [u(x) for x in h[0].body] == ["import builtins as exceptions_module"]:
                    ok = True
        if not ok:
            raise Unrecognised("exceptions_module is not builtins")
        return typed("exceptions_module_name", "string", coq_string("builtins"))
    guarded(exceptions_module)

    # ---------------------------------------------------------------- dump
    def dump_facts():
        fn = find_func(tree, "dump")
        if [a.arg for a in fn.args.args] != ["typ", "val", "tb", "include_local_traceback", "include_local_version"]:
            raise Unrecognised("dump signature")
        body = strip_doc(fn.body)
        out = [typed("fast_path_noargs_only", "bool", coq_bool(_fast_guard(body[0])))]
        if u(body[1]) != "if type(typ) is str:\n    return typ":
            raise Unrecognised("dump string-exception branch")
        # traceback gating
        st = body[2]
        if not (isinstance(st, ast.If) and u(st.test) == "include_local_traceback" and len(st.body) == 1 and len(st.orelse) == 1
                and u(st.body[0]) == "tbtext = ''.join(traceback.format_exception(typ, val, tb))"
                and isinstance(st.orelse[0], ast.Assign) and u(st.orelse[0].targets[0]) == "tbtext"):
            raise Unrecognised("dump traceback gating")
        out.append(typed("dump_denied_tb", "string", coq_string(_const_str(st.orelse[0].value))))
        if [u(x) for x in body[3:5]] != ["attrs = []", "args = []"]:
            raise Unrecognised("dump accumulators")
        ig = body[5]
        if not (isinstance(ig, ast.Assign) and u(ig.targets[0]) == "ignored_attrs" and isinstance(ig.value, ast.Call)
                and u(ig.value.func) == "frozenset" and isinstance(ig.value.args[0], ast.List)):
            raise Unrecognised("dump ignored_attrs")
        out.append(typed("dump_ignored_attrs", "list string", coq_list(coq_string(_const_str(e)) for e in ig.value.args[0].elts)))
        loop = body[6]
        if not (isinstance(loop, ast.For) and u(loop.target) == "name" and u(loop.iter) == "dir(val)" and len(loop.body) == 1
                and not loop.orelse and isinstance(loop.body[0], ast.If)):
            raise Unrecognised("dump dir loop")
        i1 = loop.body[0]
        if not (isinstance(i1.test, ast.Compare) and u(i1.test.left) == "name" and isinstance(i1.test.ops[0], ast.Eq)):
            raise Unrecognised("dump args test")
        out.append(typed("dump_args_name", "string", coq_string(_const_str(i1.test.comparators[0]))))
        want_args = "for a in val.args:\n    if brine.dumpable(a):\n        args.append(a)\n    else:\n        args.append(repr(a))"
        if [u(x) for x in i1.body] != [want_args]:
            raise Unrecognised("dump args normalisation")
        if not (len(i1.orelse) == 1 and isinstance(i1.orelse[0], ast.If)):
            raise Unrecognised("dump attr branch")
        i2 = i1.orelse[0]
        t2 = i2.test
        if not (isinstance(t2, ast.BoolOp) and isinstance(t2.op, ast.Or) and len(t2.values) == 2
                and isinstance(t2.values[0], ast.Call) and u(t2.values[0].func) == "name.startswith"
                and u(t2.values[1]) == "name in ignored_attrs" and [u(x) for x in i2.body] == ["continue"]):
            raise Unrecognised("dump skip rule")
        out.append(typed("dump_private_prefix", "string", coq_string(_const_str(t2.values[0].args[0]))))
        want_attr = ["try:\n    attrval = getattr(val, name)\nexcept AttributeError:\n    continue",
                     "if not brine.dumpable(attrval):\n    attrval = repr(attrval)",
                     "attrs.append((name, attrval))"]
        # repaired form: callables (methods such as add_note) are left out right after the getattr
        skip_callable = "if callable(attrval):\n    continue"
        got_attr = [u(x) for x in i2.orelse]
        if got_attr == want_attr:
            skips = False
        elif got_attr == [want_attr[0], skip_callable] + want_attr[1:]:
            skips = True
            del i2.orelse[1]        # typed above: the shape of the rest of dump() is shared by both forms
        else:
            raise Unrecognised("dump attribute normalisation")
        out.append(typed("dump_norm_is_dumpable_or_repr", "bool", "true"))
        out.append(typed("dump_skips_callables", "bool", coq_bool(skips)))
        # version gating
        st = body[7]
        if not (isinstance(st, ast.If) and u(st.test) == "include_local_version" and len(st.body) == 1 and len(st.orelse) == 1
                and u(st.body[0]) == "attrs.append(('_remote_version', version.version_string))"):
            raise Unrecognised("dump version gating")
        e = st.orelse[0]
        if not (isinstance(e, ast.Expr) and isinstance(e.value, ast.Call) and u(e.value.func) == "attrs.append"
                and isinstance(e.value.args[0], ast.Tuple) and _const_str(e.value.args[0].elts[0]) == "_remote_version"):
            raise Unrecognised("dump version denied")
        out.append(typed("dump_version_attr", "string", coq_string("_remote_version")))
        out.append(typed("dump_denied_ver", "string", coq_string(_const_str(e.value.args[0].elts[1]))))
        if u(body[8]) != "return ((typ.__module__, typ.__name__), tuple(args), tuple(attrs), tbtext)" or len(body) != 9:
            raise Unrecognised("dump result")
        out.append(typed("dump_record_fields", "list string",
                         coq_list(coq_string(x) for x in ["typ.__module__", "typ.__name__", "args", "attrs", "tbtext"])))
        rest = ast.FunctionDef(name="dump_after_fast_path", args=fn.args, body=body[1:], decorator_list=[], returns=None,
                               type_comment=None, lineno=0, col_offset=0)
        out.append(shape("dump_after_fast_path", func_shape(ast.fix_missing_locations(rest))))
        return out
    guarded(dump_facts)

    # ---------------------------------------------------------------- load
    def load_facts():
        fn = find_func(tree, "load")
        if [a.arg for a in fn.args.args] != ["val", "import_custom_exceptions", "instantiate_custom_exceptions",
                                             "instantiate_oldstyle_exceptions"]:
            raise Unrecognised("load signature")
        body = strip_doc(fn.body)
        out = []
        if u(body[0]) != "if val == consts.EXC_STOP_ITERATION:\n    return StopIteration":
            raise Unrecognised("load fast path")
        out.append(typed("load_fast_path_const", "string", coq_string("EXC_STOP_ITERATION")))
        if u(body[1]) != "if type(val) is str:\n    return val":
            raise Unrecognised("load string branch")
        if u(body[2]) not in ("((modname, clsname), args, attrs, tbtext) = val", "(modname, clsname), args, attrs, tbtext = val"):
            raise Unrecognised("load destructuring: " + u(body[2]))
        ig = body[3]
        want_try = "try:\n    __import__(modname, None, None, '*')\nexcept Exception:\n    pass"
        if not (isinstance(ig, ast.If) and not ig.orelse and [u(x) for x in ig.body] == [want_try]):
            raise Unrecognised("load import statement")
        out.append(typed("load_import_guard", "rcond", _cond(ig.test)))
        # no other import anywhere in load
        n_imp = sum(1 for n in ast.walk(fn) if (isinstance(n, ast.Call) and u(n.func) in ("__import__", "importlib.import_module",
                                                                                           "import_module", "exec", "eval"))
                    or isinstance(n, (ast.Import, ast.ImportFrom)))
        if n_imp != 1:
            raise Unrecognised("load contains %d import/exec sites" % n_imp)
        lad = _Ladder(tree)
        out.append(typed("load_ladder", "rprog", _prog([body[4]], lad)))
        if lad.mode is None:
            raise Unrecognised("load ladder has no sys.modules lookup")
        out.append(typed("load_lookup_mode", "lookup_mode", lad.mode))
        # nothing else in load() may read an attribute of a module of sys.modules
        others = [n for n in ast.walk(fn) if isinstance(n, ast.Subscript) and u(n) == SYSMOD and n is not None]
        if len(others) != 1:
            raise Unrecognised("load reads sys.modules[modname] %d times" % len(others))
        if u(body[5]) != "if not isinstance(cls, type) or not issubclass(cls, BaseException):\n    cls = None":
            raise Unrecognised("load class guard")
        out.append(typed("load_class_guard", "bool", "true"))
        # instantiation: cls.__new__(cls) only; the class object is never called
        inst = [n for n in body if isinstance(n, ast.If) and "exc =" in u(n) and "__new__" in u(n)]
        if len(inst) != 1 or u(inst[0]) != ("if ClassType is not type and isinstance(cls, ClassType):\n    exc = InstanceType(cls)\n"
                                            "else:\n    exc = cls.__new__(cls)"):
            raise Unrecognised("load instantiation")
        for n in ast.walk(fn):
            if isinstance(n, ast.Call) and u(n.func) in ("cls", "exc.__init__", "cls.__init__", "exc.__setstate__"):
                raise Unrecognised("load calls a constructor")
        out.append(typed("load_instantiates_with_new_only", "bool", "true"))
        vd = [n for n in body if isinstance(n, ast.Assign) and u(n.targets[0]) == "remote_ver"]
        if len(vd) != 1 or not (isinstance(vd[0].value, ast.Call) and u(vd[0].value.func) == "getattr" and len(vd[0].value.args) == 3):
            raise Unrecognised("load remote_ver")
        out.append(typed("load_version_attr", "string", coq_string(_const_str(vd[0].value.args[1]))))
        out.append(typed("load_denied_ver", "string", coq_string(_const_str(vd[0].value.args[2]))))
        # the shape of load() is taken with the (typed) sys.modules lookup expression blanked, so that both lookup forms share it
        lad.leaf.value = ast.Name(id="SYS_MODULES_LOOKUP", ctx=ast.Load())
        out.append(shape("load", func_shape(fn)))
        return out
    guarded(load_facts)

    for nm in ("_get_exception_class",):
        try:
            items.append(shape(nm, func_shape(find_func(tree, nm))))
        except Unrecognised as e:
            items.append(Item("!" + nm, "failed", text=str(e)))

    # ---------------------------------------------------------------- protocol plumbing
    def protocol_facts():
        pt = parse(repo, PROTO)
        conn = find_class(pt, "Connection")
        out = []
        bx = _cfg_call(find_func(conn, "_box_exc"), "dump", ["typ", "val", "tb"])
        ub = _cfg_call(find_func(conn, "_unbox_exc"), "load", ["raw"])
        pair = lambda l: coq_list("(%s, %s)" % (coq_string(a), coq_string(b)) for a, b in l)
        out.append(typed("box_exc_map", "list (string * string)", pair(bx)))
        out.append(typed("unbox_exc_map", "list (string * string)", pair(ub)))
        out.append(shape("_box_exc", func_shape(find_func(conn, "_box_exc"))))
        out.append(shape("_unbox_exc", func_shape(find_func(conn, "_unbox_exc"))))
        dc = find_assign(pt, "DEFAULT_CONFIG")
        if not (isinstance(dc, ast.Call) and u(dc.func) == "dict" and not dc.args):
            raise Unrecognised("DEFAULT_CONFIG")
        kw = {k.arg: k.value for k in dc.keywords}
        keys = ["include_local_traceback", "include_local_version", "instantiate_custom_exceptions", "import_custom_exceptions",
                "instantiate_oldstyle_exceptions", "propagate_SystemExit_locally", "propagate_KeyboardInterrupt_locally"]
        vals = []
        for k in keys:
            v = kw.get(k)
            if not (isinstance(v, ast.Constant) and isinstance(v.value, bool)):
                raise Unrecognised("DEFAULT_CONFIG[%s]" % k)
            vals.append((k, v.value))
        out.append(typed("default_flags", "list (string * bool)", coq_list("(%s, %s)" % (coq_string(a), coq_bool(b)) for a, b in vals)))
        # _dispatch_request: bare except -> (local re-raise for listed classes) -> send boxed exception
        dr = find_func(conn, "_dispatch_request")
        tr = [n for n in strip_doc(dr.body) if isinstance(n, ast.Try)]
        if len(tr) != 1 or len(tr[0].handlers) != 1 or tr[0].handlers[0].type is not None:
            raise Unrecognised("_dispatch_request try/except")
        hb = tr[0].handlers[0].body
        if u(hb[0]) not in ("(t, v, tb) = sys.exc_info()", "t, v, tb = sys.exc_info()"):
            raise Unrecognised("_dispatch_request exc_info: " + u(hb[0]))
        routed, sends = [], 0
        for st in hb[1:]:
            s = u(st)
            if isinstance(st, ast.If) and any(isinstance(x, ast.Raise) for x in ast.walk(st)):
                m = re.fullmatch(r"if t is (\w+) and self\._config\['(\w+)'\]:\n    raise", s)
                if not m:
                    raise Unrecognised("_dispatch_request local routing: " + s)
                routed.append((m.group(1), m.group(2)))
            elif isinstance(st, ast.Raise) or (not isinstance(st, ast.If) and any(isinstance(x, ast.Raise) for x in ast.walk(st))):
                raise Unrecognised("_dispatch_request raises: " + s)
            elif "_send" in s:
                direct = s == "self._send(consts.MSG_EXCEPTION, seq, self._box_exc(t, v, tb))"
                helper = s == "self._send_exc(seq, t, v, tb)"
                if not (direct or helper) or st is not hb[-1]:
                    raise Unrecognised("_dispatch_request send: " + s)
                if helper:
                    # the helper sends exactly the boxed exception first (its fallback reports the encoding failure instead)
                    hf = find_func(conn, "_send_exc")
                    hs = [x for x in ast.walk(hf) if isinstance(x, ast.Expr) and "_send(" in u(x)]
                    if not hs or u(hs[0]) != "self._send(consts.MSG_EXCEPTION, seq, self._box_exc(t, v, tb))" \
                            or any(u(x) != "self._send(consts.MSG_EXCEPTION, seq, self._box_exc(t, v, tb))" for x in hs):
                        raise Unrecognised("_send_exc: " + u(hf))
                    # exact two-branch form: the boxed exception; if ITS payload cannot be dumped/encoded, that failure is boxed and sent
                    # instead (EOFError propagates). The requester is always answered with one MSG_EXCEPTION frame.
                    send = "self._send(consts.MSG_EXCEPTION, seq, self._box_exc(t, v, tb))"
                    want = ("try:\n    %s\nexcept EOFError:\n    raise\nexcept Exception:\n    t, v, tb = sys.exc_info()\n    %s" % (send, send))
                    hb2 = strip_doc(hf.body)
                    if [a.arg for a in hf.args.args] != ["self", "seq", "t", "v", "tb"] or len(hb2) != 1 \
                            or u(hb2[0]).replace("(t, v, tb) = sys.exc_info()", "t, v, tb = sys.exc_info()") != want:
                        raise Unrecognised("_send_exc fallback form: " + u(hf))
                    out.append(typed("send_exc_reports_dump_failure", "bool", "true"))
                    out.append(shape("_send_exc", func_shape(hf)))
                sends += 1
        if sends != 1:
            raise Unrecognised("_dispatch_request does not send the boxed exception exactly once")
        out.append(typed("routed_locally", "list (string * string)", pair(routed)))
        # _dispatch: MSG_EXCEPTION -> _unbox_exc -> callback(is_exc=True); either inline (a failure of _unbox_exc escapes _dispatch)
        # or through _dispatch_response, which delivers a rebuild failure to the request it answers (EOFError still propagates)
        dp = find_func(conn, "_dispatch")
        found, delivers = False, False
        for n in ast.walk(dp):
            if isinstance(n, ast.If) and u(n.test) == "msg == consts.MSG_EXCEPTION":
                body = [u(x) for x in n.body]
                if body == ["obj = self._unbox_exc(args)", "self._seq_request_callback(msg, seq, True, obj)"]:
                    delivers = False
                elif body == ["self._dispatch_response(msg, seq, True, args)"]:
                    hf = find_func(conn, "_dispatch_response")
                    if [a.arg for a in hf.args.args] != ["self", "msg", "seq", "is_exc", "args"]:
                        raise Unrecognised("_dispatch_response signature")
                    hb = strip_doc(hf.body)
                    want_try = ("try:\n    obj = self._unbox_exc(args) if is_exc else self._unbox(args)\nexcept EOFError:\n    raise\n"
                                "except Exception:\n    is_exc, obj = (True, sys.exc_info()[1])")
                    got_try = u(hb[0]).replace("is_exc, obj = True, sys.exc_info()[1]", "is_exc, obj = (True, sys.exc_info()[1])") if hb else ""
                    if len(hb) != 2 or got_try != want_try or u(hb[1]) != "self._seq_request_callback(msg, seq, is_exc, obj)":
                        raise Unrecognised("_dispatch_response body: " + u(hf))
                    delivers = True
                else:
                    raise Unrecognised("_dispatch MSG_EXCEPTION branch")
                found = True
        if not found:
            raise Unrecognised("_dispatch has no MSG_EXCEPTION branch")
        out.append(typed("dispatch_delivers_rebuild_failure", "bool", coq_bool(delivers)))
        out.append(typed("dispatch_exception_unboxes", "bool", "true"))
        return out
    guarded(protocol_facts)

    def async_value():
        at = parse(repo, ASYNC)
        cls = find_class(at, "AsyncResult")
        for n in cls.body:
            if isinstance(n, ast.FunctionDef) and n.name == "value":
                return shape("AsyncResult.value", func_shape(n))
        raise Unrecognised("AsyncResult.value")
    guarded(async_value)

    def remote_line():
        a, b, c = find_assign(tree, "REMOTE_LINE_START"), find_assign(tree, "REMOTE_LINE_END"), find_assign(tree, "REMOTE_LINE")
        if u(c) != "'{0}({{}}){1}'.format(REMOTE_LINE_START, REMOTE_LINE_END)":
            raise Unrecognised("REMOTE_LINE: " + u(c))
        return [typed("remote_line_start", "string", coq_string(_const_str(a))), typed("remote_line_end", "string", coq_string(_const_str(b))),
                typed("remote_line_format", "string", coq_string("{0}({{}}){1}"))]
    guarded(remote_line)

    def version_major():
        vt = parse(repo, "rpyc/version.py")
        v = find_assign(vt, "version")
        if not (isinstance(v, ast.Tuple) and all(isinstance(e, ast.Constant) and isinstance(e.value, int) for e in v.elts)):
            raise Unrecognised("version tuple")
        if u(find_assign(vt, "version_string")) != "'.'.join(map(str, version))":
            raise Unrecognised("version_string")
        return [typed("version_major", "string", coq_string(str(v.elts[0].value))),
                typed("version_string", "string", coq_string(".".join(str(e.value) for e in v.elts)))]
    guarded(version_major)
    return items
