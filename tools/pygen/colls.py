"""C10: reference counting of objects lent to the peer.
Facts read off rpyc/lib/colls.py (RefCountingColl), rpyc/core/protocol.py (_box, _unbox, _handle_del, _cleanup)
and rpyc/core/netref.py (BaseNetref.__init__/__del__).  Typed items become the record Gen_colls.params that
proofs/RefcountTie.v equates with the parameters the theorems are proved for; everything else is a shape."""
from .core import *

SRC = "rpyc/lib/colls.py"
SRC_PROTOCOL = "rpyc/core/protocol.py"
SRC_NETREF = "rpyc/core/netref.py"
PRELUDE = "From V Require Import model.Refcount.\n"
CMP = {ast.Lt: "CLt", ast.LtE: "CLe", ast.Gt: "CGt", ast.GtE: "CGe", ast.Eq: "CEq", ast.NotEq: "CNe"}
CMP_NUM = {"CLt": 0, "CLe": 1, "CGt": 2, "CGe": 3, "CEq": 4, "CNe": 5}


def _u(n):
    return ast.unparse(n)


def _with_lock_body(fn):
    body = strip_doc(fn.body)
    if not (len(body) == 1 and isinstance(body[0], ast.With) and len(body[0].items) == 1
            and _u(body[0].items[0].context_expr) == "self._lock" and body[0].items[0].optional_vars is None):
        raise Unrecognised("%s: expected a single `with self._lock:` block" % fn.name)
    return body[0].body


def _args(fn):
    a = fn.args
    if a.vararg or a.kwarg or a.kwonlyargs or a.posonlyargs:
        raise Unrecognised("%s: signature" % fn.name)
    return [x.arg for x in a.args], a.defaults


def _aug_const(st, target, op):
    """<target> <op>= <int>  -> int"""
    if isinstance(st, ast.AugAssign) and isinstance(st.op, op) and _u(st.target) == target:
        return const_int(st.value)
    raise Unrecognised("expected `%s %s= <int>`, got %s" % (target, "+" if op is ast.Add else "-", _u(st)))


def _add(cls):
    fn = find_func(cls, "add")
    names, defaults = _args(fn)
    if names != ["self", "key", "obj"] or defaults:
        raise Unrecognised("add: signature")
    b = _with_lock_body(fn)
    if not (len(b) == 3 and _u(b[0]) == "slot = self._dict.get(key, None)" and isinstance(b[1], ast.If)
            and _u(b[1].test) == "slot is None" and len(b[1].body) == 1 and len(b[1].orelse) == 1
            and _u(b[2]) == "self._dict[key] = slot"):
        raise Unrecognised("add: body")
    st = b[1].body[0]
    if not (isinstance(st, ast.Assign) and _u(st.targets[0]) == "slot" and isinstance(st.value, ast.List)
            and len(st.value.elts) == 2 and _u(st.value.elts[0]) == "obj"):
        raise Unrecognised("add: fresh slot")
    init = const_int(st.value.elts[1])
    inc = _aug_const(b[1].orelse[0], "slot[1]", ast.Add)
    return init, inc


def _decref(cls):
    fn = find_func(cls, "decref")
    names, defaults = _args(fn)
    if names != ["self", "key", "count"] or len(defaults) != 1:
        raise Unrecognised("decref: signature")
    default = const_int(defaults[0])
    b = _with_lock_body(fn)
    if not (len(b) == 2 and _u(b[0]) == "slot = self._dict[key]" and isinstance(b[1], ast.If)):
        raise Unrecognised("decref: body")
    t = b[1].test
    if not (isinstance(t, ast.Compare) and len(t.ops) == 1 and type(t.ops[0]) in CMP and _u(t.left) == "slot[1]"
            and _u(t.comparators[0]) == "count"):
        raise Unrecognised("decref: test " + _u(t))
    if [_u(x) for x in b[1].body] != ["del self._dict[key]"]:
        raise Unrecognised("decref: delete branch")
    if [_u(x) for x in b[1].orelse] != ["slot[1] -= count", "self._dict[key] = slot"]:
        raise Unrecognised("decref: decrement branch")
    return CMP[type(t.ops[0])], default


def _unbox_inc(conn):
    fn = find_func(conn, "_unbox")
    for st in strip_doc(fn.body):
        if isinstance(st, ast.If) and _u(st.test) == "label == consts.LABEL_REMOTE_REF":
            inner = [x for x in st.body if isinstance(x, ast.If)]
            if len(inner) != 1 or _u(inner[0].test) != "id_pack in self._proxy_cache":
                raise Unrecognised("_unbox: cache test")
            hit, miss = inner[0].body, inner[0].orelse
            if not (len(hit) == 2 and _u(hit[0]) == "proxy = self._proxy_cache[id_pack]"):
                raise Unrecognised("_unbox: cache hit branch")
            inc = _aug_const(hit[1], "proxy.____refcount__", ast.Add)
            if [_u(x) for x in miss] != ["proxy = self._netref_factory(id_pack)", "self._proxy_cache[id_pack] = proxy"]:
                raise Unrecognised("_unbox: cache miss branch")
            if _u(st.body[-1]) != "return proxy":
                raise Unrecognised("_unbox: result")
            return inc
    raise Unrecognised("_unbox: no LABEL_REMOTE_REF branch")


def _handle_del(conn):
    fn = find_func(conn, "_handle_del")
    names, defaults = _args(fn)
    if names != ["self", "obj", "count"] or len(defaults) != 1:
        raise Unrecognised("_handle_del: signature")
    if [_u(x) for x in strip_doc(fn.body)] != ["self._local_objects.decref(get_id_pack(obj), count)"]:
        raise Unrecognised("_handle_del: body")
    return const_int(defaults[0])


def _cleanup_clears(conn):
    fn = find_func(conn, "_cleanup")
    n = sum(1 for x in ast.walk(fn) if isinstance(x, ast.Expr) and _u(x) == "self._local_objects.clear()")
    top = sum(1 for x in strip_doc(fn.body) if _u(x) == "self._local_objects.clear()")
    if n != top or n > 1:
        raise Unrecognised("_cleanup: conditional or repeated clear")
    return n == 1


def _netref_init(base):
    fn = find_func(base, "__init__")
    vals = [st for st in strip_doc(fn.body) if isinstance(st, ast.Assign) and _u(st.targets[0]) == "self.____refcount__"]
    if len(vals) != 1 or len(strip_doc(fn.body)) != 3:
        raise Unrecognised("BaseNetref.__init__")
    return const_int(vals[0].value)


def _netref_del(base):
    fn = find_func(base, "__del__")
    b = strip_doc(fn.body)
    if not (len(b) == 1 and isinstance(b[0], ast.Try) and len(b[0].body) == 1 and not b[0].orelse and not b[0].finalbody
            and isinstance(b[0].body[0], ast.Expr) and isinstance(b[0].body[0].value, ast.Call)):
        raise Unrecognised("BaseNetref.__del__: body")
    c = b[0].body[0].value
    if not (_u(c.func) == "asyncreq" and not c.keywords and len(c.args) in (2, 3) and _u(c.args[0]) == "self"
            and _u(c.args[1]) == "consts.HANDLE_DEL"):
        raise Unrecognised("BaseNetref.__del__: call " + _u(c))
    if len(c.args) == 2:
        return "DDefault", [1]
    if _u(c.args[2]) == "self.____refcount__":
        return "DRefcount", [0]
    n = const_int(c.args[2])
    return "(DConst %s)" % coq_z(n), [2, n]


def facts(repo):
    """every typed fact, as Python values (also used by the harness to parameterise the extracted model)"""
    colls = find_class(parse(repo, SRC), "RefCountingColl")
    conn = find_class(parse(repo, SRC_PROTOCOL), "Connection")
    base = find_class(parse(repo, SRC_NETREF), "BaseNetref")
    init, inc = _add(colls)
    cmp_, ddef = _decref(colls)
    f = {"add_init": init, "add_inc": inc, "dec_cmp": cmp_, "decref_default": ddef,
         "handle_del_default": _handle_del(conn), "proxy_init": _netref_init(base), "unbox_inc": _unbox_inc(conn),
         "del_src": _netref_del(base), "cleanup_clears": _cleanup_clears(conn)}
    return f


def params_sx(repo):
    """the model's rparams in the order Refcount.params_of_sx expects"""
    f = facts(repo)
    return [f["add_init"], f["add_inc"], CMP_NUM[f["dec_cmp"]], f["handle_del_default"], f["proxy_init"], f["unbox_inc"],
            f["del_src"][1], 1 if f["cleanup_clears"] else 0]


def translate(repo):
    items = []

    def guarded(name, f):
        try:
            r = f()
            items.extend(r if isinstance(r, list) else [r])
        except Unrecognised as e:
            items.append(Item("!" + name, "failed", text=str(e)))

    def typed_facts():
        f = facts(repo)
        out = [typed("add_init", "Z", coq_z(f["add_init"])), typed("add_inc", "Z", coq_z(f["add_inc"])),
               typed("dec_cmp", "rcmp", f["dec_cmp"]), typed("decref_default", "Z", coq_z(f["decref_default"])),
               typed("handle_del_default", "Z", coq_z(f["handle_del_default"])),
               typed("proxy_init", "Z", coq_z(f["proxy_init"])), typed("unbox_inc", "Z", coq_z(f["unbox_inc"])),
               typed("del_src", "delsrc", f["del_src"][0]), typed("cleanup_clears", "bool", coq_bool(f["cleanup_clears"]))]
        out.append(typed("params", "rparams",
                         "{| p_add_init := add_init; p_add_inc := add_inc; p_dec_cmp := dec_cmp; "
                         "p_dec_default := handle_del_default; p_proxy_init := proxy_init; p_unbox_inc := unbox_inc; "
                         "p_del_src := del_src; p_cleanup_clears := cleanup_clears |}"))
        return out
    guarded("params", typed_facts)

    def shapes_of(rel, clsname, names, prefix):
        def f():
            cls = find_class(parse(repo, rel), clsname)
            out = []
            for nm in names:
                try:
                    out.append(shape(prefix + nm, func_shape(find_func(cls, nm))))
                except Unrecognised as e:
                    out.append(Item("!" + prefix + nm, "failed", text=str(e)))
            return out
        return f
    guarded("colls", shapes_of(SRC, "RefCountingColl", ["__init__", "add", "clear", "decref", "__getitem__"], "RefCountingColl."))
    guarded("weakdict", shapes_of(SRC, "WeakValueDict", ["__contains__", "__getitem__", "__setitem__"], "WeakValueDict."))
    guarded("protocol", shapes_of(SRC_PROTOCOL, "Connection", ["_box", "_unbox", "_handle_del"], "Connection."))
    guarded("netref", shapes_of(SRC_NETREF, "BaseNetref", ["__init__", "__del__"], "BaseNetref."))

    def asyncreq_shape():
        tree = parse(repo, SRC_NETREF)
        return shape("netref.asyncreq", func_shape(find_func(tree, "asyncreq")))
    guarded("asyncreq", asyncreq_shape)
    return items
