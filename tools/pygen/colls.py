"""C10: reference counting of objects lent to the peer.
Facts read off rpyc/lib/colls.py (RefCountingColl), rpyc/core/protocol.py (_box, _unbox, _handle_del, _cleanup, close,
_async_request, _dispatch_request's _last_traceback)
and rpyc/core/netref.py (BaseNetref.__init__/__del__).  Typed items become the record Gen_colls.params that
proofs/RefcountTie.v equates with the parameters the theorems are proved for; everything else is a shape."""
from .core import *
from .core import _Inert

SRC = "rpyc/lib/colls.py"
SRC_PROTOCOL = "rpyc/core/protocol.py"
SRC_NETREF = "rpyc/core/netref.py"
PRELUDE = "From V Require Import model.Refcount.\n"
CMP = {ast.Lt: "CLt", ast.LtE: "CLe", ast.Gt: "CGt", ast.GtE: "CGe", ast.Eq: "CEq", ast.NotEq: "CNe"}
CMP_NUM = {"CLt": 0, "CLe": 1, "CGt": 2, "CGe": 3, "CEq": 4, "CNe": 5}


def _u(n):
    return ast.unparse(n)


def _with_lock_body(fn):
    body = strip_doc(fn.body)
    if not (len(body) == 1 and isinstance(body[0], ast.With) and len(body[0].items) == 1
            and _u(body[0].items[0].context_expr) == "self._lock" and body[0].items[0].optional_vars is None):
        raise Unrecognised("%s: expected a single `with self._lock:` block" % fn.name)
    return body[0].body


def _args(fn):
    a = fn.args
    if a.vararg or a.kwarg or a.kwonlyargs or a.posonlyargs:
        raise Unrecognised("%s: signature" % fn.name)
    return [x.arg for x in a.args], a.defaults


def _aug_const(st, target, op):
    """<target> <op>= <int>  -> int"""
    if isinstance(st, ast.AugAssign) and isinstance(st.op, op) and _u(st.target) == target:
        return const_int(st.value)
    raise Unrecognised("expected `%s %s= <int>`, got %s" % (target, "+" if op is ast.Add else "-", _u(st)))


def _add(cls):
    fn = find_func(cls, "add")
    names, defaults = _args(fn)
    if names != ["self", "key", "obj"] or defaults:
        raise Unrecognised("add: signature")
    b = _with_lock_body(fn)
    if not (len(b) == 3 and _u(b[0]) == "slot = self._dict.get(key, None)" and isinstance(b[1], ast.If)
            and _u(b[1].test) == "slot is None" and len(b[1].body) == 1 and len(b[1].orelse) == 1
            and _u(b[2]) == "self._dict[key] = slot"):
        raise Unrecognised("add: body")
    st = b[1].body[0]
    if not (isinstance(st, ast.Assign) and _u(st.targets[0]) == "slot" and isinstance(st.value, ast.List)
            and len(st.value.elts) == 2 and _u(st.value.elts[0]) == "obj"):
        raise Unrecognised("add: fresh slot")
    init = const_int(st.value.elts[1])
    inc = _aug_const(b[1].orelse[0], "slot[1]", ast.Add)
    return init, inc


def _decref(cls):
    fn = find_func(cls, "decref")
    names, defaults = _args(fn)
    if names != ["self", "key", "count"] or len(defaults) != 1:
        raise Unrecognised("decref: signature")
    default = const_int(defaults[0])
    b = _with_lock_body(fn)
    if not (len(b) == 2 and _u(b[0]) == "slot = self._dict[key]" and isinstance(b[1], ast.If)):
        raise Unrecognised("decref: body")
    t = b[1].test
    if not (isinstance(t, ast.Compare) and len(t.ops) == 1 and type(t.ops[0]) in CMP and _u(t.left) == "slot[1]"
            and _u(t.comparators[0]) == "count"):
        raise Unrecognised("decref: test " + _u(t))
    if [_u(x) for x in b[1].body] != ["del self._dict[key]"]:
        raise Unrecognised("decref: delete branch")
    if [_u(x) for x in b[1].orelse] != ["slot[1] -= count", "self._dict[key] = slot"]:
        raise Unrecognised("decref: decrement branch")
    return CMP[type(t.ops[0])], default


def _unbox_inc(conn):
    fn = find_func(conn, "_unbox")
    for st in strip_doc(fn.body):
        if isinstance(st, ast.If) and _u(st.test) == "label == consts.LABEL_REMOTE_REF":
            inner = [x for x in st.body if isinstance(x, ast.If)]
            if len(inner) != 1 or _u(inner[0].test) != "id_pack in self._proxy_cache":
                raise Unrecognised("_unbox: cache test")
            hit, miss = inner[0].body, inner[0].orelse
            if not (len(hit) == 2 and _u(hit[0]) == "proxy = self._proxy_cache[id_pack]"):
                raise Unrecognised("_unbox: cache hit branch")
            inc = _aug_const(hit[1], "proxy.____refcount__", ast.Add)
            if [_u(x) for x in miss] != ["proxy = self._netref_factory(id_pack)", "self._proxy_cache[id_pack] = proxy"]:
                raise Unrecognised("_unbox: cache miss branch")
            if _u(st.body[-1]) != "return proxy":
                raise Unrecognised("_unbox: result")
            return inc
    raise Unrecognised("_unbox: no LABEL_REMOTE_REF branch")


def _handle_del(conn):
    fn = find_func(conn, "_handle_del")
    names, defaults = _args(fn)
    if names != ["self", "obj", "count"] or len(defaults) != 1:
        raise Unrecognised("_handle_del: signature")
    if [_u(x) for x in strip_doc(fn.body)] != ["self._local_objects.decref(get_id_pack(obj), count)"]:
        raise Unrecognised("_handle_del: body")
    return const_int(defaults[0])


_CLEANUP_SAFE = ("if self._closed and (not _anyway):\n    return", "self._closed = True", "self._channel.close()",
                 "self._request_callbacks.clear()", "self._proxy_cache.clear()", "self._netref_classes_cache.clear()",
                 "self._last_traceback = None", "self._remote_root = None", "self._local_root = None", "del self._HANDLERS")
_CLEAR = "self._local_objects.clear()"
_HOOK = "self._local_root.on_disconnect(self)"


def _cleanup_facts(conn):
    """(clears, guarded): the statement self._local_objects.clear() is present on the straight path of _cleanup, and it is
    reached even when the service's on_disconnect hook raises (it precedes the hook, or sits in the `finally` of the try
    around the hook).  Every other statement before the clear must be one of the known harmless ones (fail closed)."""
    fn = find_func(conn, "_cleanup")
    body = strip_doc(fn.body)
    n_all = sum(1 for x in ast.walk(fn) if isinstance(x, ast.Expr) and _u(x) == _CLEAR)
    if n_all == 0:
        return False, False
    if n_all > 1:
        raise Unrecognised("_cleanup: repeated clear")
    seen_hook = False
    for st in body:
        t = _u(st)
        if t == _CLEAR:
            return True, not seen_hook
        if t == _HOOK:
            seen_hook = True
        elif isinstance(st, ast.Try):
            if st.handlers or st.orelse:
                raise Unrecognised("_cleanup: try with handlers")
            inner = [_u(x) for x in st.body]
            fin = [_u(x) for x in st.finalbody]
            if any(x != _HOOK and x not in _CLEANUP_SAFE for x in inner):
                raise Unrecognised("_cleanup: statement inside try: " + repr(inner))
            if _CLEAR in fin:
                k = fin.index(_CLEAR)
                if any(x not in _CLEANUP_SAFE for x in fin[:k]):
                    raise Unrecognised("_cleanup: statement before the clear in finally")
                return True, True
            if _CLEAR in inner:
                raise Unrecognised("_cleanup: clear inside try body")
            if _HOOK in inner:
                seen_hook = True
        elif t not in _CLEANUP_SAFE:
            raise Unrecognised("_cleanup: statement before the clear that may raise: " + t)
    raise Unrecognised("_cleanup: conditional clear")


def _close_finally(conn):
    """close(): the _cleanup call sits in the `finally` of the try that runs the before_closed hook and sends CLOSE"""
    fn = find_func(conn, "close")
    body = strip_doc(fn.body)
    if not (len(body) in (2, 3) and _u(body[0]) == "if self._closed:\n    return" and isinstance(body[1], ast.Try)):
        raise Unrecognised("close: body")
    tr = body[1]
    want = ["self._closed = True",
            "if self._config.get('before_closed'):\n    self._config['before_closed'](self.root)",
            "self._async_request(consts.HANDLE_CLOSE)"]
    if [_u(x) for x in tr.body] != want:
        raise Unrecognised("close: try body")
    hs = [(_u(h.type) if h.type else None, [_u(x) for x in h.body]) for h in tr.handlers]
    if hs != [("EOFError", ["pass"]), ("Exception", ["if not self._config['close_catchall']:\n    raise"])]:
        raise Unrecognised("close: handlers")
    call = "self._cleanup(_anyway=True)"
    fin = [_u(x) for x in tr.finalbody]
    if fin == [call] and len(body) == 2:
        return True
    if not fin and len(body) == 3 and _u(body[2]) == call:
        return False
    raise Unrecognised("close: where _cleanup is called")


def _send_checks_closed(conn):
    """_async_request refuses to box anything once the channel is closed (EOFError before self._box(args))"""
    fn = find_func(conn, "_async_request")
    body = strip_doc(fn.body)
    n_box = sum(1 for x in ast.walk(fn) if isinstance(x, ast.Call) and _u(x.func) == "self._box")
    if n_box != 1:
        raise Unrecognised("_async_request: boxing")
    first = body[0]
    guarded = False
    if isinstance(first, ast.If):
        if not (_u(first.test) in ("self._channel.closed", "self._closed and self._channel.closed") and not first.orelse
                and len(first.body) == 1 and isinstance(first.body[0], ast.Raise)
                and _u(first.body[0].exc).startswith("EOFError(")):
            raise Unrecognised("_async_request: leading test " + _u(first))
        guarded = _u(first.test) == "self._channel.closed"
        body = body[1:]
    if [_u(x) for x in body[:2]] != ["seq = self._get_seq_id()", "self._request_callbacks[seq] = callback"]:
        raise Unrecognised("_async_request: prologue")
    return guarded


_UNREG = "self._unregister_boxed(boxed)"
_BOX_TUPLE_PLAIN = "return (consts.LABEL_TUPLE, tuple((self._box(item) for item in obj)))"
_BOX_TUPLE_ROLLBACK = ("boxed = []\ntry:\n    for item in obj:\n        boxed.append(self._box(item))\nexcept BaseException:\n"
                       "    self._unregister_boxed((consts.LABEL_TUPLE, boxed))\n    raise\nreturn (consts.LABEL_TUPLE, tuple(boxed))")
_UNREGISTER = ("def _unregister_boxed(self, package):\n    label, value = package\n    if label == consts.LABEL_TUPLE:\n"
               "        for item in value:\n            self._unregister_boxed(item)\n    elif label == consts.LABEL_REMOTE_REF:\n"
               "        self._local_objects.decref(value)")


def _box_form(conn):
    """(canonical shape text of _box, rolls back): the tuple branch either boxes with a generator (what it registered for
    earlier items stays when a later item fails) or item by item, giving back on failure"""
    fn = _Inert().visit(ast.parse(ast.unparse(find_func(conn, "_box"))).body[0])
    tup = [st for st in fn.body if isinstance(st, ast.If) and _u(st.test) == "type(obj) is tuple"]
    if len(tup) != 1:
        raise Unrecognised("_box: tuple branch")
    inner = "\n".join(_u(x) for x in tup[0].body)
    if inner == _BOX_TUPLE_PLAIN:
        return ast.unparse(fn), False
    if inner == _BOX_TUPLE_ROLLBACK:
        tup[0].body = ast.parse(_BOX_TUPLE_PLAIN).body       # the same function with the plain tuple branch: one snapshot serves both forms
        return ast.unparse(fn), True
    raise Unrecognised("_box: tuple branch is neither the plain nor the rolling-back form")


def _failed_send_releases(conn):
    """what _box registered is given back when the message is not sent: _box rolls back a half-boxed tuple, _async_request and
    the reply path of _dispatch_request unregister after a failed box/send.  All three or none (fail closed)."""
    _, box_rb = _box_form(conn)
    try:
        unreg = func_shape(find_func(conn, "_unregister_boxed")) == _UNREGISTER
        has_unreg = True
    except Unrecognised:
        unreg, has_unreg = False, False
    if has_unreg and not unreg:
        raise Unrecognised("_unregister_boxed: body")
    areq = find_func(conn, "_async_request")
    a_un = sum(1 for x in ast.walk(areq) if isinstance(x, ast.Expr) and _u(x) == _UNREG)
    disp = find_func(conn, "_dispatch_request")
    d_un = sum(1 for x in ast.walk(disp) if isinstance(x, ast.Expr) and _u(x) == _UNREG)
    if box_rb and unreg and a_un == 1 and d_un == 1:
        # the unregister calls sit in the handlers of the try that boxes and sends
        for fn in (areq, disp):
            ok = False
            for tr in ast.walk(fn):
                if isinstance(tr, ast.Try) and any(_u(x) == "boxed = self._box(args)" or _u(x) == "boxed = self._box(res)" for x in tr.body):
                    ok = any(any(_u(y) == "if boxed is not None:\n    " + _UNREG for y in h.body) for h in tr.handlers if _u(h.type) == "Exception")
            if not ok:
                raise Unrecognised("%s: unregister not in the handler of the boxing try" % fn.name)
        return True
    if not box_rb and not has_unreg and a_un == 0 and d_un == 0:
        return False
    raise Unrecognised("failed-send rollback only partly present")


def _reply_checks_closed(conn):
    """_dispatch_request refuses (EOFError) before boxing the result once the channel is closed"""
    fn = find_func(conn, "_dispatch_request")
    tries = [st for st in strip_doc(fn.body) if isinstance(st, ast.Try)]
    if len(tries) != 1 or not tries[0].orelse:
        raise Unrecognised("_dispatch_request: shape")
    inner = [st for st in tries[0].orelse if isinstance(st, ast.Try)]
    if len(inner) != 1:
        raise Unrecognised("_dispatch_request: reply try")
    n_box = sum(1 for x in ast.walk(inner[0]) if isinstance(x, ast.Call) and _u(x.func) == "self._box")
    if n_box != 1:
        raise Unrecognised("_dispatch_request: boxing of the result")
    guards = [i for i, st in enumerate(inner[0].body) if isinstance(st, ast.If) and _u(st.test) == "self._channel.closed"]
    if not guards:
        return False
    g = inner[0].body[guards[0]]
    box_at = [i for i, st in enumerate(inner[0].body) if any(isinstance(x, ast.Call) and _u(x.func) == "self._box" for x in ast.walk(st))]
    if not (len(g.body) == 1 and isinstance(g.body[0], ast.Raise) and _u(g.body[0].exc).startswith("EOFError(") and not g.orelse
            and box_at and guards[0] < box_at[0]):
        raise Unrecognised("_dispatch_request: closed test")
    return True


def _keeps_last_traceback(conn):
    fn = find_func(conn, "_dispatch_request")
    n = sum(1 for x in ast.walk(fn) if isinstance(x, ast.Assign) and _u(x) == "self._last_traceback = tb")
    if n > 1:
        raise Unrecognised("_dispatch_request: _last_traceback")
    return n == 1


def _netref_init(base):
    fn = find_func(base, "__init__")
    vals = [st for st in strip_doc(fn.body) if isinstance(st, ast.Assign) and _u(st.targets[0]) == "self.____refcount__"]
    if len(vals) != 1 or len(strip_doc(fn.body)) != 3:
        raise Unrecognised("BaseNetref.__init__")
    return const_int(vals[0].value)


def _netref_del(base):
    fn = find_func(base, "__del__")
    b = strip_doc(fn.body)
    if not (len(b) == 1 and isinstance(b[0], ast.Try) and len(b[0].body) == 1 and not b[0].orelse and not b[0].finalbody
            and isinstance(b[0].body[0], ast.Expr) and isinstance(b[0].body[0].value, ast.Call)):
        raise Unrecognised("BaseNetref.__del__: body")
    c = b[0].body[0].value
    if not (_u(c.func) == "asyncreq" and not c.keywords and len(c.args) in (2, 3) and _u(c.args[0]) == "self"
            and _u(c.args[1]) == "consts.HANDLE_DEL"):
        raise Unrecognised("BaseNetref.__del__: call " + _u(c))
    if len(c.args) == 2:
        return "DDefault", [1]
    if _u(c.args[2]) == "self.____refcount__":
        return "DRefcount", [0]
    n = const_int(c.args[2])
    return "(DConst %s)" % coq_z(n), [2, n]


def facts(repo):
    """every typed fact, as Python values (also used by the harness to parameterise the extracted model)"""
    colls = find_class(parse(repo, SRC), "RefCountingColl")
    conn = find_class(parse(repo, SRC_PROTOCOL), "Connection")
    base = find_class(parse(repo, SRC_NETREF), "BaseNetref")
    init, inc = _add(colls)
    cmp_, ddef = _decref(colls)
    f = {"add_init": init, "add_inc": inc, "dec_cmp": cmp_, "decref_default": ddef,
         "handle_del_default": _handle_del(conn), "proxy_init": _netref_init(base), "unbox_inc": _unbox_inc(conn),
         "del_src": _netref_del(base)}
    f["cleanup_clears"], f["cleanup_guarded"] = _cleanup_facts(conn)
    f["close_finally"] = _close_finally(conn)
    f["send_checks_closed"] = _send_checks_closed(conn)
    f["keeps_last_traceback"] = _keeps_last_traceback(conn)
    f["failed_send_releases"] = _failed_send_releases(conn)
    f["reply_checks_closed"] = _reply_checks_closed(conn)
    return f


def params_sx(repo):
    """the model's rparams in the order Refcount.params_of_sx expects"""
    f = facts(repo)
    return [f["add_init"], f["add_inc"], CMP_NUM[f["dec_cmp"]], f["handle_del_default"], f["proxy_init"], f["unbox_inc"],
            f["del_src"][1], 1 if f["cleanup_clears"] else 0, 1 if f["send_checks_closed"] else 0,
            1 if f["cleanup_guarded"] else 0, 1 if f["close_finally"] else 0,
            1 if f["failed_send_releases"] else 0, 1 if f["reply_checks_closed"] else 0]


def translate(repo):
    items = []

    def guarded(name, f):
        try:
            r = f()
            items.extend(r if isinstance(r, list) else [r])
        except Unrecognised as e:
            items.append(Item("!" + name, "failed", text=str(e)))

    def typed_facts():
        f = facts(repo)
        out = [typed("add_init", "Z", coq_z(f["add_init"])), typed("add_inc", "Z", coq_z(f["add_inc"])),
               typed("dec_cmp", "rcmp", f["dec_cmp"]), typed("decref_default", "Z", coq_z(f["decref_default"])),
               typed("handle_del_default", "Z", coq_z(f["handle_del_default"])),
               typed("proxy_init", "Z", coq_z(f["proxy_init"])), typed("unbox_inc", "Z", coq_z(f["unbox_inc"])),
               typed("del_src", "delsrc", f["del_src"][0]), typed("cleanup_clears", "bool", coq_bool(f["cleanup_clears"])),
               typed("send_checks_closed", "bool", coq_bool(f["send_checks_closed"])),
               typed("cleanup_guarded", "bool", coq_bool(f["cleanup_guarded"])),
               typed("close_finally", "bool", coq_bool(f["close_finally"])),
               typed("keeps_last_traceback", "bool", coq_bool(f["keeps_last_traceback"])),
               typed("failed_send_releases", "bool", coq_bool(f["failed_send_releases"])),
               typed("reply_checks_closed", "bool", coq_bool(f["reply_checks_closed"]))]
        out.append(typed("params", "rparams",
                         "{| p_add_init := add_init; p_add_inc := add_inc; p_dec_cmp := dec_cmp; "
                         "p_dec_default := handle_del_default; p_proxy_init := proxy_init; p_unbox_inc := unbox_inc; "
                         "p_del_src := del_src; p_cleanup_clears := cleanup_clears; p_send_checks_closed := send_checks_closed; "
                         "p_cleanup_guarded := cleanup_guarded; p_close_finally := close_finally; "
                         "p_failed_send_releases := failed_send_releases; p_reply_checks_closed := reply_checks_closed |}"))
        return out
    guarded("params", typed_facts)

    def shapes_of(rel, clsname, names, prefix):
        def f():
            cls = find_class(parse(repo, rel), clsname)
            out = []
            for nm in names:
                try:
                    out.append(shape(prefix + nm, func_shape(find_func(cls, nm))))
                except Unrecognised as e:
                    out.append(Item("!" + prefix + nm, "failed", text=str(e)))
            return out
        return f
    guarded("colls", shapes_of(SRC, "RefCountingColl", ["__init__", "add", "clear", "decref", "__getitem__"], "RefCountingColl."))
    guarded("weakdict", shapes_of(SRC, "WeakValueDict", ["__contains__", "__getitem__", "__setitem__"], "WeakValueDict."))
    guarded("protocol", shapes_of(SRC_PROTOCOL, "Connection", ["_unbox", "_handle_del"], "Connection."))

    def box_shape():
        return shape("Connection._box", _box_form(find_class(parse(repo, SRC_PROTOCOL), "Connection"))[0])
    guarded("Connection._box", box_shape)
    guarded("netref", shapes_of(SRC_NETREF, "BaseNetref", ["__init__", "__del__"], "BaseNetref."))

    def asyncreq_shape():
        tree = parse(repo, SRC_NETREF)
        return shape("netref.asyncreq", func_shape(find_func(tree, "asyncreq")))
    guarded("asyncreq", asyncreq_shape)
    return items
