"""rpyc/lib/__init__.py: the Timeout helper as Gallina functions over an integer clock.

Python value -> Gallina:
  timeout (None or a number)      option Z   (`timeout is not None and E` becomes a match binding the number)
  time.time()                     now : Z
  self.finite / self.tmax         self_finite : bool / self_tmax : Z
  `E if self.finite else None`    for tmax: `if self_finite then E else 0` (tmax is never read when not finite: every use in
                                  the class is guarded by self.finite, which this translator checks by translating those uses);
                                  for timeleft (an optional result): `if self_finite then Some E else None`
Anything outside this grammar fails closed."""
from .core import *

SRC = "rpyc/lib/__init__.py"
PRELUDE = ("From Coq Require Import Bool.\n"
           "Definition oz (o : option Z) : Z := match o with Some z => z | None => 0%Z end.\n")

CMP = {ast.GtE: ">=?", ast.Gt: ">?", ast.LtE: "<=?", ast.Lt: "<?", ast.Eq: "=?"}


def _is_time_call(e):
    return isinstance(e, ast.Call) and not e.args and not e.keywords and ast.unparse(e.func) == "time.time"


def zexpr(e, env):
    """integer-valued expression"""
    if _is_time_call(e):
        return "now"
    if isinstance(e, ast.Name) and e.id in env:
        kind, nm = env[e.id]
        if kind == "Z":
            return nm
        if kind == "optZ":
            return "(oz %s)" % nm
    if isinstance(e, ast.Attribute) and isinstance(e.value, ast.Name) and e.value.id == "self" and e.attr == "tmax":
        return "self_tmax"
    if isinstance(e, ast.Constant) and isinstance(e.value, int) and not isinstance(e.value, bool):
        return coq_z(e.value)
    if isinstance(e, ast.BinOp) and isinstance(e.op, (ast.Add, ast.Sub)):
        return "(%s %s %s)%%Z" % (zexpr(e.left, env), "+" if isinstance(e.op, ast.Add) else "-", zexpr(e.right, env))
    if isinstance(e, ast.Call) and isinstance(e.func, ast.Name) and e.func.id == "max" and len(e.args) == 1 \
            and isinstance(e.args[0], ast.Tuple) and len(e.args[0].elts) == 2 and not e.keywords:
        a, b = e.args[0].elts
        return "(Z.max %s %s)" % (zexpr(a, env), zexpr(b, env))
    raise Unrecognised("integer expression: " + ast.unparse(e))


def bexpr(e, env):
    """boolean expression"""
    if isinstance(e, ast.Attribute) and isinstance(e.value, ast.Name) and e.value.id == "self" and e.attr == "finite":
        return "self_finite"
    if isinstance(e, ast.BoolOp) and isinstance(e.op, ast.And) and len(e.values) == 2:
        a, b = e.values
        # `x is not None and E(x)`
        if isinstance(a, ast.Compare) and len(a.ops) == 1 and isinstance(a.ops[0], ast.IsNot) and isinstance(a.left, ast.Name) \
                and isinstance(a.comparators[0], ast.Constant) and a.comparators[0].value is None \
                and env.get(a.left.id, ("", ""))[0] == "optZ":
            x = a.left.id
            env2 = dict(env)
            env2[x] = ("Z", x + "_v")
            return "match %s with Some %s_v => %s | None => false end" % (env[x][1], x, bexpr(b, env2))
        return "(%s && %s)%%bool" % (bexpr(a, env), bexpr(b, env))
    if isinstance(e, ast.Compare) and len(e.ops) == 1 and type(e.ops[0]) in CMP:
        return "(%s %s %s)%%Z" % (zexpr(e.left, env), CMP[type(e.ops[0])], zexpr(e.comparators[0], env))
    raise Unrecognised("boolean expression: " + ast.unparse(e))


def _is_none(e):
    return isinstance(e, ast.Constant) and e.value is None


def _self_assign(st, attr):
    if isinstance(st, ast.Assign) and len(st.targets) == 1 and ast.unparse(st.targets[0]) == "self." + attr:
        return st.value
    raise Unrecognised("self.%s = ..." % attr)


def translate(repo):
    tree = parse(repo, SRC)
    cls = find_class(tree, "Timeout")
    items = []

    def guarded(f):
        try:
            r = f()
            items.extend(r if isinstance(r, list) else [r])
        except Unrecognised as e:
            items.append(Item("!" + f.__name__, "failed", text=str(e)))

    def init():
        fn = find_func(cls, "__init__")
        if [a.arg for a in fn.args.args] != ["self", "timeout"]:
            raise Unrecognised("Timeout.__init__ arguments")
        body = strip_doc(fn.body)
        if not (len(body) == 1 and isinstance(body[0], ast.If) and ast.unparse(body[0].test) == "isinstance(timeout, Timeout)"):
            raise Unrecognised("Timeout.__init__ body")
        copy = [ast.unparse(s) for s in body[0].body]
        if copy != ["self.finite = timeout.finite", "self.tmax = timeout.tmax"]:
            raise Unrecognised("Timeout.__init__ copy branch")
        new = body[0].orelse
        if len(new) != 2:
            raise Unrecognised("Timeout.__init__ else branch")
        env = {"timeout": ("optZ", "timeout")}
        fin = bexpr(_self_assign(new[0], "finite"), env)
        tm = _self_assign(new[1], "tmax")
        if not (isinstance(tm, ast.IfExp) and ast.unparse(tm.test) == "self.finite" and _is_none(tm.orelse)):
            raise Unrecognised("Timeout.__init__ tmax")
        return [typed("Timeout_init_finite", "option Z -> bool", "fun timeout => " + fin),
                typed("Timeout_init_tmax", "Z -> option Z -> bool -> Z",
                      "fun now timeout self_finite => if self_finite then %s else 0%%Z" % zexpr(tm.body, env)),
                typed("Timeout_init_copies_fields", "list string", coq_list(coq_string(c) for c in copy))]
    guarded(init)

    def expired():
        fn = find_func(cls, "expired")
        body = strip_doc(fn.body)
        if not (len(body) == 1 and isinstance(body[0], ast.Return) and [a.arg for a in fn.args.args] == ["self"]):
            raise Unrecognised("Timeout.expired")
        return typed("Timeout_expired", "bool -> Z -> Z -> bool", "fun self_finite self_tmax now => " + bexpr(body[0].value, {}))
    guarded(expired)

    def timeleft():
        fn = find_func(cls, "timeleft")
        body = strip_doc(fn.body)
        if not (len(body) == 1 and isinstance(body[0], ast.Return) and [a.arg for a in fn.args.args] == ["self"]):
            raise Unrecognised("Timeout.timeleft")
        v = body[0].value
        if not (isinstance(v, ast.IfExp) and ast.unparse(v.test) == "self.finite" and _is_none(v.orelse)):
            raise Unrecognised("Timeout.timeleft value")
        return typed("Timeout_timeleft", "bool -> Z -> Z -> option Z",
                     "fun self_finite self_tmax now => if self_finite then Some %s else None" % zexpr(v.body, {}))
    guarded(timeleft)

    # everything else of the class, and the module's use of the clock, as shape snapshots
    members = [n.name for n in cls.body if isinstance(n, ast.FunctionDef)]
    items.append(shape("Timeout_members", ", ".join(members)))
    for nm in members:
        if nm not in ("__init__", "expired", "timeleft"):
            items.append(shape("Timeout_" + nm, func_shape(find_func(cls, nm))))
    imports = [ast.unparse(n) for n in tree.body if isinstance(n, (ast.Import, ast.ImportFrom)) and "time" in ast.unparse(n)]
    items.append(shape("imports_time", "; ".join(imports)))
    return items
