from .core import *

SRC = "rpyc/core/protocol.py"


def translate(repo):
    tree = parse(repo, SRC)
    cls = find_class(tree, "Connection")
    u = ast.unparse
    items = []
    # ---- close()
    cl = strip_doc(find_func(cls, "close").body)
    if not (len(cl) == 2 and isinstance(cl[1], ast.Try)):
        raise Unrecognised("close: shape")
    items.append(typed("close_checks_closed_first", "bool", coq_bool(u(cl[0]) == "if self._closed:\n    return")))
    t = cl[1]
    tb = [u(x) for x in t.body]
    if "self._async_request(consts.HANDLE_CLOSE)" not in tb or "self._closed = True" not in tb:
        before = False
    else:
        before = tb.index("self._closed = True") < tb.index("self._async_request(consts.HANDLE_CLOSE)")
    items.append(typed("close_sets_closed_before_io", "bool", coq_bool(before)))
    items.append(typed("close_cleanup_in_finally", "bool", coq_bool([u(x) for x in t.finalbody] == ["self._cleanup(_anyway=True)"])))
    eof = [h for h in t.handlers if h.type is not None and u(h.type) == "EOFError"]
    items.append(typed("close_swallows_eof", "bool", coq_bool(len(eof) == 1 and [u(x) for x in eof[0].body] == ["pass"]
                                                              and t.handlers.index(eof[0]) == 0)))
    items.append(shape("close.other_handlers", "\n".join(u(h) for h in t.handlers if h not in eof)))
    # ---- _cleanup(): guard, flag, channel, hook, then the clears - either straight after the hook or in a `finally` around it
    cf = strip_doc(find_func(cls, "_cleanup").body)
    cu = [u(x) for x in cf]
    want_prefix = ["if self._closed and (not _anyway):\n    return", "self._closed = True", "self._channel.close()"]
    HOOK = "self._local_root.on_disconnect(self)"
    CLEARS = ("self._local_root = None", "self._local_objects.clear()", "self._request_callbacks.clear()", "self._proxy_cache.clear()")
    ok, in_finally = False, False
    if cu[:3] == want_prefix and len(cf) > 3:
        if cu[3] == HOOK:
            rest = cu[4:]
            ok = all(c in rest for c in CLEARS)
        elif isinstance(cf[3], ast.Try) and [u(x) for x in cf[3].body] == [HOOK] and not cf[3].handlers and not cf[3].orelse and len(cf) == 4:
            fin = [u(x) for x in cf[3].finalbody]
            ok = in_finally = all(c in fin for c in CLEARS)
    if sum(x.count("on_disconnect") for x in cu) != 1:
        ok = False
    items.append(typed("cleanup_hook_once_guard", "bool", coq_bool(ok)))
    items.append(typed("cleanup_clears_in_finally", "bool", coq_bool(ok and in_finally)))
    # the clears include the table of pending request callbacks (what makes "nothing stays registered after the end" true)
    all_clears = cu[4:] if (len(cu) > 3 and cu[3] == HOOK) else ([u(x) for x in cf[3].finalbody] if len(cf) > 3 and isinstance(cf[3], ast.Try) else [])
    items.append(typed("cleanup_clears_callbacks", "bool", coq_bool("self._request_callbacks.clear()" in all_clears)))
    items.append(typed("cleanup_default_anyway", "bool", coq_bool(u(find_func(cls, "_cleanup").args).endswith("_anyway=True"))))
    items.append(shape("_cleanup", func_shape(find_func(cls, "_cleanup"))))
    hc = [u(x) for x in strip_doc(find_func(cls, "_handle_close").body)]
    if hc not in (["self._cleanup()"], ["self._cleanup(_anyway=False)"]):
        raise Unrecognised("_handle_close: %r" % (hc,))
    items.append(typed("handle_close_is_cleanup", "bool", coq_bool(True)))            # one of the two forms above: the cleanup, raw or guarded
    # guarded: a close request served while close() itself is under way (flag already set) leaves the cleanup to that close()
    items.append(typed("handle_close_guarded", "bool", coq_bool(hc == ["self._cleanup(_anyway=False)"])))
    # ---- serve(): where EOFError closes
    sv = strip_doc(find_func(cls, "serve").body)
    tr = [n for n in sv if isinstance(n, ast.Try)]
    read_closes = False
    dispatch_closes = False
    for t2 in tr:
        body_txt = [u(x) for x in t2.body]
        for h in t2.handlers:
            if h.type is not None and u(h.type) == "EOFError" and [u(x) for x in h.body] == ["self.close()", "raise"]:
                if any("self._channel.recv()" in b for b in body_txt):
                    read_closes = True
                if any(b == "self._dispatch(data)" for b in body_txt):
                    dispatch_closes = True
    if not any(u(x) == "self._dispatch(data)" for n in sv for x in ast.walk(n) if isinstance(x, ast.Expr)):
        raise Unrecognised("serve: no dispatch")
    items.append(typed("serve_read_eof_closes", "bool", coq_bool(read_closes)))
    items.append(typed("serve_dispatch_eof_closes", "bool", coq_bool(dispatch_closes)))
    sa = strip_doc(find_func(cls, "serve_all").body)
    ok = len(sa) == 1 and isinstance(sa[0], ast.Try) and [u(x) for x in sa[0].finalbody] == ["self.close()"] \
        and any(h.type is not None and u(h.type) == "EOFError" and [u(x) for x in h.body] == ["pass"] for h in sa[0].handlers)
    items.append(typed("serve_all_finally_closes", "bool", coq_bool(ok)))
    items.append(shape("serve_all", func_shape(find_func(cls, "serve_all"))))
    return items
