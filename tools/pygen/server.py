"""rpyc/utils/server.py (+ Service._connect, Connection.__init__/close/_cleanup) -> Gen_server.v

Every method the server model (coq/model/Server.v) is written against is normalised (docstrings, comments and
self.logger.* calls removed) and compared with the templates below; a template carries the control skeleton
(list of `sinstr`) the model declares for that method and the facts the model takes as parameters:

  pool_close_drops     ThreadPoolServer.close closes the connections left in fd_to_conn before joining the workers
  pool_fail_discards   ThreadPoolServer._accept_method takes the socket out of self.clients when building the connection failed
  fork_parent_keeps    ForkingServer's parent keeps the accepted socket in self.clients (no such tree is known: always false)
  worker_tracks_served _authenticate_and_serve_client re-registers in self.clients the socket the authenticator returned when it is another object
  accept_survives_oserror  Server.accept carries on after EMFILE/ENFILE/ENOBUFS/ENOMEM/ECONNABORTED/EPROTO from accept()
  accept_rechecks_closed   Server.accept looks at _closed again after clients.add(sock) (and closes the socket itself)
  pool_catches_base    ThreadPoolServer._serve_requests catches a BaseException that is not an Exception and drops that connection
                       (otherwise it escapes _serve_clients' `except Exception` too and the worker thread ends)
  connect_instantiates_class, conn_tables_fresh, conn_close_guarded, cleanup_runs_hook
                       one service instance per connection when a class is registered / fresh per-connection tables /
                       Connection.close is guarded by _closed / _cleanup calls on_disconnect exactly once

A method whose normalised text matches no template raises Unrecognised (fail closed): the typed item is absent and
proofs/ServerTie.v stops compiling.  Shape items snapshot the other methods."""
from .core import *
import textwrap

SRC = "rpyc/utils/server.py"
PRELUDE = "From V Require Import model.Server.\n"

LOG_METHODS = ("debug", "info", "warn", "warning", "error", "exception", "critical")


class _NoLog(ast.NodeTransformer):
    """remove docstrings / bare constants and self.logger.<level>(...) statements (inert for the bookkeeping)"""

    @staticmethod
    def _is_log(st):
        if not (isinstance(st, ast.Expr) and isinstance(st.value, ast.Call)):
            return False
        f = st.value.func
        return isinstance(f, ast.Attribute) and f.attr in LOG_METHODS and ast.unparse(f.value) == "self.logger"

    def generic_visit(self, node):
        super().generic_visit(node)
        for fld in ("body", "orelse", "finalbody"):
            v = getattr(node, fld, None)
            if isinstance(v, list) and v and all(isinstance(x, ast.stmt) for x in v):
                out = [s for s in v if not self._is_log(s) and not (isinstance(s, ast.Expr) and isinstance(s.value, ast.Constant))]
                setattr(node, fld, out or ([ast.Pass()] if fld in ("body", "finalbody") else []))
        return node


def norm(fn):
    fn = _NoLog().visit(ast.parse(ast.unparse(fn)).body[0])
    return ast.unparse(ast.fix_missing_locations(fn))


def norm_text(src):
    return norm(ast.parse(textwrap.dedent(src)).body[0])


# ---------------------------------------------------------------- templates
T = {}


def template(cls, name, prog_name, prog, src, **facts):
    T.setdefault((cls, name), []).append((norm_text(src), prog_name, prog, facts))


template("Server", "close", "close_prog",
         ["CIfClosedReturn", "CSetClosed", "CClearActive", "CUnregisterGuarded", "CListenerShutdownGuarded", "CListenerClose",
          "CForClientsShutdownClose", "CClientsClear"], '''
def close(self):
    if self._closed:
        return
    self._closed = True
    self.active = False
    if self.auto_register:
        try:
            self.registrar.unregister(self.port)
        except Exception:
            pass
    try:
        self.listener.shutdown(socket.SHUT_RDWR)
    except (EnvironmentError, socket.error):
        pass
    self.listener.close()
    for c in set(self.clients):
        try:
            c.shutdown(socket.SHUT_RDWR)
        except Exception:
            pass
        c.close()
    self.clients.clear()
''')

_ACC_HEAD = '''
def accept(self):
    while self.active:
        try:
            sock, addrinfo = self.listener.accept()
        except socket.timeout:
            pass
        except socket.error:
            ex = sys.exc_info()[1]
            if get_exc_errno(ex) in (errno.EINTR, errno.EAGAIN):
                pass
'''
_ACC_SURVIVE = '''            elif get_exc_errno(ex) in (errno.EMFILE, errno.ENFILE, errno.ENOBUFS, errno.ENOMEM, errno.ECONNABORTED, errno.EPROTO):
                time.sleep(0.05)
'''
_ACC_MID = '''            else:
                raise EOFError()
        else:
            break
    if not self.active:
        return
    sock.setblocking(True)
    self.clients.add(sock)
'''
_ACC_RECHECK = '''    if self._closed:
        self.clients.discard(sock)
        sock.close()
        return
'''
_ACC_TAIL = '''    self._accept_method(sock)
'''
_ACC_TAIL_GUARDED = '''    try:
        self._accept_method(sock)
    except (RuntimeError, OSError):
        self.clients.discard(sock)
        sock.close()
'''
for _sv in (False, True):
    for _rc in (False, True):
        template("Server", "accept", "accept_prog",
                 ["AWhileActive", "AAccept", "ATimeoutContinue", "AEintrContinue"] + (["AResourceErrorSleepContinue"] if _sv else [])
                 + ["AErrorRaiseEOF", "AElseBreak", "AIfInactiveReturn", "ASetBlocking", "AClientsAdd"] + (["ARecheckClosed"] if _rc else [])
                 + ["ACallAcceptMethod", "ASpawnFailDiscardClose"],
                 _ACC_HEAD + (_ACC_SURVIVE if _sv else "") + _ACC_MID + (_ACC_RECHECK if _rc else "") + _ACC_TAIL_GUARDED,
                 accept_survives_oserror=_sv, accept_rechecks_closed=_rc, accept_survives_spawn_failure=True)
        template("Server", "accept", "accept_prog",
                 ["AWhileActive", "AAccept", "ATimeoutContinue", "AEintrContinue"] + (["AResourceErrorSleepContinue"] if _sv else [])
                 + ["AErrorRaiseEOF", "AElseBreak", "AIfInactiveReturn", "ASetBlocking", "AClientsAdd"] + (["ARecheckClosed"] if _rc else [])
                 + ["ACallAcceptMethod"],
                 _ACC_HEAD + (_ACC_SURVIVE if _sv else "") + _ACC_MID + (_ACC_RECHECK if _rc else "") + _ACC_TAIL,
                 accept_survives_oserror=_sv, accept_rechecks_closed=_rc, accept_survives_spawn_failure=False)

_WRK_HEAD = '''
def _authenticate_and_serve_client(self, sock):
    try:
        if self.authenticator:
            addrinfo = sock.getpeername()
            try:
                sock2, credentials = self.authenticator(sock)
            except AuthenticationError:
                return
'''
_WRK_TRACK = '''            else:
                if sock2 is not sock:
                    self.clients.discard(sock)
                    self.clients.add(sock2)
                    sock = sock2
'''
_WRK_TAIL = '''        else:
            credentials = None
            sock2 = sock
        try:
            self._serve_client(sock2, credentials)
        except Exception:
            raise
    finally:
        try:
            sock.shutdown(socket.SHUT_RDWR)
        except Exception:
            pass
        closing(sock)
        self.clients.discard(sock)
'''
template("Server", "_authenticate_and_serve_client", "worker_prog",
         ["WTry", "WIfAuthenticator", "WAuthenticate", "WAuthErrorReturn", "WTrackReplacedSocket", "WServeClient", "WReraise", "WFinallyShutdownGuarded", "WFinallyDiscard"],
         _WRK_HEAD + _WRK_TRACK + '''                    if self._closed:
                        sock2.close()
                        return
''' + _WRK_TAIL, worker_tracks_served=True, auth_rechecks_closed=True)
for _tr in (False, True):
    template("Server", "_authenticate_and_serve_client", "worker_prog",
             ["WTry", "WIfAuthenticator", "WAuthenticate", "WAuthErrorReturn"] + (["WTrackReplacedSocket"] if _tr else [])
             + ["WServeClient", "WReraise", "WFinallyShutdownGuarded", "WFinallyDiscard"],
             _WRK_HEAD + (_WRK_TRACK if _tr else "") + _WRK_TAIL, worker_tracks_served=_tr, auth_rechecks_closed=False)

template("Server", "_serve_client", "serve_client_prog", ["VPeerName", "VTry", "VConfig", "VConnect", "VHandle", "VFinallyPass"], '''
def _serve_client(self, sock, credentials):
    addrinfo = sock.getpeername()
    if credentials:
        pass
    try:
        config = dict(self.protocol_config, credentials=credentials, endpoints=(sock.getsockname(), addrinfo), logger=self.logger)
        conn = self.service._connect(Channel(SocketStream(sock)), config)
        self._handle_connection(conn)
    finally:
        pass
''')

template("Server", "_handle_connection", "handle_prog", ["HServeAll"], '''
def _handle_connection(self, conn):
    conn.serve_all()
''')

template("Server", "start", "start_prog",
         ["SListen", "SRegister", "STryWhileActiveAccept", "SExceptEOFPass", "SExceptKeyboardInterrupt", "SFinallyClose"], '''
def start(self):
    self._listen()
    self._register()
    try:
        while self.active:
            self.accept()
    except EOFError:
        pass
    except KeyboardInterrupt:
        print('')
    finally:
        self.close()
''')

template("OneShotServer", "_accept_method", "oneshot_prog", ["OTryServeInline", "OFinallyClose"], '''
def _accept_method(self, sock):
    try:
        self._authenticate_and_serve_client(sock)
    finally:
        self.close()
''')

template("ThreadedServer", "_accept_method", "threaded_prog", ["TSpawnWorker"], '''
def _accept_method(self, sock):
    spawn(self._authenticate_and_serve_client, sock)
''')

template("ForkingServer", "_accept_method", "forking_prog",
         ["KFork", "KChildRestoreSignals", "KChildCloseListener", "KChildClearClients", "KChildServe", "KChildExit",
          "KParentCloseSock", "KParentDiscard"], '''
def _accept_method(self, sock):
    pid = os.fork()
    if pid == 0:
        try:
            signal.signal(signal.SIGCHLD, self._prevhandler)
            signal.siginterrupt(signal.SIGCHLD, False)
            self.listener.close()
            self.clients.clear()
            self._authenticate_and_serve_client(sock)
        except Exception:
            pass
        finally:
            os._exit(0)
    else:
        sock.close()
        self.clients.discard(sock)
''', fork_parent_keeps=False)

template("ForkingServer", "close", "forking_close_prog", ["FCBaseClose", "FCRestoreSignal"], '''
def close(self):
    Server.close(self)
    signal.signal(signal.SIGCHLD, self._prevhandler)
''')

# ---- thread pool
_POOL_CLOSE_HEAD = '''
def close(self):
    Server.close(self)
    self.polling_thread.join()
'''
_POOL_CLOSE_TAIL = '''
    for _ in range(len(self.workers)):
        self._active_connection_queue.put(None)
    for w in self.workers:
        w.join()
'''
template("ThreadPoolServer", "close", "pool_close_prog", ["PCBaseClose", "PCJoinPoller", "PCPutNone", "PCJoinWorkers"],
         _POOL_CLOSE_HEAD + _POOL_CLOSE_TAIL, pool_close_drops=False)
for _loop in ('''
    for fd in list(self.fd_to_conn):
        self._remove_from_inactive_connection(fd)
        self._drop_connection(fd)
''', '''
    for fd in list(self.fd_to_conn.keys()):
        self._remove_from_inactive_connection(fd)
        self._drop_connection(fd)
''', '''
    for fd in list(self.fd_to_conn):
        self._drop_connection(fd)
''', '''
    for fd in list(self.fd_to_conn.keys()):
        self._drop_connection(fd)
'''):
    template("ThreadPoolServer", "close", "pool_close_prog", ["PCBaseClose", "PCJoinPoller", "PCDropAll", "PCPutNone", "PCJoinWorkers"],
             _POOL_CLOSE_HEAD + _loop + _POOL_CLOSE_TAIL, pool_close_drops=True)
    template("ThreadPoolServer", "close", "pool_close_prog", ["PCBaseClose", "PCDropAll", "PCJoinPoller", "PCPutNone", "PCJoinWorkers"],
             '''
def close(self):
    Server.close(self)
''' + _loop + '''
    self.polling_thread.join()
''' + _POOL_CLOSE_TAIL, pool_close_drops=True)

_POOL_ACCEPT = '''
def _accept_method(self, sock):
    try:
        addrinfo = None
        sock, conn = self._authenticate_and_build_connection(sock)
        addrinfo = sock.getpeername()
        fd = conn.fileno()
        self.fd_to_conn[fd] = conn
        self._add_inactive_connection(fd)
        self.clients.clear()
    except Exception:
        err_msg = 'Failed to serve client for {}, caught exception'.format(addrinfo)
        sock.close()
'''
_PA = ["PATry", "PAAuthenticateAndBuildInline", "PAFileno", "PARegisterFdToConn", "PAAddInactive", "PAClientsClear", "PAExceptCloseSock"]
template("ThreadPoolServer", "_accept_method", "pool_accept_prog", _PA, _POOL_ACCEPT, pool_fail_discards=False)
template("ThreadPoolServer", "_accept_method", "pool_accept_prog", _PA + ["PAExceptDiscard"],
         _POOL_ACCEPT + "        self.clients.discard(sock)\n", pool_fail_discards=True)

template("ThreadPoolServer", "_authenticate_and_build_connection", "pool_build_prog",
         ["PBIfAuthenticator", "PBAuthenticate", "PBPeerName", "PBConfig", "PBConnect"], '''
def _authenticate_and_build_connection(self, sock):
    if self.authenticator:
        sock, credentials = self.authenticator(sock)
    else:
        credentials = None
    addrinfo = sock.getpeername()
    config = dict(self.protocol_config, credentials=credentials, connid='{}'.format(addrinfo), endpoints=(sock.getsockname(), addrinfo))
    return (sock, self.service._connect(Channel(SocketStream(sock)), config))
''')

template("ThreadPoolServer", "_drop_connection", "drop_prog", ["DLookupDeleteGuarded", "DCloseIfFound"], '''
def _drop_connection(self, fd):
    conn = None
    try:
        conn = self.fd_to_conn[fd]
        del self.fd_to_conn[fd]
    except KeyError:
        pass
    if conn:
        conn.close()
''')

template("ThreadPoolServer", "_handle_poll_result", "poll_result_prog",
         ["RForEach", "RUnregister", "RIfErrorDrop", "RElseEnqueue", "RKeyErrorPass"], '''
def _handle_poll_result(self, connlist):
    for fd, evt in connlist:
        try:
            self._remove_from_inactive_connection(fd)
            if 'e' in evt or 'n' in evt or 'h' in evt:
                self._drop_connection(fd)
            else:
                self._active_connection_queue.put(fd)
        except KeyError:
            pass
''')

template("ThreadPoolServer", "_poll_inactive_clients", "poller_prog", ["LWhileActive", "LPoll", "LHandle", "LExceptSleep"], '''
def _poll_inactive_clients(self):
    while self.active:
        try:
            active_clients = self.poll_object.poll(0.1)
            self._handle_poll_result(active_clients)
        except Exception:
            ex = sys.exc_info()[1]
            time.sleep(0.2)
''')

_SERVE_REQ_HEAD = '''
def _serve_requests(self, fd):
    for _ in range(self.request_batch_size):
        try:
            if not self.fd_to_conn[fd].poll():
                self._add_inactive_connection(fd)
                return
        except EOFError:
            self._drop_connection(fd)
            return
        except Exception:
            self._active_connection_queue.put(fd)
            raise
'''
_SERVE_REQ_TAIL = '''
    self._active_connection_queue.put(fd)
'''
_SERVE_REQ_HEAD_ID = '''
def _serve_requests(self, fd):
    for _ in range(self.request_batch_size):
        try:
            conn = self.fd_to_conn[fd]
            if not conn.poll():
                self._add_inactive_connection(fd)
                return
        except EOFError:
            if self.fd_to_conn.get(fd) is conn:
                self._drop_connection(fd)
            return
        except Exception:
            self._active_connection_queue.put(fd)
            raise
'''
template("ThreadPoolServer", "_serve_requests", "serve_requests_prog",
         ["QForBatch", "QPollServes", "QIfNothingAddInactiveReturn", "QEOFDropReturn", "QOtherRequeueRaise", "QBatchDoneRequeue"],
         _SERVE_REQ_HEAD_ID + _SERVE_REQ_TAIL, pool_catches_base=False, pool_drop_checks_identity=True)
template("ThreadPoolServer", "_serve_requests", "serve_requests_prog",
         ["QForBatch", "QPollServes", "QIfNothingAddInactiveReturn", "QEOFDropReturn", "QOtherRequeueRaise", "QBaseDropReturn", "QBatchDoneRequeue"],
         _SERVE_REQ_HEAD_ID + '''        except BaseException:
            self._drop_connection(fd)
            return
''' + _SERVE_REQ_TAIL, pool_catches_base=True, pool_drop_checks_identity=True)
template("ThreadPoolServer", "_serve_requests", "serve_requests_prog",
         ["QForBatch", "QPollServes", "QIfNothingAddInactiveReturn", "QEOFDropReturn", "QOtherRequeueRaise", "QBatchDoneRequeue"],
         _SERVE_REQ_HEAD + _SERVE_REQ_TAIL, pool_catches_base=False)
template("ThreadPoolServer", "_serve_requests", "serve_requests_prog",
         ["QForBatch", "QPollServes", "QIfNothingAddInactiveReturn", "QEOFDropReturn", "QOtherRequeueRaise", "QBaseDropReturn", "QBatchDoneRequeue"],
         _SERVE_REQ_HEAD + '''        except BaseException:
            self._drop_connection(fd)
            return
''' + _SERVE_REQ_TAIL, pool_catches_base=True)

for _z, _test in ((False, "fd"), (True, "fd is not None")):
    template("ThreadPoolServer", "_serve_clients", "pool_worker_prog",
             ["XWhileActive", "XBlockingGet", "XIfFdServe", "XEmptyPass", "XExceptSleep"], '''
def _serve_clients(self):
    while self.active:
        try:
            fd = self._active_connection_queue.get(True)
            if %s:
                self._serve_requests(fd)
        except Queue.Empty:
            pass
        except Exception:
            time.sleep(0.2)
''' % _test, pool_serves_fd_zero=_z)

template("ThreadPoolServer", "_add_inactive_connection", "add_inactive_prog", ["IRegisterREH"], '''
def _add_inactive_connection(self, fd):
    self.poll_object.register(fd, 'reh')
''')

template("ThreadPoolServer", "_remove_from_inactive_connection", "remove_inactive_prog", ["IUnregisterGuarded"], '''
def _remove_from_inactive_connection(self, fd):
    try:
        self.poll_object.unregister(fd)
    except KeyError:
        pass
''')

ORDER = [("Server", "close"), ("Server", "accept"), ("Server", "_authenticate_and_serve_client"), ("Server", "_serve_client"),
         ("Server", "_handle_connection"), ("Server", "start"), ("OneShotServer", "_accept_method"), ("ThreadedServer", "_accept_method"),
         ("ForkingServer", "_accept_method"), ("ForkingServer", "close"), ("ThreadPoolServer", "close"), ("ThreadPoolServer", "_accept_method"),
         ("ThreadPoolServer", "_authenticate_and_build_connection"), ("ThreadPoolServer", "_drop_connection"),
         ("ThreadPoolServer", "_handle_poll_result"), ("ThreadPoolServer", "_poll_inactive_clients"), ("ThreadPoolServer", "_serve_requests"),
         ("ThreadPoolServer", "_serve_clients"), ("ThreadPoolServer", "_add_inactive_connection"),
         ("ThreadPoolServer", "_remove_from_inactive_connection")]

SHAPES = [("Server", "__init__"), ("Server", "_listen"), ("Server", "_register"), ("Server", "fileno"), ("Server", "_start_in_thread"),
          ("ThreadPoolServer", "__init__"), ("ThreadPoolServer", "_listen"), ("ForkingServer", "__init__"), ("ForkingServer", "_handle_sigchld")]


def _stmts(fn):
    return [ast.unparse(s) for s in strip_doc(fn.body) if not (isinstance(s, ast.Expr) and isinstance(s.value, ast.Constant))]


def translate(repo):
    tree = parse(repo, SRC)
    items, facts = [], {}
    for cls, name in ORDER:
        fn = None
        try:
            fn = find_func(find_class(tree, cls), name)
            got = norm(fn)
            for text, prog_name, prog, fs in T[(cls, name)]:
                if text == got:
                    items.append(typed(prog_name, "list sinstr", coq_list(prog)))
                    facts.update(fs)
                    break
            else:
                raise Unrecognised("%s.%s matches no template" % (cls, name))
        except Unrecognised as e:
            items.append(Item("!%s.%s" % (cls, name), "failed", text=str(e)))
        if fn is not None:
            items.append(shape("%s.%s" % (cls, name), func_shape(fn)))
    facts.setdefault("pool_drop_checks_identity", False)
    for k in ("pool_close_drops", "pool_fail_discards", "fork_parent_keeps", "pool_catches_base", "worker_tracks_served",
              "accept_survives_oserror", "accept_rechecks_closed", "pool_drop_checks_identity", "auth_rechecks_closed", "pool_serves_fd_zero",
              "accept_survives_spawn_failure"):
        if k in facts:
            items.append(typed(k, "bool", coq_bool(facts[k])))
    # clients is a set created per server; the pool's tables are created per server
    init = norm(find_func(find_class(tree, "Server"), "__init__"))
    items.append(typed("clients_is_fresh_set", "bool", coq_bool("self.clients = set()" in init and "self._closed = False" in init)))
    pinit = norm(find_func(find_class(tree, "ThreadPoolServer"), "__init__"))
    items.append(typed("pool_tables_fresh", "bool", coq_bool(
        "self.fd_to_conn = {}" in pinit and "self._active_connection_queue = Queue.Queue()" in pinit and "self.poll_object = poll()" in pinit)))
    plisten = _stmts(find_func(find_class(tree, "ThreadPoolServer"), "_listen"))
    items.append(typed("pool_spawns_nbthreads_workers_and_one_poller", "bool", coq_bool(
        any(s.startswith("for i in range(self.nbthreads):\n    t = spawn(self._serve_clients)") for s in plisten)
        and "self.polling_thread = spawn(self._poll_inactive_clients)" in plisten)))
    # the endpoint facts
    stree = parse(repo, "rpyc/core/service.py")
    conn_fn = find_func(find_class(stree, "Service"), "_connect")
    cs = _stmts(conn_fn)
    items.append(typed("connect_instantiates_class", "bool", coq_bool(
        cs == ["if isinstance(self, type):\n    self = self()", "conn = self._protocol(self, channel, config)", "self.on_connect(conn)", "return conn"]
        and [ast.unparse(d) for d in conn_fn.decorator_list] == ["hybridmethod"])))
    ptree = parse(repo, "rpyc/core/protocol.py")
    C_ = find_class(ptree, "Connection")
    ci = _stmts(find_func(C_, "__init__"))
    items.append(typed("conn_tables_fresh", "bool", coq_bool(
        all(s in ci for s in ("self._local_objects = RefCountingColl()", "self._proxy_cache = WeakValueDict()", "self._request_callbacks = {}",
                              "self._config = DEFAULT_CONFIG.copy()", "self._local_root = root")))))
    cl = _stmts(find_func(C_, "close"))
    items.append(typed("conn_close_guarded", "bool", coq_bool(
        len(cl) == 2 and cl[0] == "if self._closed:\n    return" and cl[1].startswith("try:\n    self._closed = True")
        and cl[1].endswith("finally:\n    self._cleanup(_anyway=True)"))))
    cu = _stmts(find_func(C_, "_cleanup"))
    items.append(typed("cleanup_runs_hook", "bool", coq_bool(
        cu[:3] == ["if self._closed and (not _anyway):\n    return", "self._closed = True", "self._channel.close()"] and len(cu) > 3
        and (cu[3] == "self._local_root.on_disconnect(self)" or cu[3].startswith("try:\n    self._local_root.on_disconnect(self)\nfinally:\n"))
        and sum(s.count("on_disconnect") for s in cu) == 1)))
    sa = _stmts(find_func(C_, "serve_all"))
    items.append(typed("serve_all_closes_in_finally", "bool", coq_bool(
        len(sa) == 1 and sa[0].startswith("try:\n    while not self.closed:\n        self.serve(None)") and sa[0].endswith("finally:\n    self.close()")
        and "except EOFError:\n    pass" in sa[0])))
    sv = _stmts(find_func(C_, "serve"))
    items.append(typed("serve_ignores_empty_payload", "bool", coq_bool(any("if not data:\n        return False" in x for x in sv))))
    for cls, name in SHAPES:
        items.append(shape("%s.%s" % (cls, name), func_shape(find_func(find_class(tree, cls), name))))
    # every class of the module with its bases and the names it defines: a new override in a subclass (accept, close, _serve_client ...)
    # would not be looked at by the (class, method) templates above -- it shows up here
    for n in tree.body:
        if isinstance(n, ast.ClassDef):
            names = sorted(m.name for m in n.body if isinstance(m, (ast.FunctionDef, ast.AsyncFunctionDef)))
            attrs = sorted(t.id for m in n.body if isinstance(m, ast.Assign) for t in m.targets if isinstance(t, ast.Name))
            items.append(shape("class:%s" % n.name, "bases=(%s) methods=%s attributes=%s" % (", ".join(ast.unparse(b) for b in n.bases), names, attrs)))
    items.append(shape("module:server:toplevel", ", ".join(sorted(
        (n.name if isinstance(n, (ast.ClassDef, ast.FunctionDef)) else ast.unparse(n)[:60]) for n in tree.body
        if not isinstance(n, (ast.Import, ast.ImportFrom)) and not (isinstance(n, ast.Expr) and isinstance(n.value, ast.Constant))))))
    items.append(shape("Service._connect", func_shape(conn_fn)))
    items.append(shape("Connection._cleanup", func_shape(find_func(C_, "_cleanup"))))
    items.append(shape("Connection.close", func_shape(find_func(C_, "close"))))
    items.append(shape("Connection.serve_all", func_shape(find_func(C_, "serve_all"))))
    items.append(shape("Connection.poll", func_shape(find_func(C_, "poll"))))
    return items
