"""rpyc/core/async_.py (AsyncResult), plus the three callers the property names: Connection.sync_request /
async_request (rpyc/core/protocol.py) and timed.__call__ (rpyc/utils/helpers.py).

Every anchored method is translated, statement by statement, into the skeleton language of coq/model/Async.v
(`stmt` / `guard` for AsyncResult, `cstmt` for the callers).  proofs/AsyncTie.v states `Gen = model's program` by
reflexivity and proofs/AsyncP.v proves that interpreting those programs yields the model's functions, so a change of
a guard, of the order of the field writes, of the callback loop or of where the expiry is armed stops the build.
A statement that matches no template fails closed.  The surrounding plumbing is kept as shape snapshots."""
from .core import *

SRC = "rpyc/core/async_.py"
PRELUDE = "From V Require Import lib.Base model.Async.\n"
PROTOCOL = "rpyc/core/protocol.py"
HELPERS = "rpyc/utils/helpers.py"
NETREF = "rpyc/core/netref.py"
CHANNEL = "rpyc/core/channel.py"
STREAM = "rpyc/core/stream.py"

ATOMS = {"self._is_ready": "GReady", "self._is_exc": "GIsExc", "self._ttl.expired()": "GTtlExpired",
         "self.expired": "GExpiredProp", "self.ready": "GReadyProp"}


def guard(e):
    txt = ast.unparse(e)
    if txt in ATOMS:
        return ATOMS[txt]
    if isinstance(e, ast.UnaryOp) and isinstance(e.op, ast.Not):
        return "(GNot %s)" % guard(e.operand)
    if isinstance(e, ast.BoolOp) and isinstance(e.op, ast.And) and len(e.values) >= 2:
        out = guard(e.values[-1])
        for v in reversed(e.values[:-1]):
            out = "(GAnd %s %s)" % (guard(v), out)
        return out
    raise Unrecognised("guard: " + txt)


def _bool_const(e):
    if isinstance(e, ast.Constant) and isinstance(e.value, bool):
        return "(Some %s)" % coq_bool(e.value)
    raise Unrecognised("return value: " + ast.unparse(e))


def stmt(st):
    """one statement of an AsyncResult method -> constructor text"""
    txt = ast.unparse(st)
    fixed = {"self._is_exc = is_exc": "SSetExc", "self._obj = obj": "SSetObj", "self._is_ready = True": "SSetReady",
             "for cb in self._callbacks:\n    cb(self)": "SRunCallbacks", "del self._callbacks[:]": "SDelCallbacks",
             "self._ttl = Timeout(timeout)": "SSetTtl", "self._conn.poll_all()": "SPollAll", "self.wait()": "SWait",
             # the repaired form (callbacks isolated from each other, registration atomic w.r.t. the arrival)
             "callbacks = self._callbacks[:]": "STakeCallbacks",
             "if error is not None:\n    raise error": "SReraiseFirst",
             "if not self._is_ready:\n    self._callbacks.append(func)\n    return": "SIfNotReadyAppendRet",
             "func(self)": "SCallFunc"}
    if txt in fixed:
        return fixed[txt]
    if isinstance(st, ast.If) and not st.orelse and len(st.body) == 1:
        b = st.body[0]
        if isinstance(b, ast.Return):
            return "SIfRet %s %s" % (guard(st.test), "None" if b.value is None else _bool_const(b.value))
        if isinstance(b, ast.Raise) and b.cause is None and isinstance(b.exc, ast.Call) \
                and ast.unparse(b.exc.func) == "AsyncResultTimeout" and all(isinstance(a, ast.Constant) for a in b.exc.args):
            return "SIfRaiseTimeout %s" % guard(st.test)
    if isinstance(st, ast.If) and len(st.body) == 1 and len(st.orelse) == 1:
        a, b = ast.unparse(st.body[0]), ast.unparse(st.orelse[0])
        if (a, b) == ("func(self)", "self._callbacks.append(func)"):
            return "SIfCallElseAppend %s" % guard(st.test)
        if (a, b) == ("raise self._obj", "return self._obj"):
            return "SIfRaiseObjElseRetObj %s" % guard(st.test)
    if isinstance(st, ast.While) and not st.orelse and len(st.body) == 1 \
            and ast.unparse(st.body[0]) == "self._conn.serve(self._ttl)":
        return "SWhileServe %s" % guard(st.test)
    if isinstance(st, ast.Return) and st.value is not None:
        return "SRetGuard %s" % guard(st.value)
    raise Unrecognised("statement: " + txt)


ISOLATED_LOOP = ("error = None",
                 "for cb in callbacks:\n    try:\n        cb(self)\n    except Exception as ex:\n        if error is None:\n            error = ex")
ISOLATED_LOOP_BASE = (ISOLATED_LOOP[0], ISOLATED_LOOP[1].replace("except Exception as ex", "except BaseException as ex"))
SEEN = {"baseexception": False}


def stmts(body):
    """a method body -> list of constructor texts; `with self._lock:` is flattened into acquire ... release"""
    out = []
    i = 0
    while i < len(body):
        st = body[i]
        if isinstance(st, ast.With) and len(st.items) == 1 and st.items[0].optional_vars is None \
                and ast.unparse(st.items[0].context_expr) == "self._lock":
            out += ["SLockAcquire"] + stmts(st.body) + ["SLockRelease"]
        elif i + 1 < len(body) and (ast.unparse(st), ast.unparse(body[i + 1])) in (ISOLATED_LOOP, ISOLATED_LOOP_BASE):
            SEEN["baseexception"] = (ast.unparse(st), ast.unparse(body[i + 1])) == ISOLATED_LOOP_BASE
            out.append("SRunTakenIsolated")
            i += 1
        else:
            out.append(stmt(st))
        i += 1
    return out


def isolated_of(callp):
    return "SRunTakenIsolated" in callp and "SRunCallbacks" not in callp


def locked_part(p):
    out, inside = [], False
    for x in p:
        if x == "SLockAcquire":
            inside = True
        elif x == "SLockRelease":
            inside = False
        elif inside:
            out.append(x)
    return out


def atomic_of(callp, addp):
    lc, la = locked_part(callp), locked_part(addp)
    return "SSetReady" in lc and "STakeCallbacks" in lc and "SIfNotReadyAppendRet" in la \
        and not any(x.startswith("SIfCallElseAppend") for x in addp)


def _drop_lock(text):
    """the repaired form adds a lock; the snapshots of __init__/__slots__/imports ignore it"""
    text = text.replace("\n    self._lock = threading.Lock()", "").replace(", '_lock'", "")
    return "; ".join(x for x in text.split("; ") if x != "import threading") if "; " in text or text == "import threading" else text


METHODS = [  # (python name, generated name, argument names, is property)
    ("__call__", "AsyncResult_call", ["self", "is_exc", "obj"], False),
    ("wait", "AsyncResult_wait", ["self"], False),
    ("add_callback", "AsyncResult_add_callback", ["self", "func"], False),
    ("set_expiry", "AsyncResult_set_expiry", ["self", "timeout"], False),
    ("ready", "AsyncResult_ready", ["self"], True),
    ("error", "AsyncResult_error", ["self"], True),
    ("expired", "AsyncResult_expired", ["self"], True),
    ("value", "AsyncResult_value", ["self"], True),
]


def cstmts_sync(fn):
    body = strip_doc(fn.body)
    if [a.arg for a in fn.args.args] != ["self", "handler"] or fn.args.vararg is None or fn.args.vararg.arg != "args" or len(body) != 2:
        raise Unrecognised("sync_request signature/body")
    a = body[0]
    if not (isinstance(a, ast.Assign) and ast.unparse(a.targets[0]) == "timeout" and isinstance(a.value, ast.Subscript)
            and ast.unparse(a.value.value) == "self._config" and isinstance(a.value.slice, ast.Constant)
            and isinstance(a.value.slice.value, str)):
        raise Unrecognised("sync_request: timeout = self._config[...]")
    if ast.unparse(body[1]) != "return self.async_request(handler, *args, timeout=timeout).value":
        raise Unrecognised("sync_request: return async_request(..., timeout=timeout).value")
    return ["CReadConfigTimeout %s" % coq_string(a.value.slice.value), "CAsyncRequestWithTimeout", "CReturnValue"]


def cstmts_async(fn):
    body = [ast.unparse(s) for s in strip_doc(fn.body)]
    plumbing = ["timeout = kwargs.pop('timeout', None)",
                "if kwargs:\n    raise TypeError('got unexpected keyword argument(s) %s' % (list(kwargs.keys()),))"]
    if body[:2] != plumbing:
        raise Unrecognised("async_request keyword plumbing")
    table = {"res = AsyncResult(self)": "CNewResult", "self._async_request(handler, args, res)": "CSendRequest",
             "if timeout is not None:\n    res.set_expiry(timeout)": "CIfTimeoutNotNoneSetExpiry", "return res": "CReturnRes"}
    out = []
    for s in body[2:]:
        if s not in table:
            raise Unrecognised("async_request statement: " + s)
        out.append(table[s])
    return out


def cstmts_timed(fn):
    table = {"res = self.proxy(*args, **kwargs)": "CAsyncProxyCall", "res.set_expiry(self.timeout)": "CSetExpiryOwn",
             "return res": "CReturnRes"}
    out = []
    for s in strip_doc(fn.body):
        t = ast.unparse(s)
        if t not in table:
            raise Unrecognised("timed.__call__ statement: " + t)
        out.append(table[t])
    return out


def translate(repo):
    items = []

    def guarded(name, f):
        try:
            r = f()
            items.extend(r if isinstance(r, list) else [r])
        except Unrecognised as e:
            items.append(Item("!" + name, "failed", text=str(e)))

    tree = parse(repo, SRC)
    cls = find_class(tree, "AsyncResult")
    progs = {}
    SEEN["baseexception"] = False
    for py, gen, argnames, is_prop in METHODS:
        def one(py=py, gen=gen, argnames=argnames, is_prop=is_prop):
            fn = find_func(cls, py)
            if [a.arg for a in fn.args.args] != argnames or fn.args.vararg or fn.args.kwarg:
                raise Unrecognised("%s arguments" % py)
            decos = [ast.unparse(d) for d in fn.decorator_list]
            if decos != (["property"] if is_prop else []):
                raise Unrecognised("%s decorators" % py)
            prog = stmts(strip_doc(fn.body))
            progs[py] = prog
            return typed(gen, "list stmt", coq_list(prog))
        guarded(gen, one)

    def facts():
        if "__call__" not in progs or "add_callback" not in progs:
            raise Unrecognised("__call__ / add_callback not translated")
        return [typed("callbacks_survive_baseexception", "bool", coq_bool(isolated_of(progs["__call__"]) and SEEN["baseexception"])),
                typed("callbacks_isolated", "bool", coq_bool(isolated_of(progs["__call__"]))),
                typed("add_callback_atomic", "bool", coq_bool(atomic_of(progs["__call__"], progs["add_callback"])))]
    guarded("facts", facts)
    for nm in ("__init__", "__repr__"):
        guarded("AsyncResult_" + nm, lambda nm=nm: shape("AsyncResult_" + nm, _drop_lock(func_shape(find_func(cls, nm)))))
    guarded("AsyncResult_slots", lambda: shape("AsyncResult_slots", _drop_lock(ast.unparse(find_assign(cls, "__slots__")))))
    guarded("AsyncResult_members", lambda: shape("AsyncResult_members", ", ".join(
        n.name for n in cls.body if isinstance(n, ast.FunctionDef))))
    guarded("imports", lambda: shape("imports", "; ".join(x for x in (ast.unparse(n) for n in tree.body if isinstance(n, (ast.Import, ast.ImportFrom)))
                                                          if x != "import threading")))

    ptree = parse(repo, PROTOCOL)
    conn = find_class(ptree, "Connection")
    guarded("Connection_sync_request", lambda: typed("Connection_sync_request", "list cstmt",
                                                    coq_list(cstmts_sync(find_func(conn, "sync_request")))))
    guarded("Connection_async_request", lambda: typed("Connection_async_request", "list cstmt",
                                                     coq_list(cstmts_async(find_func(conn, "async_request")))))
    for nm in ("_async_request", "_seq_request_callback", "serve", "poll", "poll_all", "_dispatch", "_unbox", "_netref_factory"):
        guarded("Connection_" + nm, lambda nm=nm: shape("Connection_" + nm, func_shape(find_func(conn, nm))))
    if any(isinstance(n, ast.FunctionDef) and n.name == "_dispatch_response" for n in conn.body):
        guarded("Connection__dispatch_response", lambda: shape("Connection__dispatch_response", func_shape(find_func(conn, "_dispatch_response"))))

    def dispatch_reply():
        """the MSG_REPLY branch of _dispatch: the value is unboxed (possibly over a round trip) before the callback is called.
        Two forms: inline (`obj = self._unbox(args)` then the callback), or through `_dispatch_response`, which also turns a
        payload that cannot be rebuilt into an exception delivered to that request (EOFError still propagates)."""
        fn = find_func(conn, "_dispatch")
        node = next((n for n in ast.walk(fn) if isinstance(n, ast.If) and ast.unparse(n.test) == "msg == consts.MSG_REPLY"), None)
        if node is None:
            raise Unrecognised("_dispatch: no MSG_REPLY branch")
        body = [ast.unparse(x) for x in node.body]
        delivered = False
        if body == ["self._dispatch_response(msg, seq, False, args)"]:
            exc_branch = node.orelse[0] if len(node.orelse) == 1 and isinstance(node.orelse[0], ast.If) else None
            if exc_branch is None or ast.unparse(exc_branch.test) != "msg == consts.MSG_EXCEPTION" \
                    or [ast.unparse(x) for x in exc_branch.body] != ["self._dispatch_response(msg, seq, True, args)"]:
                raise Unrecognised("_dispatch: MSG_EXCEPTION branch")
            dr = find_func(conn, "_dispatch_response")
            if [a.arg for a in dr.args.args] != ["self", "msg", "seq", "is_exc", "args"]:
                raise Unrecognised("_dispatch_response signature")
            want = ["try:\n    obj = self._unbox_exc(args) if is_exc else self._unbox(args)\nexcept EOFError:\n    raise\n"
                    "except Exception:\n    is_exc, obj = (True, sys.exc_info()[1])",
                    "self._seq_request_callback(msg, seq, is_exc, obj)"]
            if [ast.unparse(x) for x in strip_doc(dr.body)] != want:
                raise Unrecognised("_dispatch_response body")
            body = ["obj = self._unbox(args)", "self._seq_request_callback(msg, seq, False, obj)"]   # what it does for a reply
            delivered = True
        return [typed("Connection_dispatch_reply", "list string", coq_list(coq_string(x) for x in body)),
                typed("response_decode_failure_delivered", "bool", coq_bool(delivered))]
    guarded("Connection_dispatch_reply", dispatch_reply)

    htree = parse(repo, HELPERS)
    timed = find_class(htree, "timed")
    guarded("timed_call_body", lambda: typed("timed_call_body", "list cstmt", coq_list(cstmts_timed(find_func(timed, "__call__")))))
    guarded("timed_init", lambda: shape("timed_init", func_shape(find_func(timed, "__init__"))))
    guarded("Async_call", lambda: shape("Async_call", func_shape(find_func(find_class(htree, "_Async"), "__call__"))))
    ntree = parse(repo, NETREF)

    def req(name):
        fn = find_func(ntree, name)
        if [a.arg for a in fn.args.args] != ["proxy", "handler"] or fn.args.vararg is None or fn.args.vararg.arg != "args" \
                or fn.args.kwarg or fn.args.kwonlyargs:
            raise Unrecognised(name + " signature")
        table = {"conn = object.__getattribute__(proxy, '____conn__')": "CGetConn",
                 "return conn.sync_request(handler, proxy, *args)": "CReturnConnSyncRequest",
                 "return conn.async_request(handler, proxy, *args)": "CReturnConnAsyncRequest"}
        out = []
        for st in strip_doc(fn.body):
            t = ast.unparse(st)
            if t not in table:
                raise Unrecognised("%s statement: %s" % (name, t))
            out.append(table[t])
        return typed("netref_" + name, "list cstmt", coq_list(out))
    guarded("netref_syncreq", lambda: req("syncreq"))
    guarded("netref_asyncreq", lambda: req("asyncreq"))
    guarded("netref__make_method", lambda: shape("netref__make_method", func_shape(find_func(ntree, "_make_method"))))

    ctree = parse(repo, CHANNEL)
    chan = find_class(ctree, "Channel")
    for nm in ("poll", "recv"):
        guarded("Channel_" + nm, lambda nm=nm: shape("Channel_" + nm, func_shape(find_func(chan, nm))))
    stree = parse(repo, STREAM)
    sock = find_class(stree, "SocketStream")
    guarded("SocketStream_read", lambda: shape("SocketStream_read", func_shape(find_func(sock, "read"))))
    guarded("Stream_poll", lambda: shape("Stream_poll", func_shape(find_func(find_class(stree, "Stream"), "poll"))))
    return items
