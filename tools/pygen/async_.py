"""rpyc/core/async_.py (AsyncResult), plus the three callers the property names: Connection.sync_request /
async_request (rpyc/core/protocol.py) and timed.__call__ (rpyc/utils/helpers.py).

Every anchored method is translated, statement by statement, into the skeleton language of coq/model/Async.v
(`stmt` / `guard` for AsyncResult, `cstmt` for the callers).  proofs/AsyncTie.v states `Gen = model's program` by
reflexivity and proofs/AsyncP.v proves that interpreting those programs yields the model's functions, so a change of
a guard, of the order of the field writes, of the callback loop or of where the expiry is armed stops the build.
A statement that matches no template fails closed.  The surrounding plumbing is kept as shape snapshots."""
from .core import *

SRC = "rpyc/core/async_.py"
PRELUDE = "From V Require Import lib.Base model.Async.\n"
PROTOCOL = "rpyc/core/protocol.py"
HELPERS = "rpyc/utils/helpers.py"
NETREF = "rpyc/core/netref.py"

ATOMS = {"self._is_ready": "GReady", "self._is_exc": "GIsExc", "self._ttl.expired()": "GTtlExpired",
         "self.expired": "GExpiredProp", "self.ready": "GReadyProp"}


def guard(e):
    txt = ast.unparse(e)
    if txt in ATOMS:
        return ATOMS[txt]
    if isinstance(e, ast.UnaryOp) and isinstance(e.op, ast.Not):
        return "(GNot %s)" % guard(e.operand)
    if isinstance(e, ast.BoolOp) and isinstance(e.op, ast.And) and len(e.values) >= 2:
        out = guard(e.values[-1])
        for v in reversed(e.values[:-1]):
            out = "(GAnd %s %s)" % (guard(v), out)
        return out
    raise Unrecognised("guard: " + txt)


def _bool_const(e):
    if isinstance(e, ast.Constant) and isinstance(e.value, bool):
        return "(Some %s)" % coq_bool(e.value)
    raise Unrecognised("return value: " + ast.unparse(e))


def stmt(st):
    """one statement of an AsyncResult method -> constructor text"""
    txt = ast.unparse(st)
    fixed = {"self._is_exc = is_exc": "SSetExc", "self._obj = obj": "SSetObj", "self._is_ready = True": "SSetReady",
             "for cb in self._callbacks:\n    cb(self)": "SRunCallbacks", "del self._callbacks[:]": "SDelCallbacks",
             "self._ttl = Timeout(timeout)": "SSetTtl", "self._conn.poll_all()": "SPollAll", "self.wait()": "SWait"}
    if txt in fixed:
        return fixed[txt]
    if isinstance(st, ast.If) and not st.orelse and len(st.body) == 1:
        b = st.body[0]
        if isinstance(b, ast.Return):
            return "SIfRet %s %s" % (guard(st.test), "None" if b.value is None else _bool_const(b.value))
        if isinstance(b, ast.Raise) and b.cause is None and isinstance(b.exc, ast.Call) \
                and ast.unparse(b.exc.func) == "AsyncResultTimeout" and all(isinstance(a, ast.Constant) for a in b.exc.args):
            return "SIfRaiseTimeout %s" % guard(st.test)
    if isinstance(st, ast.If) and len(st.body) == 1 and len(st.orelse) == 1:
        a, b = ast.unparse(st.body[0]), ast.unparse(st.orelse[0])
        if (a, b) == ("func(self)", "self._callbacks.append(func)"):
            return "SIfCallElseAppend %s" % guard(st.test)
        if (a, b) == ("raise self._obj", "return self._obj"):
            return "SIfRaiseObjElseRetObj %s" % guard(st.test)
    if isinstance(st, ast.While) and not st.orelse and len(st.body) == 1 \
            and ast.unparse(st.body[0]) == "self._conn.serve(self._ttl)":
        return "SWhileServe %s" % guard(st.test)
    if isinstance(st, ast.Return) and st.value is not None:
        return "SRetGuard %s" % guard(st.value)
    raise Unrecognised("statement: " + txt)


METHODS = [  # (python name, generated name, argument names, is property)
    ("__call__", "AsyncResult_call", ["self", "is_exc", "obj"], False),
    ("wait", "AsyncResult_wait", ["self"], False),
    ("add_callback", "AsyncResult_add_callback", ["self", "func"], False),
    ("set_expiry", "AsyncResult_set_expiry", ["self", "timeout"], False),
    ("ready", "AsyncResult_ready", ["self"], True),
    ("error", "AsyncResult_error", ["self"], True),
    ("expired", "AsyncResult_expired", ["self"], True),
    ("value", "AsyncResult_value", ["self"], True),
]


def cstmts_sync(fn):
    body = strip_doc(fn.body)
    if [a.arg for a in fn.args.args] != ["self", "handler"] or fn.args.vararg is None or fn.args.vararg.arg != "args" or len(body) != 2:
        raise Unrecognised("sync_request signature/body")
    a = body[0]
    if not (isinstance(a, ast.Assign) and ast.unparse(a.targets[0]) == "timeout" and isinstance(a.value, ast.Subscript)
            and ast.unparse(a.value.value) == "self._config" and isinstance(a.value.slice, ast.Constant)
            and isinstance(a.value.slice.value, str)):
        raise Unrecognised("sync_request: timeout = self._config[...]")
    if ast.unparse(body[1]) != "return self.async_request(handler, *args, timeout=timeout).value":
        raise Unrecognised("sync_request: return async_request(..., timeout=timeout).value")
    return ["CReadConfigTimeout %s" % coq_string(a.value.slice.value), "CAsyncRequestWithTimeout", "CReturnValue"]


def cstmts_async(fn):
    body = [ast.unparse(s) for s in strip_doc(fn.body)]
    plumbing = ["timeout = kwargs.pop('timeout', None)",
                "if kwargs:\n    raise TypeError('got unexpected keyword argument(s) %s' % (list(kwargs.keys()),))"]
    if body[:2] != plumbing:
        raise Unrecognised("async_request keyword plumbing")
    table = {"res = AsyncResult(self)": "CNewResult", "self._async_request(handler, args, res)": "CSendRequest",
             "if timeout is not None:\n    res.set_expiry(timeout)": "CIfTimeoutNotNoneSetExpiry", "return res": "CReturnRes"}
    out = []
    for s in body[2:]:
        if s not in table:
            raise Unrecognised("async_request statement: " + s)
        out.append(table[s])
    return out


def cstmts_timed(fn):
    table = {"res = self.proxy(*args, **kwargs)": "CAsyncProxyCall", "res.set_expiry(self.timeout)": "CSetExpiryOwn",
             "return res": "CReturnRes"}
    out = []
    for s in strip_doc(fn.body):
        t = ast.unparse(s)
        if t not in table:
            raise Unrecognised("timed.__call__ statement: " + t)
        out.append(table[t])
    return out


def translate(repo):
    items = []

    def guarded(name, f):
        try:
            r = f()
            items.extend(r if isinstance(r, list) else [r])
        except Unrecognised as e:
            items.append(Item("!" + name, "failed", text=str(e)))

    tree = parse(repo, SRC)
    cls = find_class(tree, "AsyncResult")
    for py, gen, argnames, is_prop in METHODS:
        def one(py=py, gen=gen, argnames=argnames, is_prop=is_prop):
            fn = find_func(cls, py)
            if [a.arg for a in fn.args.args] != argnames or fn.args.vararg or fn.args.kwarg:
                raise Unrecognised("%s arguments" % py)
            decos = [ast.unparse(d) for d in fn.decorator_list]
            if decos != (["property"] if is_prop else []):
                raise Unrecognised("%s decorators" % py)
            return typed(gen, "list stmt", coq_list(stmt(s) for s in strip_doc(fn.body)))
        guarded(gen, one)
    for nm in ("__init__", "__repr__"):
        guarded("AsyncResult_" + nm, lambda nm=nm: shape("AsyncResult_" + nm, func_shape(find_func(cls, nm))))
    guarded("AsyncResult_slots", lambda: shape("AsyncResult_slots", ast.unparse(find_assign(cls, "__slots__"))))
    guarded("AsyncResult_members", lambda: shape("AsyncResult_members", ", ".join(
        n.name for n in cls.body if isinstance(n, ast.FunctionDef))))
    guarded("imports", lambda: shape("imports", "; ".join(ast.unparse(n) for n in tree.body if isinstance(n, (ast.Import, ast.ImportFrom)))))

    ptree = parse(repo, PROTOCOL)
    conn = find_class(ptree, "Connection")
    guarded("Connection_sync_request", lambda: typed("Connection_sync_request", "list cstmt",
                                                    coq_list(cstmts_sync(find_func(conn, "sync_request")))))
    guarded("Connection_async_request", lambda: typed("Connection_async_request", "list cstmt",
                                                     coq_list(cstmts_async(find_func(conn, "async_request")))))
    for nm in ("_async_request", "_seq_request_callback", "serve", "poll", "poll_all"):
        guarded("Connection_" + nm, lambda nm=nm: shape("Connection_" + nm, func_shape(find_func(conn, nm))))

    htree = parse(repo, HELPERS)
    timed = find_class(htree, "timed")
    guarded("timed_call_body", lambda: typed("timed_call_body", "list cstmt", coq_list(cstmts_timed(find_func(timed, "__call__")))))
    guarded("timed_init", lambda: shape("timed_init", func_shape(find_func(timed, "__init__"))))
    guarded("Async_call", lambda: shape("Async_call", func_shape(find_func(find_class(htree, "_Async"), "__call__"))))
    guarded("netref_asyncreq", lambda: shape("netref_asyncreq", func_shape(find_func(parse(repo, NETREF), "asyncreq"))))
    return items
