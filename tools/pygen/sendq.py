from .core import *

SRC = "rpyc/core/protocol.py"
PRELUDE = "From V Require Import model.SendQ.\n"


def translate(repo):
    tree = parse(repo, SRC)
    fn = find_func(find_class(tree, "Connection"), "_send")
    body = strip_doc(fn.body)
    body = [s for s in body if not (isinstance(s, ast.Expr) and isinstance(s.value, ast.Constant))]
    prog = []
    u = ast.unparse
    if len(body) != 3:
        raise Unrecognised("_send: expected dump / append / while")
    if u(body[0]) != "data = brine.dump((msg, seq, args))":
        raise Unrecognised("_send: first statement")
    if u(body[1]) != "self._send_queue.append(data)":
        raise Unrecognised("_send: append")
    prog.append("IAppend")
    w = body[2]
    if not (isinstance(w, ast.While) and u(w.test) == "self._send_queue" and not w.orelse):
        raise Unrecognised("_send: loop")
    prog.append("IWhileQueue")
    wb = [s for s in w.body if not (isinstance(s, ast.Expr) and isinstance(s.value, ast.Constant))]
    if len(wb) != 2:
        raise Unrecognised("_send: loop body")
    a = wb[0]
    if not (isinstance(a, ast.If) and u(a.test) == "not self._sendlock.acquire(False)" and not a.orelse
            and len(a.body) == 1 and isinstance(a.body[0], ast.Return) and a.body[0].value is None):
        raise Unrecognised("_send: try-acquire")
    prog.append("ITryAcquireElseReturn")
    t = wb[1]
    if not (isinstance(t, ast.Try) and not t.handlers and not t.orelse and len(t.finalbody) == 1
            and u(t.finalbody[0]) == "self._sendlock.release()"):
        raise Unrecognised("_send: try/finally")
    tb = [s for s in t.body if not (isinstance(s, ast.Expr) and isinstance(s.value, ast.Constant))]
    if len(tb) != 3:
        raise Unrecognised("_send: guarded body")
    c = tb[0]
    if not (isinstance(c, ast.If) and u(c.test) == "not self._send_queue" and not c.orelse and len(c.body) == 1
            and isinstance(c.body[0], ast.Continue)):
        raise Unrecognised("_send: re-test under lock")
    prog.append("IIfEmptyContinue")
    if u(tb[1]) != "data = self._send_queue.pop(0)":
        raise Unrecognised("_send: pop")
    prog.append("IPop")
    if u(tb[2]) != "self._channel.send(data)":
        raise Unrecognised("_send: write")
    prog.append("IWrite")
    prog.append("IFinallyRelease")
    items = [typed("send_prog", "list instr", coq_list(prog))]
    # the lock is a plain (non re-entrant) threading.Lock created per connection; the queue a per-connection list
    cls = find_class(tree, "Connection")
    initf = find_func(cls, "__init__")
    assigns = {}
    for st in ast.walk(initf):
        if isinstance(st, ast.Assign) and len(st.targets) == 1 and u(st.targets[0]) in ("self._sendlock", "self._send_queue"):
            assigns.setdefault(u(st.targets[0]), []).append((u(st.value), st in initf.body))
    # exactly one unconditional assignment of each, of exactly this form; `Lock` must be threading's (rpyc.lib.compat re-exports it)
    imports_lock = any(isinstance(n, ast.ImportFrom) and any(a.name == "Lock" and a.asname is None for a in n.names) and (n.module or "").endswith(("threading", "compat"))
                       for n in tree.body)
    items.append(typed("sendlock_is_plain_lock", "bool", coq_bool(assigns.get("self._sendlock") == [("Lock()", True)] and imports_lock)))
    items.append(typed("send_queue_is_fresh_list", "bool", coq_bool(assigns.get("self._send_queue") == [("[]", True)])))
    # nothing else in the class touches the queue, the lock or the channel's send: every outgoing byte goes through _send
    def users(attr):
        out = set()
        for f in cls.body:
            if isinstance(f, (ast.FunctionDef, ast.AsyncFunctionDef)):
                if any(isinstance(n, ast.Attribute) and u(n) == attr for n in ast.walk(f)):
                    out.add(f.name)
        return out
    items.append(typed("send_state_private_to_send", "bool", coq_bool(
        users("self._send_queue") == {"__init__", "_send"} and users("self._sendlock") == {"__init__", "_send"}
        and users("self._channel.send") == {"_send"})))
    # ... and nothing outside the class reaches into them
    import os as _os
    outside = []
    for root, _, files in _os.walk(_os.path.join(repo, "rpyc")):
        for fn2 in files:
            if fn2.endswith(".py"):
                txt = open(_os.path.join(root, fn2)).read()
                rel = _os.path.relpath(_os.path.join(root, fn2), repo)
                if rel != SRC and ("_send_queue" in txt or "_sendlock" in txt):
                    outside.append(rel)
    items.append(typed("send_state_untouched_elsewhere", "bool", coq_bool(not outside)))
    # every place in the package that can put bytes on a connection's channel: `<anything>._channel` may be mentioned outside
    # Connection._send only to test / close / poll / recv / read its fileno - never to send, and never to be aliased or handed on
    ALLOWED = {"closed", "close", "poll", "recv", "fileno"}
    bad = []
    for root, _, files in _os.walk(_os.path.join(repo, "rpyc")):
        for fn2 in files:
            if not fn2.endswith(".py"):
                continue
            path = _os.path.join(root, fn2)
            rel = _os.path.relpath(path, repo)
            try:
                t2 = ast.parse(open(path).read())
            except SyntaxError:
                continue
            parents = {}
            for n in ast.walk(t2):
                for c in ast.iter_child_nodes(n):
                    parents[c] = n
            for n in ast.walk(t2):
                if isinstance(n, ast.Attribute) and n.attr == "_channel":
                    par = parents.get(n)
                    fnode = par
                    while fnode is not None and not isinstance(fnode, (ast.FunctionDef, ast.AsyncFunctionDef)):
                        fnode = parents.get(fnode)
                    where = "%s:%s" % (rel, fnode.name if fnode is not None else "<module>")
                    if isinstance(par, ast.Attribute) and par.value is n:
                        if par.attr in ALLOWED or (par.attr == "send" and rel == SRC and fnode is not None and fnode.name == "_send"):
                            continue
                        bad.append(where + ":." + par.attr)
                    elif isinstance(par, ast.Assign) and n in par.targets:
                        if not (rel == SRC and fnode is not None and fnode.name == "__init__"):
                            bad.append(where + ":assigned")
                    else:
                        bad.append(where + ":aliased-or-passed")
    items.append(typed("channel_written_only_by_send", "bool", coq_bool(not bad)))
    items.append(shape("channel_uses_outside_the_allowed_ones", "\n".join(sorted(bad))))
    return items
