from .core import *

SRC = "rpyc/core/protocol.py"
PRELUDE = "From V Require Import model.SendQ.\n"


def translate(repo):
    tree = parse(repo, SRC)
    fn = find_func(find_class(tree, "Connection"), "_send")
    body = strip_doc(fn.body)
    body = [s for s in body if not (isinstance(s, ast.Expr) and isinstance(s.value, ast.Constant))]
    prog = []
    u = ast.unparse
    if len(body) != 3:
        raise Unrecognised("_send: expected dump / append / while")
    if u(body[0]) != "data = brine.dump((msg, seq, args))":
        raise Unrecognised("_send: first statement")
    if u(body[1]) != "self._send_queue.append(data)":
        raise Unrecognised("_send: append")
    prog.append("IAppend")
    w = body[2]
    if not (isinstance(w, ast.While) and u(w.test) == "self._send_queue" and not w.orelse):
        raise Unrecognised("_send: loop")
    prog.append("IWhileQueue")
    wb = [s for s in w.body if not (isinstance(s, ast.Expr) and isinstance(s.value, ast.Constant))]
    if len(wb) != 2:
        raise Unrecognised("_send: loop body")
    a = wb[0]
    if not (isinstance(a, ast.If) and u(a.test) == "not self._sendlock.acquire(False)" and not a.orelse
            and len(a.body) == 1 and isinstance(a.body[0], ast.Return) and a.body[0].value is None):
        raise Unrecognised("_send: try-acquire")
    prog.append("ITryAcquireElseReturn")
    t = wb[1]
    if not (isinstance(t, ast.Try) and not t.handlers and not t.orelse and len(t.finalbody) == 1
            and u(t.finalbody[0]) == "self._sendlock.release()"):
        raise Unrecognised("_send: try/finally")
    tb = [s for s in t.body if not (isinstance(s, ast.Expr) and isinstance(s.value, ast.Constant))]
    if len(tb) != 3:
        raise Unrecognised("_send: guarded body")
    c = tb[0]
    if not (isinstance(c, ast.If) and u(c.test) == "not self._send_queue" and not c.orelse and len(c.body) == 1
            and isinstance(c.body[0], ast.Continue)):
        raise Unrecognised("_send: re-test under lock")
    prog.append("IIfEmptyContinue")
    if u(tb[1]) != "data = self._send_queue.pop(0)":
        raise Unrecognised("_send: pop")
    prog.append("IPop")
    if u(tb[2]) != "self._channel.send(data)":
        raise Unrecognised("_send: write")
    prog.append("IWrite")
    prog.append("IFinallyRelease")
    items = [typed("send_prog", "list instr", coq_list(prog))]
    # the lock is a plain (non re-entrant) threading.Lock created per connection; the queue a per-connection list
    init = ast.unparse(find_func(find_class(tree, "Connection"), "__init__"))
    items.append(typed("sendlock_is_plain_lock", "bool", coq_bool("self._sendlock = Lock()" in init)))
    items.append(typed("send_queue_is_fresh_list", "bool", coq_bool("self._send_queue = []" in init)))
    return items
