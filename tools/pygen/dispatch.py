from .core import *

SRC = "rpyc/core/protocol.py"


def _calls(node, text):
    return any(text in ast.unparse(n) for n in ast.walk(node) if isinstance(n, ast.Call))


def translate(repo):
    tree = parse(repo, SRC)
    cls = find_class(tree, "Connection")
    u = ast.unparse
    items = []
    fn = find_func(cls, "_dispatch_request")
    body = strip_doc(fn.body)
    if not (len(body) == 1 and isinstance(body[0], ast.Try)):
        raise Unrecognised("_dispatch_request: single try statement expected")
    t = body[0]
    tb = [u(x) for x in t.body]
    items.append(typed("unpack_in_try", "bool", coq_bool("handler, args = raw_args" in tb)))
    items.append(typed("unbox_in_try", "bool", coq_bool("args = self._unbox(args)" in tb)))
    items.append(typed("handler_in_try", "bool", coq_bool("res = self._HANDLERS[handler](self, *args)" in tb)))
    # nothing else may happen in the guarded region or on the way to the exception reply (e.g. a sequence number parked in an
    # attribute that a nested dispatch overwrites): the statement lists are exactly these
    extra_try = [x for x in tb if x not in ("handler, args = raw_args", "args = self._unbox(args)", "res = self._HANDLERS[handler](self, *args)")]
    if extra_try:
        raise Unrecognised("_dispatch_request: unexpected statement in the try body: " + extra_try[0][:60])
    if not (len(t.handlers) == 1 and t.handlers[0].type is None):
        raise Unrecognised("_dispatch_request: bare except expected")
    hb = t.handlers[0].body
    plain = [u(x) for x in hb if not isinstance(x, ast.If)]
    if plain[:-1] != ["t, v, tb = sys.exc_info()", "self._last_traceback = tb", "logger = self._config['logger']"]:
        raise Unrecognised("_dispatch_request: unexpected statement in the except body: " + repr(plain)[:120])
    # the exception reply: either sent directly (unguarded encoding) or through a helper that guards the encoding
    last = hb[-1]
    direct = u(last) == "self._send(consts.MSG_EXCEPTION, seq, self._box_exc(t, v, tb))"
    via_helper = u(last) == "self._send_exc(seq, t, v, tb)"
    if not (direct or via_helper):
        raise Unrecognised("_dispatch_request: exception reply")
    exc_guarded = False
    if via_helper:
        h = find_func(cls, "_send_exc")
        hbody = strip_doc(h.body)
        ok = (len(hbody) == 1 and isinstance(hbody[0], ast.Try)
              and [u(x) for x in hbody[0].body] == ["self._send(consts.MSG_EXCEPTION, seq, self._box_exc(t, v, tb))"]
              and len(hbody[0].handlers) == 2 and u(hbody[0].handlers[0].type) == "EOFError"
              and [u(x) for x in hbody[0].handlers[0].body] == ["raise"]
              and u(hbody[0].handlers[1].type) == "Exception"
              and u(hbody[0].handlers[1].body[-1]) == "self._send(consts.MSG_EXCEPTION, seq, self._box_exc(t, v, tb))")
        if not ok:
            raise Unrecognised("_send_exc shape")
        exc_guarded = True
    items.append(typed("exc_encode_guarded", "bool", coq_bool(exc_guarded)))
    # local re-raise conditions stay as they were
    cond = [u(x) for x in hb if isinstance(x, ast.If)]
    items.append(shape("_dispatch_request.except_ifs", "\n".join(cond)))
    marks = ["if t is %s and self._config['propagate_%s_locally']:\n    raise" % (c, c) for c in ("SystemExit", "KeyboardInterrupt")]
    raises = [c for c in cond if "raise" in c]
    if sorted(raises) != sorted(m for m in marks if m in cond):
        raise Unrecognised("_dispatch_request: a re-raise other than the two configured ones")
    items.append(typed("reraises_marked", "bool", coq_bool(all(m in cond for m in marks))))
    dc = find_assign(tree, "DEFAULT_CONFIG")
    if not (isinstance(dc, ast.Call) and u(dc.func) == "dict"):
        raise Unrecognised("DEFAULT_CONFIG")
    kw = {k.arg: k.value for k in dc.keywords}
    for c in ("SystemExit", "KeyboardInterrupt"):
        v = kw.get("propagate_%s_locally" % c)
        if not (isinstance(v, ast.Constant) and isinstance(v.value, bool)):
            raise Unrecognised("DEFAULT_CONFIG propagate_%s_locally" % c)
        items.append(typed("default_marks_%s" % c, "bool", coq_bool(v.value)))
    # the else branch: reply
    eb = t.orelse
    if len(eb) != 1:
        raise Unrecognised("_dispatch_request: else branch")
    e0 = eb[0]
    if u(e0) == "self._send(consts.MSG_REPLY, seq, self._box(res))":
        reply_guarded = False
    elif (isinstance(e0, ast.Try) and [u(x) for x in e0.body] == ["self._send(consts.MSG_REPLY, seq, self._box(res))"]
          and len(e0.handlers) == 2 and u(e0.handlers[0].type) == "EOFError" and [u(x) for x in e0.handlers[0].body] == ["raise"]
          and u(e0.handlers[1].type) == "Exception"
          and u(e0.handlers[1].body[-1]) in ("self._send_exc(seq, *sys.exc_info())",)):
        reply_guarded = True
    else:
        raise Unrecognised("_dispatch_request: reply statement")
    items.append(typed("reply_encode_guarded", "bool", coq_bool(reply_guarded)))
    # routing ladder of _dispatch
    d = strip_doc(find_func(cls, "_dispatch").body)
    lad = u(d[1]) if len(d) == 2 else ""
    want = ("if msg == consts.MSG_REQUEST:\n    self._dispatch_request(seq, args)\n"
            "elif msg == consts.MSG_REPLY:\n    obj = self._unbox(args)\n    self._seq_request_callback(msg, seq, False, obj)\n"
            "elif msg == consts.MSG_EXCEPTION:\n    obj = self._unbox_exc(args)\n    self._seq_request_callback(msg, seq, True, obj)\n"
            "else:\n    raise ValueError('invalid message type: %r' % (msg,))")
    # repaired tree: both response branches go through _dispatch_response, which turns a payload that cannot be rebuilt here into
    # an exception for the request it answers (EOFError excepted) and then looks the callback up exactly as before
    want2 = ("if msg == consts.MSG_REQUEST:\n    self._dispatch_request(seq, args)\n"
             "elif msg == consts.MSG_REPLY:\n    self._dispatch_response(msg, seq, False, args)\n"
             "elif msg == consts.MSG_EXCEPTION:\n    self._dispatch_response(msg, seq, True, args)\n"
             "else:\n    raise ValueError('invalid message type: %r' % (msg,))")
    guarded_resp = False
    if lad == want2:
        dr = [u(x) for x in strip_doc(find_func(cls, "_dispatch_response").body)]
        if dr != ["try:\n    obj = self._unbox_exc(args) if is_exc else self._unbox(args)\nexcept EOFError:\n    raise\nexcept Exception:\n    is_exc, obj = (True, sys.exc_info()[1])",
                  "self._seq_request_callback(msg, seq, is_exc, obj)"]:
            raise Unrecognised("_dispatch_response: " + repr(dr))
        guarded_resp = True
    items.append(typed("dispatch_routing_is_standard", "bool", coq_bool(lad == want or guarded_resp)))
    items.append(typed("response_decode_guarded", "bool", coq_bool(guarded_resp)))
    cb = [u(x) for x in strip_doc(find_func(cls, "_seq_request_callback").body)]
    items.append(typed("callback_popped_then_called", "bool", coq_bool(
        cb[0] == "_callback = self._request_callbacks.pop(seq, None)" and cb[1].startswith("if _callback is not None:\n    _callback(is_exc, obj)"))))
    ar = strip_doc(find_func(cls, "_async_request").body)
    # an optional first statement refuses a closed channel before anything is registered or boxed (repaired tree)
    closed_guard = bool(ar) and u(ar[0]) == "if self._channel.closed:\n    raise EOFError('connection closed')"
    if closed_guard:
        ar = ar[1:]
    items.append(typed("async_request_refuses_closed_channel", "bool", coq_bool(closed_guard)))
    ok = (len(ar) == 3 and u(ar[0]) == "seq = self._get_seq_id()" and u(ar[1]) == "self._request_callbacks[seq] = callback"
          and isinstance(ar[2], ast.Try) and [u(x) for x in ar[2].body] == ["self._send(consts.MSG_REQUEST, seq, (handler, self._box(args)))"]
          and len(ar[2].handlers) == 1 and u(ar[2].handlers[0].type) == "Exception"
          and [u(x) for x in ar[2].handlers[0].body] == ["self._request_callbacks.pop(seq, None)", "raise"])
    items.append(typed("async_request_registers_then_sends_and_pops_on_failure", "bool", coq_bool(ok)))
    return items
