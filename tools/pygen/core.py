"""pygen core: fail-closed translation of facts in /repo's Python sources to Gallina.

Every module translator returns a list of Items.  An Item is either
  * typed  : a Gallina definition (name, type, term)  -> written to coq/gen/Gen_<mod>.v
  * shape  : a normalised text of a function body      -> compared with expected/<mod>.json
A translator that does not recognise its source raises; the item is then *absent*
(typed: the Coq tie lemma stops compiling; shape: reported as 'unrecognised').
"""
import ast, hashlib, json, os, re


class Unrecognised(Exception):
    pass


class Item:
    def __init__(self, name, kind, coq_type=None, coq_term=None, text=None):
        self.name, self.kind, self.coq_type, self.coq_term, self.text = name, kind, coq_type, coq_term, text


def typed(name, coq_type, coq_term):
    return Item(name, "typed", coq_type, coq_term)


def shape(name, text):
    return Item(name, "shape", text=norm_shape(text) if isinstance(text, str) else text)


def parse(repo, rel):
    with open(os.path.join(repo, rel)) as f:
        return ast.parse(f.read(), rel)


def find_class(tree, name):
    for n in tree.body:
        if isinstance(n, ast.ClassDef) and n.name == name:
            return n
    raise Unrecognised("class %s" % name)


def find_func(scope, name):
    for n in scope.body:
        if isinstance(n, (ast.FunctionDef,)) and n.name == name:
            return n
    raise Unrecognised("function %s" % name)


def find_assign(scope, name):
    for n in scope.body:
        if isinstance(n, ast.Assign) and len(n.targets) == 1 and isinstance(n.targets[0], ast.Name) \
                and n.targets[0].id == name:
            return n.value
    raise Unrecognised("assignment %s" % name)


def strip_doc(body):
    if body and isinstance(body[0], ast.Expr) and isinstance(body[0].value, ast.Constant) \
            and isinstance(body[0].value.value, str):
        return body[1:]
    return body


class _Inert(ast.NodeTransformer):
    strip_logs = False

    """drop statements that cannot change behaviour relevant to any model: docstrings,
    bare string/constant expressions, logger.* calls, `pass` next to other statements"""

    def _clean(self, body):
        out = []
        for st in body:
            if isinstance(st, ast.Expr) and isinstance(st.value, ast.Constant):
                continue
            if self.strip_logs and _is_log_call(st):
                continue
            out.append(st)
        return out or [ast.Pass()]

    def generic_visit(self, node):
        super().generic_visit(node)
        for fld in ("body", "orelse", "finalbody"):
            if hasattr(node, fld) and isinstance(getattr(node, fld), list) and getattr(node, fld):
                if all(isinstance(x, ast.stmt) for x in getattr(node, fld)):
                    setattr(node, fld, self._clean(getattr(node, fld)))
        return node


_LOG_METHODS = {"debug", "info", "warn", "warning", "error", "exception", "critical", "log"}


def _is_log_call(st):
    """`<anything mentioning logger>.debug/info/...(simple arguments)` as a statement"""
    if not (isinstance(st, ast.Expr) and isinstance(st.value, ast.Call)):
        return False
    f = st.value.func
    if not (isinstance(f, ast.Attribute) and f.attr in _LOG_METHODS):
        return False
    if "logger" not in ast.unparse(f.value).lower():
        return False
    for a in list(st.value.args) + [k.value for k in st.value.keywords]:
        for n in ast.walk(a):
            if isinstance(n, (ast.Call, ast.Await, ast.Yield, ast.YieldFrom, ast.NamedExpr)):
                return False
    return True


def _locals_in_order(fn):
    """names bound inside fn (not its parameters), in order of first binding; None when the
    function has nested scopes or global/nonlocal declarations (then no renaming is attempted)"""
    params = {a.arg for a in fn.args.posonlyargs + fn.args.args + fn.args.kwonlyargs}
    if fn.args.vararg:
        params.add(fn.args.vararg.arg)
    if fn.args.kwarg:
        params.add(fn.args.kwarg.arg)
    order = []
    for n in ast.walk(fn):
        if n is not fn and isinstance(n, (ast.FunctionDef, ast.AsyncFunctionDef, ast.Lambda, ast.ClassDef,
                                          ast.Global, ast.Nonlocal, ast.Import, ast.ImportFrom)):
            return None
    class V(ast.NodeVisitor):
        def visit_Name(self, n):
            if isinstance(n.ctx, (ast.Store, ast.Del)) and n.id not in params and n.id not in order:
                order.append(n.id)
        def visit_ExceptHandler(self, n):
            if n.name and n.name not in params and n.name not in order:
                order.append(n.name)
            self.generic_visit(n)
    V().visit(fn)
    return order


def _alpha(fn):
    order = _locals_in_order(fn)
    if not order:
        return fn
    used = {n.id for n in ast.walk(fn) if isinstance(n, ast.Name)} | {a.arg for a in ast.walk(fn) if isinstance(a, ast.arg)}
    ren = {}
    for i, nm in enumerate(order):
        new = "L%d_" % i
        if new in used:
            return fn
        ren[nm] = new
    for n in ast.walk(fn):
        if isinstance(n, ast.Name) and n.id in ren:
            n.id = ren[n.id]
        elif isinstance(n, ast.ExceptHandler) and n.name in ren:
            n.name = ren[n.name]
    return fn


def func_shape(fn):
    """text of a function: arguments + body, docstrings and comments gone (translators match this against templates)"""
    fn = _Inert().visit(ast.parse(ast.unparse(fn)).body[0])
    return ast.unparse(fn)


class _InertNoLogs(_Inert):
    strip_logs = True


def norm_shape(text):
    """what a shape snapshot stores: if the text is one function definition, logger calls are dropped and local variables
    (not parameters: callers may pass them by keyword) are renamed L0_, L1_, ... in order of first binding; anything else
    is kept as it is. Renaming a local, re-wording a log line or re-commenting therefore does not break a snapshot."""
    try:
        mod = ast.parse(text)
    except SyntaxError:
        return text
    if len(mod.body) != 1 or not isinstance(mod.body[0], (ast.FunctionDef, ast.AsyncFunctionDef)):
        return text
    fn = _InertNoLogs().visit(mod.body[0])
    return ast.unparse(_alpha(fn))


def const_int(node):
    if isinstance(node, ast.Constant) and isinstance(node.value, int) and not isinstance(node.value, bool):
        return node.value
    if isinstance(node, ast.UnaryOp) and isinstance(node.op, ast.USub):
        return -const_int(node.operand)
    raise Unrecognised("int constant: %s" % ast.dump(node))


def const_bytes1(node):
    if isinstance(node, ast.Constant) and isinstance(node.value, bytes) and len(node.value) == 1:
        return node.value[0]
    raise Unrecognised("1-byte constant")


def coq_string(s):
    return '"' + s.replace('"', '""') + '"%string'


def coq_z(n):
    return "(%d)%%Z" % n


def coq_n(n):
    if n < 0:
        raise Unrecognised("negative N")
    return "%d%%N" % n


def coq_bool(b):
    return "true" if b else "false"


def coq_list(xs):
    return "[" + "; ".join(xs) + "]"


HEADER = """(* GENERATED by tools/pygen from %s -- do not edit; regenerated on every check run *)
From Coq Require Import List NArith ZArith String.
Import ListNotations.
"""


def write_if_changed(path, text):
    try:
        with open(path) as f:
            if f.read() == text:
                return False
    except FileNotFoundError:
        pass
    os.makedirs(os.path.dirname(path), exist_ok=True)
    with open(path, "w") as f:
        f.write(text)
    return True
