#!/usr/bin/env python3
"""List the property theorems actually present in coq/props/*.v (name + the comment that precedes them)."""
import glob, os, re
V = os.path.dirname(os.path.dirname(os.path.abspath(__file__)))
for f in sorted(glob.glob(os.path.join(V, "coq", "props", "C*.v"))):
    txt = open(f).read()
    pid = os.path.basename(f)[:-2]
    names = re.findall(r"^\s*(Theorem|Example)\s+(\w+)", txt, flags=re.M)
    print("- **%s**: " % pid + ", ".join("`%s`" % n for k, n in names if k == "Theorem") +
          ("; examples: " + ", ".join("`%s`" % n for k, n in names if k == "Example") if any(k == "Example" for k, _ in names) else ""))
